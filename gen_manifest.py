"""Regenerates MANIFEST.json from the table below (keeps it schema-valid at all times)."""
import json, os
HERE = os.path.dirname(os.path.abspath(__file__))
BASE_CMD = "cd /repo && /venv/bin/python -m pytest -ra -q -p no:cacheprovider --timeout=900 --continue-on-collection-errors"

CLAIMED = {
 'C18': dict(
    text=("Proof (partial: textual path containment): every file-system-mutating call (os.unlink, shutil.rmtree, os.makedirs, shutil.copy2, shutil.copytree) "
          "inside WorkspaceBuilder.{prepare_directory, manage_directory, cleanup_directory, backup_workspace, copytree_with_extension, run} receives a path "
          "textually under options.workspace / its abspath; forced cleanup and backup cleanup delete only proper descendants of the workspace, never the "
          "workspace directory itself and never a symlink TARGET (realpath is uninterpreted outside the copy); Lian.set_workspace_dir yields <given>/lian_workspace "
          "or the given path when it already contains the default name. Containment closure properties are proved as string lemmas; an inventory obligation "
          "pins the 20 mutating call sites of src/lian and the provenance of loader/taint/dump paths. Byte-identity of inputs and bounded copying are NOT "
          "proved: a bounded stand-in runs the real preparation for several placements (incl. symlinks) and is reported under 'bounded'."),
    note=("Trusted: os/shutil at string level (abspath/realpath/relpath/listdir/walk axioms, no '..' components, no chdir), lianvc + encoding, z3 5.1 (z3 4.8.12 only for the pure string lemmas, after it gave an unjustified unsat on a program VC). "
          "The clang preprocessing helper body is opaque but every caller proves its argument inside the workspace (rescan_c_like_files under contract). Outside: writes through DataModel.save/SFGDumper/print_and_write_flows (static provenance only)."),
    design='§4 C18'),
 'C19': dict(
    text=("Proof, partly over an assumed contract: deductively verified on the real source are CallSite/CallPath (equality, hash, validity), "
          "PathTrie.{__init__,path_exists,remove_path}, TrieNode.__init__ and PathManager.{__init__,add_path,remove_path,path_exists}: the manager's "
          "view always equals the trie's stored set, an invalid path is never stored, an addition is accepted iff no stored path extends or equals it and "
          "evicts exactly the stored proper prefixes, removal removes exactly that path. The history sentences (stored set == maximal valid added paths "
          "after any sequence of additions; re-adding after removal) are proved as induction lemmas over those contracts. PathTrie.add_path and "
          "_mark_non_terminal (the two trie walks) are NOT proved: their contract is assumed and checked by a bounded stand-in on the real code "
          "(exhaustive add/remove sequences; the evidence states the bound and lists it under 'bounded', never under 'discharged')."),
    note=("Trusted: lianvc + encoding, z3. Assumed contract for the two trie walks (bounded stand-in only). CallSite/CallPath immutable value objects; "
          "ids are ints; hash() uninterpreted."),
    design='§4 C19', category='proof'),
 'C20': dict(
    text=("Proof: the VCs generated from the real source of the entry-point selection chain are discharged by z3 for all rule lists, units and "
          "method tables: check_file_processing_flag_and_extract_lang (exact flag), EntryPointRule.{check_availablility, __post_init__ (criteria stay as configured)}, "
          "EntryPointGenerator.{filter_rule_by_unit_info, check_rules, collect_entry_points_from_unit_scope, _load_settings}, "
          "EntryPointsLoader.{__init__,save,get_entry_points}, Loader.{save,get}_entry_points, ComputeFrameStack.{__init__,add}, "
          "P3GlobalSemanticAnalysis.{init_frame_stack, run}. Postconditions: selected set == old set U {methods matched by a rule whose unit "
          "restrictions hold} (both inclusions), saved to the loader iff some rule matches the unit; P3 starts exactly once from every saved entry "
          "and saves that entry's own graph. Partial: TaintAnalysis.run is not yet under contract."),
    note=("Trusted: lianvc + encoding, z3; os.walk / yaml / DataModel query as uninterpreted specifications; opaque analysis callees with an assumed "
          "frame (do not touch the entry-point set); rule files well-typed; args/return_type criteria unused."),
    design='§4 C20'),
 'C03': dict(
    text=("Proof (partial: the flattening / id mechanisms): on the real lang_analysis.py and basic.py, for all GIR statement trees (of the assumed frontend shape) and all "
          "counters: GIRProcessing.{assign_id, init_stmt_id, is_gir_format, flatten_stmt, flatten_block, flatten_gir, flatten} assign every row a fresh id from one growing "
          "counter, keep every id of a call inside [counter at entry, counter at exit), emit for a block exactly a start marker first and an end marker last carrying the "
          "block id and the given parent, set body attributes to the returned block id, never reuse an id except for the (start,end) pair of one block, never remove rows; "
          "LangAnalysis.adjust_node_id leaves a gap > 1 so that the two ids add_main_func invents (proved: max+1, max+2, above every id of the unit) stay below the next "
          "file's first id (lemma over the three contracts). Structural: file read and tree-sitter call of GIRParser.parse sit in catch-all handlers. NOT decided: arbitrary text through tree-sitter and the frontends, the never-raises clause beyond that, "
          "proper nesting as such (it follows from marker placement, not stated as a grammar), GIRBlockViewer."),
    note=("Trusted: lianvc + encoding, z3. Assumed (hereditary, unchecked): frontend output shape (non-empty statement dicts, first key = operation, payload keys not "
          "reserved). LangAnalysis.run is not under contract."),
    design='§4 C03'),
 'C04': dict(
    text=("Proof (partial: the edge-producing handlers; the induction over block structure is assumed and only bounded-checked): on the real control_flow.py, over a ghost log of "
          "ControlFlowGraph.add_edge calls, for all frontiers, rows and iterations: link_parent_stmts_to_current_stmt issues exactly one add_edge per frontier element, in order, "
          "with the element's own kind (EMPTY for a plain statement); analyze_return_stmt links the frontier and adds (stmt, -1, RETURN); analyze_break_stmt/analyze_continue_stmt "
          "link the frontier, collect the statement for the enclosing loop and cut the frontier; deal_with_last_stmts_of_loop_body gives every element of the body frontier an edge "
          "to the header (LOOP_BACK for plain statements), links every collected continue to the header with CONTINUE, returns exactly the collected breaks and the normal exit "
          "CFGNode(header, LOOP_FALSE) (absent for a literal-true condition; order-agnostic) and adds nothing else; analyze_while_stmt analyses the body from "
          "[CFGNode(header, LOOP_TRUE)] with a fresh collector, an else body with the enclosing collector, and lets the else body replace exactly the normal exit; analyze_if_stmt "
          "analyses each arm from the condition node with its branch kind; analyze_dowhile_stmt / analyze_for_stmt analyse their blocks from the right frontiers with the right collectors and close the loop on its own header; BasicGraph._add_one_edge adds the edge iff src != dst, src >= 0 and none exists, and never removes one. "
          "analyze_block (the recursion) is ASSUMED; that every execution is a CFG path is covered only by a bounded stand-in (program family, several methods analysed in one process, try/except/else/finally methods; reported under 'bounded')."),
    note=("Trusted: lianvc + encoding, z3; GIRBlockViewer accessors uninterpreted; networkx has_edge/add_edge as an edge relation. One genuine defect repaired by a fix: commit "
          "(loop else bodies). Not under contract: switch/try/yield/decl handlers, analyze(), goto."),
    design='§4 C04'),
 'C05': dict(
    text=("Proof (partial: the selection step and the scope corrections): on the real code, for all unit summaries and scope tables: Resolver.resolve_symbol_source_decl hands "
          "organize_return_value a scope that declares the name, is visible from the statement (available set of its scope, or an implicit root) and has the maximum id among all "
          "such scopes; with source_symbol_must_be_global only scope 0 when it declares the name; an empty name, a statement without scope and a name without visible declaring "
          "scope yield the unresolved default record. UnitScopeHierarchyAnalysis.correct_scopes re-homes a declaration into scope S only if it was read from the block S designates "
          "for that kind (class fields/methods/nested classes, method parameters, for/with initialisers) and a method only if it is a DIRECT child of the class's methods block. "
          "Lemma: on an ancestor chain with parent id < child id the maximum id is the innermost scope. Recorded finding F5: the chosen scope need not enclose the statement "
          "(implicit-root union). ImportHierarchy.analyze_import_stmt (prefix): a relative import starts its search (leading dots - 1) package levels above the importing file. add_status_with_symbol_id_sync: only a `global` name is looked up in the root scope alone. Bounded stand-in: declaration hoisting + scope tables + resolver on one program. Not decided: scope discovery per language, summarize_symbol_decls, the rest of import resolution, the renaming sentence."),
    note=("Trusted: lianvc + encoding, z3; loader / GIR viewer / scope-space lookups as uninterpreted functions; organize_return_value and resolve_implicit_root_scopes opaque."),
    design='§4 C05'),
 'C06': dict(
    text=("Proof (partial: the dataflow equations, not the fixpoint): on the real code, for all frames, definition tables, CFG neighbourhoods and rounds: BitVectorManager."
          "{kill_bit_ids, gen_bit_ids} are set difference / union on the same set object, add_bit_id keeps the two position tables inverse; update_current_symbol_bit yields "
          "OUT == {d} U (IN minus all definitions of d's symbol) and keeps defined_symbols[s] == {d in all_symbol_defs | d.symbol_id == s}; analyze_reachable_symbols (up to the "
          "change notification) sets IN to the union of OUT over exactly the selected predecessors (all; at a loop header the non-back-edge ones in round one, the back-edge ones "
          "afterwards) and OUT to the fold of that transfer over the defined symbols (kill, pass-through, gen clauses); check_reachable_symbol_defs returns the available "
          "definitions of the used symbol or one external node; add_status_with_symbol_id_sync never overwrites the symbol id recorded for a compiler temporary; update_symbols_if_changed re-binds the uses whenever the IN set changed and re-queues the successors whenever OUT or the definition changed; rerun_analyze_reachable_symbols (prefix) folds into the current OUT set. "
          "The schedule is NOT proved: analyze_stmts' final pop() is incoherent with its peek() (known finding F8, replayed on the real code every run) and the bounded rounds do "
          "not guarantee the fixpoint, so the loop-free 'exactly the classical solution' sentence and the soundness sentence for whole methods are not decided."),
    note=("Trusted: lianvc + encoding, z3; CFG predecessor/edge-kind queries as uninterpreted functions (get_graph_edge_weight: bounded stand-in); symbol space lookups uninterpreted; "
          "graph writes opaque. Two genuine defects repaired by fix: commits (edge kinds of MultiDiGraphs, skipped kill), one recorded (F8)."),
    design='§4 C06'),
 'C08': dict(
    text=("Proof of the SECOND sentence only (literal text is data); the first sentence (abstract values cover concrete values) is NOT decided by this family. On the real code, for "
          "all operand states and all operators of the GIR token set: the only text StmtStates.compute_two_states hands to util.strict_eval is operand SP operator SP operand, every "
          "operand being repr() of its text (a complete string literal: no way out of the quotes), a string of digits, or the text of a value of a non-string builtin type; an "
          "operand that is a string not made of digits is always the repr() image, whatever the operator; on evaluation errors the fallback is plain concatenation. "
          "StmtDefUseAnalysis.adjust_constant_string strips exactly one pair of matching outer quotes. Static: util.strict_eval scans for CALL before eval; no other evaluator call "
          "site exists in src/lian."),
    note=("Trusted: lianvc + encoding, z3 (strings); repr()/isdigit()/eval semantics as stated axioms; numeric-typed states hold numeric tokens (assumed). One genuine defect "
          "repaired by a fix: commit (unescaped quoting, unquoted and/or)."),
    design='§4 C08', category='proof'),
 'C11': dict(
    text=("Proof (partial: the rule side; the data-dependence side is not decided): on the real taint_analysis.py, for all state flow graphs and rule lists: "
          "TaintRuleApplier.get_sink_tag_by_rules takes a rule as matching only if it is a configured sink rule whose operation/name clause holds, ORs a predecessor's tag into the "
          "sink tag only over a SYMBOL_IS_USED edge whose (receiver-adjusted) position is the one the rule target names under the documented %arg0..%arg4/%receiver mapping (or a "
          "wildcard target), takes from-code contributions only for a from-code rule naming the line and symbol, yields 0 without rules or for a non-statement node, modifies nothing "
          "(graph edges, rules, environment) and cannot raise UnboundLocalError; check_method_name is exactly the dotted-suffix match with %anyname; "
          "should_apply_call_stmt_sink_rules / apply_record_write_sink_rules / apply_field_write_sink_rules answer True only through a configured rule of that kind whose stated "
          "unit-name/unit-path/line restrictions and name/key clause hold (False without rules); TaintAnalysis.find_flows reports a (source, sink) pair only when the sink tag shares "
          "a bit with the tag propagated from the source, evaluates every pair in a fresh TaintEnv, restores the analysis-wide environment, reports nothing without sources or sinks. "
          "Structural: the rule lists of RuleManager are append-only (one element per configured rule, attributes taken from the entry). Recorded findings F6 (the language restriction of a rule is never read) and F12 (parameter shortcut). Not decided: that a tag intersection implies a program dependence; source appliers; monotonicity."),
    note=("Trusted: lianvc + encoding, z3; networkx graph queries and str.split as uninterpreted functions; tags as 16-bit vectors; propagation and path reconstruction opaque."),
    design='§4 C11'),
 'C13': dict(
    text=("Proof (partial: the bounding invariants only; termination and running time are NOT decided): on the real source, for all frames, worklists and counter "
          "tables: P2PrelimSemanticAnalysis.analyze_stmts lets a statement reach compute_stmt_states only while its round counter is below its bound "
          "(max_analysis_round, or loop_total_rounds), every completed visit adds exactly one to that counter, counters never decrease, the tables stay in place; "
          "complete_in_states_and_check_continue_flag (prefix) answers False at the bound; GlobalStmtStates.compute_target_method_states (prefix: the callee loop) "
          "selects a callee only while its call-site counter <= MAX_ANALYSIS_ROUND_FOR_CALL_SITE, the path is not stored and closes at most one cycle, and selecting "
          "adds exactly one to the shared table; PathFinder._enqueue never queues a marked node twice and _propagate_from_symbol/_propagate_from_state/_propagate_from_stmt re-enqueue a node only on strict tag growth, for a statement re-read, or if it was never dequeued in this propagation (tags only grow; propagate_taint keeps a fresh per-propagation set that receives every dequeued node); SimpleWorkList.{add,_add_with_priority,pop,peek,__len__} never queue an item twice; CallPath.count_cycles bounds. "
          "Static obligations pin every writer of the counter tables in src/lian, that all frames of an entry point share one call-site table, that the phase-II frame driver records a method before it pops its frame, and that the recursion guard of the field-merge descent is keyed by the merged state sets only. "
          "That these bounds imply termination in polynomial time (liveness/complexity), the drain bound of the taint worklist as a lemma and the unused size caps are outside."),
    note=("Trusted: lianvc + encoding, z3; heapq.heappush as a permutation; the four analysis steps / prepare_parameters / map_arguments opaque with an assumed frame "
          "(do not write the counter tables; backed only by the syntactic writer inventory)."),
    design='§4 C13'),
 'C15': dict(
    text=("Proof (partial): for every history of save/get/export on a GeneralLoader, get_raw_item_by_id/get_item_by_id return the content most recently "
          "saved for the id: the representation invariant (index, active bundle, bundle files, bundle cache, item cache all describe the latest content per "
          "id) is established/preserved by save, export, get; new bundle files never overwrite older ones (path injectivity lemma); util.LRUCache is a "
          "faithful map; OneToManyMapLoader.save/convert_* keep forward and reverse maps for non-empty content. VCs from the real loader.py/util.py, "
          "discharged by z3. restore_indexing: every restored index entry points below the restored bundle count. Structural: the 56 sub-loaders of the Loader facade have pairwise distinct file prefixes. Recorded findings F9, F13. Not decided: the 'failed write is reported' clause, "
          "export_indexing, the 17 subclass hook pairs (assumed; bounded stand-in through real files), LRU recency-list safety."),
    note=("Trusted: DataModel/pandas/feather as uninterpreted table tokens with identity round trip; subclass hooks opaque; lianvc + encoding; z3. "
          "LRUCache get/put/remove may raise AttributeError/KeyError as far as the proof goes (list well-formedness only bounded)."),
    design='§4 C15'),
 'C16': dict(
    text=("Proof: the representation invariant of DataModel (schema == positions of the current columns; row cache, when marked valid, holds the current "
          "cells; every entry of the per-column equality index is the ascending position index of the CURRENT frame) is established by __init__, "
          "re-established by set_refresh_flag for an arbitrary new frame and therefore by modify_row/modify_column/modify_element/rename_column/"
          "append_data_model/remove_rows/load, preserved by refresh_rows/reset_index/queries; query_index_column_value_indices, "
          "search_block_start_end_indics, read_block, slice, clone, access, __len__, query_index_column_value, query_index_column_value_first return exactly the scan of the current frame with valid positions. "
          "All VCs are generated from the real data_model.py/util.py and discharged by z3 for all frames, all histories (invariant is inductive)."),
    note=("Trusted: pandas as an uninterpreted library (frame id + observers; snapshots under copy-on-write), lianvc + encoding, z3. Outside: the cache-sharing "
          "constructor DataModel(other_model), reset_index(move_index_to_column=True), fillna/set_columns, a few convenience queries (listed in the evidence)."),
    design='§4 C16'),
 'C17': dict(
    text=("Proof: every verification condition generated from the real source of EventManager.{add_handler,register,register_list,notify}, "
          "EventData.__init__ and the 11 functions of event_return.py is discharged by z3 for all inputs, all handler lists and all "
          "loop iterations (no bound). notify's postconditions are the clauses of the statement: exactly the matching handlers run once, in "
          "registration order, each sees the data left by the previous successful one, processing stops after the first blocker, the result "
          "is the union of the flags. The default registration table is evaluated from the AST."),
    note=("Trusted: lianvc VC generator and its Python-semantics encoding (DESIGN §2.2), z3. Handlers are opaque callbacks with a declared frame "
          "(data.out_data) and return range (None or 0..15). EventManager.__init__'s plugin loading (importlib/inspect) is outside; the facts "
          "needed from it are static obligations on its AST."),
    design='§4 C17'),
}

NOT_APPLICABLE = {
 'C01': 'needs a formal semantics of Python, of tree-sitter CSTs and a verified-compiler proof of the 2 kLoC python frontend; no function contract within reach expresses it (DESIGN §4 C01)',
 'C02': 'relation between seven ~1.5 kLoC translators and a common reference semantics; same obstacle as C01 seven times (DESIGN §4 C02)',
 'C07': 'callee resolution goes through the whole points-to engine (4 kLoC stmt_states), import graph and event hooks; no per-function contract carries it (DESIGN §4 C07)',
 'C09': 'exact equality with a collecting semantics of whole programs; per-function transfer contracts do not compose to it (DESIGN §4 C09)',
 'C10': 'completeness w.r.t. executions needs soundness of SFG construction, i.e. of the whole points-to engine (DESIGN §4 C10)',
 'C12': 'a relation between two whole-pipeline runs on edited inputs; no single-run function contract expresses it (DESIGN §4 C12)',
 'C14': 'a two-run relation over CPython hash seeds; no verifier here models set iteration order or pyarrow (DESIGN §4 C14)',
}
PENDING = {}   # filled below: properties planned in DESIGN.md whose check is not built yet

ALL = ['C%02d' % i for i in range(1, 21)]
for p in ALL:
    if p not in CLAIMED and p not in NOT_APPLICABLE:
        PENDING[p] = 'planned in DESIGN.md §4 but the check is not built yet in this tree; not claimed until its obligations are discharged'

checks = []
for pid, c in sorted(CLAIMED.items()):
    checks.append(dict(
        property_id=pid,
        quick_cmd=f'./check {pid} --tier quick',
        thorough_cmd=f'./check {pid} --tier thorough',
        evidence_file=f'/verif/evidence/{pid}.json',
        replay_cmd_template=f'./check {pid} --replay {{path}}',
        engine='lianvc',
        level_claimed=dict(category=c.get('category', 'proof'), text=c['text'], design_ref=c['design']),
        level_note=c['note'],
        technique=c.get('technique', 'contract-based deductive verification: VCs generated from the real Python AST (sidecar contracts), discharged by z3'),
    ))
m = dict(
    version=1,
    setup_cmd='./setup.sh',
    hooks=dict(guard='LIAN_VERIF', enable='no hooks: contracts are sidecars in /verif/contracts, /repo is read as it is',
               baseline_off_cmd=BASE_CMD, source_commits=[], add_only=True),
    engines=[dict(name='lianvc', path='/verif/lianvc', serves_properties=sorted(CLAIMED),
                  kind_free_text='own AST->VC generator (forward symbolic execution with contracts, loop invariants, ghost state) + z3 5.1 / z3 4.8.12')],
    checks=checks,
    notes='Exit codes of ./check: 0 held, 1 VIOLATION, 2 undecided (never reported as a violation), 3 checker fault. See DESIGN.md.',
    not_applicable=[dict(property_id=p, reason=r) for p, r in sorted({**NOT_APPLICABLE, **PENDING}.items())],
)
json.dump(m, open(os.path.join(HERE, 'MANIFEST.json'), 'w'), indent=1)
print('claimed', sorted(CLAIMED), 'n/a', sorted(NOT_APPLICABLE), 'pending', sorted(PENDING))
