"""(re)records loop_headers.json and fn_shapes.json (name-abstracted AST shape + names, used to undo pure renamings of locals) — the header text of every loop of every function under contract, in ordinal order — from /repo's current tree.
Run it only on the unchanged tree, together with --rebaseline (which also updates the entries of the property it rebaselines)."""
import importlib, json, os, subprocess, sys
HERE = os.path.dirname(os.path.abspath(__file__))
sys.path.insert(0, HERE)

if len(sys.argv) > 1:          # child: one contract module per process (each module fixes the value sorts at import)
    from lianvc import source
    from lianvc.engine import loop_headers_of, fn_shape
    mod = importlib.import_module('contracts.' + sys.argv[1])
    reg = mod.build()
    reg = reg[0] if isinstance(reg, tuple) else reg
    out = {}
    for c in reg.contracts.values():
        if c.opaque or c.trusted:
            continue
        try:
            fn = source.load(c.file).function(c.qualname)
            sh = fn_shape(fn)
            out[c.name] = dict(loops=loop_headers_of(fn), shape=dict(shape=sh[0], names=sh[1], locals=sh[2]))
        except source.SourceError:
            pass
    print('JSON' + json.dumps(out))
    sys.exit(0)

out = {}
for f in sorted(os.listdir(os.path.join(HERE, 'contracts'))):
    if not (f.startswith('c') and f.endswith('.py') and f[1:3].isdigit() and len(f) == 6):
        continue
    r = subprocess.run([sys.executable, os.path.abspath(__file__), f[:-3]], capture_output=True, text=True, cwd=HERE)
    line = [l for l in r.stdout.splitlines() if l.startswith('JSON')]
    if not line:
        print('FAILED', f, r.stderr[-400:])
        sys.exit(1)
    out.update(json.loads(line[0][4:]))
json.dump({k: v['loops'] for k, v in out.items()}, open(os.path.join(HERE, 'loop_headers.json'), 'w'), indent=1, sort_keys=True)
json.dump({k: v['shape'] for k, v in out.items()}, open(os.path.join(HERE, 'fn_shapes.json'), 'w'), indent=1, sort_keys=True)
print(len(out), 'functions')
