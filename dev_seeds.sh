#!/bin/bash
# dev: run every stored seeded change against its property's quick check, each in its own scratch worktree of /repo (LIANVC_REPO), evidence to a scratch dir.
# usage: ./dev_seeds.sh [seed ids...]   -> prints "<seed> exit=<code> <first VIOLATION line>"; expected: exit=1 for every seed that still applies
cd "$(dirname "$0")"
seeds=("$@"); [ ${#seeds[@]} -eq 0 ] && seeds=($(ls seeded))
run_one() {
  s=$1; pid=${s%%-*}; wt=/tmp/seedwt_$s; ev=/tmp/seedev_$s
  rm -rf "$wt" "$ev"; git -C /repo worktree prune
  git -C /repo worktree add --detach -q "$wt" HEAD || { echo "$s worktree-failed"; return; }
  if git -C "$wt" apply /verif/seeded/$s/patch.diff 2>/dev/null; then
    out=$(LIANVC_REPO=$wt LIANVC_EVIDENCE_DIR=$ev ./check $pid --tier quick 2>&1); code=$?
    echo "$s exit=$code $(echo "$out" | grep -m1 '^VIOLATION' | cut -c1-200) $(echo "$out" | grep -c '^VIOLATION') violation-lines"
  else
    echo "$s patch-does-not-apply"
  fi
  git -C /repo worktree remove --force "$wt"; rm -rf "$ev"
}
export -f run_one
printf '%s\n' "${seeds[@]}" | xargs -P ${SEED_JOBS:-3} -I{} bash -c 'run_one {}'
