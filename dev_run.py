"""dev helper: python3-vt dev_run.py <contracts module> [qualname substring]"""
import sys, time, importlib, traceback
sys.path.insert(0, '/verif')
from lianvc.engine import Exec, Unsupported
from lianvc import solve
mod = importlib.import_module('contracts.' + sys.argv[1])
reg = mod.build()
flt = sys.argv[2] if len(sys.argv) > 2 else ''
for key, c in reg.contracts.items():
    if flt not in c.qualname or c.opaque or c.trusted: continue
    t = time.time()
    try:
        ex = Exec(reg, c)
        vcs = ex.run()
    except Unsupported as e:
        print('UNSUPPORTED', c.name, e); continue
    except Exception:
        traceback.print_exc(); continue
    gen = time.time() - t
    bad = 0
    for vc in vcs:
        r = solve.discharge(vc, 10000)
        ok = (r['verdict'] == 'unsat') if vc.kind != 'cover' else (r['verdict'] == 'sat')
        if r['time_s'] > 2: print('   SLOW %.1fs' % r['time_s'], r['name'], r['verdict'])
        if not ok:
            bad += 1
            print('   FAIL', r['name'], r['verdict'], r['reason'], '%.2fs' % r['time_s'])
            if '-v' in sys.argv and r.get('model'): print('      ', r['model'])
    print(f'{c.name}: {len(vcs)} VCs, {bad} failed, paths={ex.paths}, gen {gen:.2f}s total {time.time()-t:.2f}s')
