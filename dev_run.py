"""dev helper: python3-vt dev_run.py <contracts module> [qualname substring] [-t ms] [-k vcname-substr] [-v]"""
import sys, time, importlib
sys.path.insert(0, '/verif')
from lianvc import runner
mod = importlib.import_module('contracts.' + sys.argv[1])
reg = mod.build()
flt = sys.argv[2] if len(sys.argv) > 2 and not sys.argv[2].startswith('-') else ''
TO = int(sys.argv[sys.argv.index('-t') + 1]) if '-t' in sys.argv else 10000
KSEL = sys.argv[sys.argv.index('-k') + 1] if '-k' in sys.argv else ''
for key, c in reg.contracts.items():
    if flt not in c.qualname or c.opaque or c.trusted: continue
    t = time.time()
    fr = runner.verify_function(reg, c, TO)
    if fr.error:
        print('ERROR', c.name, fr.error[0], fr.error[1][-1500:]); continue
    for r in fr.results:
        if KSEL not in r['name']: continue
        ok = (r['verdict'] == 'unsat') if r['kind'] != 'cover' else (r['verdict'] == 'sat')
        if r['time_s'] > 2 and ok: print('   SLOW %.1fs' % r['time_s'], r['name'], r['verdict'], r['backend'])
        if not ok:
            print('   FAIL', r['name'], r['verdict'], r['reason'], '%.2fs' % r['time_s'])
            if '-v' in sys.argv and r.get('model'): print('      ', r['model'])
    print(f"{c.name}: {len(fr.results)} VCs, {len(fr.failed)} failed, paths={fr.paths}, gen {fr.gen_s:.2f}s total {time.time()-t:.2f}s")
