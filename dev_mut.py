"""dev helper: apply a textual mutation to a /repo file, run a check, revert.  usage: dev_mut.py <prop> <relpath> <old> <new> [extra args]"""
import subprocess, sys
prop, rel, old, new = sys.argv[1:5]
p = '/repo/' + rel
s = open(p).read()
assert s.count(old) >= 1, 'pattern not found'
open(p, 'w').write(s.replace(old, new, 1))
try:
    r = subprocess.run(['/verif/check', prop] + sys.argv[5:], capture_output=True, text=True)
    print('\n'.join(l for l in r.stdout.splitlines() if not l.startswith('WARNING'))[-3000:])
    print(r.stderr[-1500:] if r.returncode not in (0, 1, 2) else '')
    print('exit', r.returncode)
finally:
    subprocess.run(['git', '-C', '/repo', 'checkout', '--', rel])
