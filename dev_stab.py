"""dev helper: stability of a function's VCs across z3 random seeds.  python3-vt dev_stab.py <module> <qualname-substr> [nseeds]"""
import sys, time, importlib
sys.path.insert(0, '/verif')
import z3
from lianvc.engine import Exec
mod = importlib.import_module('contracts.' + sys.argv[1])
reg = mod.build()
ns = int(sys.argv[3]) if len(sys.argv) > 3 else 5
for key, c in reg.contracts.items():
    if sys.argv[2] not in c.qualname or c.opaque: continue
    ex = Exec(reg, c); vcs = ex.run()
    for vc in vcs:
        if vc.kind == 'cover': continue
        bad = []
        for seed in range(ns):
            s = z3.Solver(); s.set('timeout', 10000); s.set('random_seed', seed); 
            z3.set_param('smt.random_seed', seed)
            s.add(*vc.hyps); s.add(z3.Not(vc.goal))
            t = time.time(); r = s.check(); dt = time.time() - t
            if r != z3.unsat or dt > 2: bad.append((seed, str(r), round(dt, 1)))
        if bad: print(vc.name, bad)
    print('done', c.name, len(vcs))
