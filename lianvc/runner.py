"""Property runner: generate VCs from /repo's working tree, discharge, classify, replay, write evidence.

Exit codes: 0 held (known findings printed), 1 VIOLATION, 2 undecided, 3 checker fault.
"""
import ast
import copy
import hashlib
import importlib
import json
import multiprocessing as mp
import os
import subprocess
import sys
import time
import traceback

VERIF = os.path.dirname(os.path.dirname(os.path.abspath(__file__)))
# evidence goes to /verif/evidence; the override exists only so that development runs against seeded changes (dev_seeds.sh, scratch worktrees) do not overwrite it
EVIDENCE_DIR = os.environ.get('LIANVC_EVIDENCE_DIR') or os.path.join(VERIF, 'evidence')
sys.path.insert(0, VERIF)

from lianvc import source, solve                      # noqa: E402
from lianvc.engine import Exec, Unsupported, VC       # noqa: E402
from lianvc.contracts import Registry                 # noqa: E402

NPROC = int(os.environ.get('LIANVC_NPROC', '16'))
REPLAY_PY = os.environ.get('LIANVC_REPLAY_PY', '/venv/bin/python')

_G = {}     # state inherited by forked workers


def base_name(n):
    """obligation name without the goal-split suffix '/k'"""
    return n.split('/')[0] if '/' in n.rsplit(':', 1)[-1] else n


def _solve_idx(arg):
    idx, timeout_ms = arg
    vc = _G['vcs'][idx]
    try:
        r = solve.discharge(vc, timeout_ms, seed=_G.get('seed'))
    except Exception as e:     # noqa
        r = dict(name=vc.name, kind=vc.kind, verdict='error', backend='-', time_s=0.0, model=None, reason=repr(e))
    r['idx'] = idx
    return r


def solve_parallel(vcs, timeout_ms, nproc=NPROC, stop_on_first=False):
    """one forked process per VC, at most nproc at a time, each under a hard wall-clock limit (z3 does not always honour
    its own timeout inside the sequence solver); a killed query is reported as verdict 'timeout'"""
    if not vcs:
        return []
    _G['vcs'] = vcs
    ctx = mp.get_context('fork')
    hard = timeout_ms / 1000.0 * 2 + 6
    results = [None] * len(vcs)
    pending = list(range(len(vcs)))
    active = {}     # idx -> (proc, conn, t_start)
    stop = False
    while (pending and not stop) or active:
        while pending and len(active) < nproc and not stop:
            i = pending.pop(0)
            if z3_trivial(vcs[i]):
                results[i] = dict(name=vcs[i].name, kind=vcs[i].kind, verdict='unsat', backend='trivial', time_s=0.0, model=None, reason='', idx=i)
                continue
            pr, pw = ctx.Pipe(duplex=False)
            p = ctx.Process(target=_child_solve, args=(i, timeout_ms, pw))
            p.start()
            pw.close()
            active[i] = (p, pr, time.time())
        done = []
        for i, (p, pr, t0) in active.items():
            if pr.poll(0):
                try:
                    results[i] = pr.recv()
                except EOFError:
                    results[i] = dict(name=vcs[i].name, kind=vcs[i].kind, verdict='error', backend='-', time_s=time.time() - t0, model=None,
                                      reason='solver process died', idx=i)
                done.append(i)
            elif not p.is_alive():
                # the child may have written its answer just before exiting: look once more before calling it dead
                if pr.poll(0.5):
                    try:
                        results[i] = pr.recv()
                    except EOFError:
                        results[i] = None
                else:
                    results[i] = None
                if results[i] is None:
                    results[i] = dict(name=vcs[i].name, kind=vcs[i].kind, verdict='unknown', backend='-', time_s=time.time() - t0, model=None,
                                      reason=f'solver process exited with {p.exitcode} without an answer', idx=i)
                done.append(i)
            elif time.time() - t0 > hard:
                p.kill()
                results[i] = dict(name=vcs[i].name, kind=vcs[i].kind, verdict='timeout', backend='z3 (killed at the hard limit)',
                                  time_s=time.time() - t0, model=None, reason='hard wall-clock limit', idx=i)
                done.append(i)
        for i in done:
            p, pr, _ = active.pop(i)
            p.join(1)
            pr.close()
            r = results[i]
            if stop_on_first and vcs[i].kind != 'cover' and r['verdict'] != 'unsat':
                stop = True
        if stop:
            for i, (p, pr, _) in list(active.items()):
                p.kill()
                p.join(1)
                pr.close()
            active.clear()
        if not done:
            time.sleep(0.005)
    return [r for r in results if r is not None]


def z3_trivial(vc):
    import z3
    return vc.kind != 'cover' and z3.is_true(vc.goal)


def _child_solve(i, timeout_ms, conn):
    try:
        r = _solve_idx((i, timeout_ms))
    except BaseException as e:     # noqa
        r = dict(name=_G['vcs'][i].name, kind=_G['vcs'][i].kind, verdict='error', backend='-', time_s=0.0, model=None, reason=repr(e), idx=i)
    try:
        conn.send(r)
    finally:
        conn.close()
        os._exit(0)


class FunctionResult:
    def __init__(self, contract):
        self.contract = contract
        self.name = contract.name
        self.file = contract.file
        self.qualname = contract.qualname
        self.results = []
        self.error = None          # ('unsupported'|'source'|'crash', text)
        self.paths = 0
        self.trusted = set()
        self.assumed = set()
        self.fn_hash = None
        self.renamed_locals = {}
        self.relooped = []
        self.gen_s = 0.0
        self.solve_s = 0.0
        self.n_loops = 0

    def ok(self, r):
        return (r['verdict'] == 'sat' or (r['verdict'] == 'unknown' and False)) if r['kind'] == 'cover' else r['verdict'] == 'unsat'

    @property
    def failed(self):
        return [r for r in self.results if not self.ok(r) and r['kind'] != 'cover']

    @property
    def vacuous(self):
        return [r for r in self.results if r['kind'] == 'cover' and r['verdict'] == 'unsat']


def verify_function(reg, contract, timeout_ms, fn_ast=None, nproc=NPROC, stop_on_first=False, lenient=False):
    fr = FunctionResult(contract)
    t0 = time.time()
    try:
        ex = Exec(reg, contract, fn_ast=fn_ast, lenient=lenient)
        fr.fn_hash = source.func_hash(ex.fn)
        fr.renamed_locals = dict(ex.renamed_locals)
        fr.relooped = list(getattr(ex, 'relooped', []))
        vcs = ex.run()
        fr.paths = ex.paths
        fr.trusted = set(ex.used_trusted)
        fr.assumed = set(ex.assumed_contracts)
        fr.n_loops = ex.n_loops
    except Unsupported as e:
        fr.error = ('unsupported', str(e))
        return fr
    except source.SourceError as e:
        fr.error = ('source', str(e))
        return fr
    except Exception:      # noqa
        fr.error = ('crash', traceback.format_exc())
        return fr
    fr.gen_s = time.time() - t0
    t1 = time.time()
    fr.results = solve_parallel(vcs, timeout_ms, nproc, stop_on_first=stop_on_first)
    # a handful of undecided queries get a second, longer attempt with another seed (solver verdicts near the budget flip under CPU load;
    # an `unknown` must never become a verdict about the code)
    if not stop_on_first:
        open_ = [r for r in fr.results if r['kind'] != 'cover' and r['verdict'] in ('unknown', 'timeout')]
        if 0 < len(open_) <= 12:
            _G['seed'] = 7
            try:
                again = solve_parallel([vcs[r['idx']] for r in open_], timeout_ms * 3, min(nproc, len(open_)))
            finally:
                _G.pop('seed', None)
            for old, new in zip(open_, again):
                if new['verdict'] in ('unsat', 'sat'):
                    new['idx'] = old['idx']
                    new['backend'] = new['backend'] + ' (second attempt)'
                    fr.results[fr.results.index(old)] = new
    fr.solve_s = time.time() - t1
    return fr


# ---- canaries: mechanical AST mutation of the in-memory function --------------------------------------------------
DROPPED_PREFIXES = ('util.warn(', 'util.debug(', 'util.error(', 'print(', 'pprint.pprint(', 'util.log(')


class Mutant:
    def __init__(self, desc, fn_ast):
        self.desc, self.fn = desc, fn_ast


def mutants_of(fn, limit=None):
    """mechanical mutation operators on a deep copy of the function AST (DESIGN §2.6)"""
    out = []
    nodes = list(ast.walk(fn))
    for idx, n in enumerate(nodes):
        def mk(desc, f):
            c = copy.deepcopy(fn)
            cn = list(ast.walk(c))[idx]
            if f(cn) is not False:
                ast.fix_missing_locations(c)
                out.append(Mutant(f'{desc} @L{getattr(n, "lineno", "?")}: {ast.unparse(n)[:50]}', c))
        if isinstance(n, ast.If):
            mk('negate-condition', lambda x: setattr(x, 'test', ast.UnaryOp(ast.Not(), x.test)))
        if isinstance(n, ast.BoolOp):
            mk('swap-and-or', lambda x: setattr(x, 'op', ast.Or() if isinstance(x.op, ast.And) else ast.And()))
        if isinstance(n, ast.Compare) and len(n.ops) == 1:
            swaps = {ast.Lt: ast.LtE, ast.LtE: ast.Lt, ast.Gt: ast.GtE, ast.GtE: ast.Gt, ast.Eq: ast.NotEq, ast.NotEq: ast.Eq,
                     ast.In: ast.NotIn, ast.NotIn: ast.In, ast.Is: ast.IsNot, ast.IsNot: ast.Is}
            t = type(n.ops[0])
            if t in swaps:
                mk('flip-comparison', lambda x, t=t: setattr(x, 'ops', [swaps[t]()]))
        if isinstance(n, ast.Constant) and isinstance(n.value, int) and not isinstance(n.value, bool):
            mk('off-by-one', lambda x: setattr(x, 'value', x.value + 1))
        if isinstance(n, ast.Constant) and isinstance(n.value, bool):
            mk('flip-bool', lambda x: setattr(x, 'value', not x.value))
        if isinstance(n, ast.Return) and n.value is not None and not (isinstance(n.value, ast.Constant) and n.value.value is None):
            mk('drop-return-value', lambda x: setattr(x, 'value', None))
        if isinstance(n, (ast.FunctionDef, ast.If, ast.For, ast.While)):
            for field in ('body', 'orelse'):
                body = getattr(n, field, [])
                for j, st in enumerate(body):
                    if isinstance(st, (ast.Expr, ast.Assign, ast.AugAssign, ast.Return, ast.Break, ast.Continue)) and not (
                            isinstance(st, ast.Expr) and isinstance(st.value, ast.Constant)) and not (
                            isinstance(st, ast.Expr) and ast.unparse(st).startswith(DROPPED_PREFIXES)):
                        def delete(x, field=field, j=j):
                            b = getattr(x, field)
                            b[j] = ast.Pass()
                        mk(f'delete-stmt[{ast.unparse(st)[:40]}]', delete)
    if limit:
        out = out[:limit]
    return out


def _canary_child(i, timeout_ms, conn):
    """generate + solve sequentially inside one process; stop at the first obligation that is not discharged"""
    try:
        reg, contract, m = _G['canary'][i]
        try:
            ex = Exec(reg, contract, fn_ast=m.fn)
            vcs = ex.run()
        except (Unsupported, source.SourceError) as e:
            conn.send((i, 'killed', f'outside the subset: {str(e)[:100]}'))
            return
        _G['vcs'] = vcs
        for k, vc in enumerate(vcs):
            if vc.kind == 'cover':
                continue
            r = solve.discharge(vc, timeout_ms, fallbacks=False)
            if r['verdict'] != 'unsat':
                conn.send((i, 'killed', r['name']))
                return
        conn.send((i, 'survived', ''))
    except BaseException as e:     # noqa
        try:
            conn.send((i, 'error', repr(e)[:200]))
        except Exception:          # noqa
            pass
    finally:
        conn.close()
        os._exit(0)


def run_canaries(tasks, timeout_ms, nproc=NPROC, hard_s=None):
    """tasks: [(reg, contract, Mutant)] -> list of (function, mutant, status, killer)"""
    if not tasks:
        return []
    _G['canary'] = tasks
    ctx = mp.get_context('fork')
    hard = hard_s or (timeout_ms / 1000.0 * 6 + 60)
    res = {}
    pending = list(range(len(tasks)))
    active = {}
    while pending or active:
        while pending and len(active) < nproc:
            i = pending.pop(0)
            pr, pw = ctx.Pipe(duplex=False)
            p = ctx.Process(target=_canary_child, args=(i, timeout_ms, pw))
            p.start()
            pw.close()
            active[i] = (p, pr, time.time())
        done = []
        for i, (p, pr, t0) in active.items():
            if pr.poll(0):
                try:
                    res[i] = pr.recv()
                except EOFError:
                    res[i] = (i, 'error', 'canary process died')
                done.append(i)
            elif not p.is_alive():
                res[i] = (i, 'error', f'canary process exited with {p.exitcode}')
                done.append(i)
            elif time.time() - t0 > hard:
                p.kill()
                res[i] = (i, 'killed', 'not verified within the hard time limit')
                done.append(i)
        for i in done:
            p, pr, _ = active.pop(i)
            p.join(1)
            pr.close()
        if not done:
            time.sleep(0.01)
    return [(tasks[i][1].name, tasks[i][2].desc, res[i][1], res[i][2]) for i in range(len(tasks))]


# ---- known findings / baseline --------------------------------------------------------------------------------------
def load_json(path, default):
    try:
        with open(path) as f:
            return json.load(f)
    except FileNotFoundError:
        return default


def known_findings(pid):
    kf = load_json(os.path.join(VERIF, 'known_findings.json'), {'findings': [], 'fixed': []})
    return [f for f in kf.get('findings', []) if f.get('property') == pid]


def baseline():
    return load_json(os.path.join(VERIF, 'baseline_obligations.json'), {})


# ---- replay -----------------------------------------------------------------------------------------------------------
def run_replay(script, args, timeout=600):
    """run a replay/witness-search driver on the real code under the repository's interpreter"""
    env = dict(os.environ)
    env['PYTHONPATH'] = os.path.join(source.REPO, 'src') + os.pathsep + os.path.join(VERIF, 'replay')
    env['PYTHONDONTWRITEBYTECODE'] = '1'
    env.pop('LIANVC_DEV_PATCH', None)
    try:
        r = subprocess.run([REPLAY_PY, os.path.join(VERIF, 'replay', script)] + args, capture_output=True, text=True,
                           timeout=timeout, env=env, cwd=VERIF)
    except subprocess.TimeoutExpired:
        return None, 'replay timed out'
    if r.returncode not in (0, 1):
        return None, f'replay driver failed (exit {r.returncode}): {r.stderr[-2000:]}'
    try:
        return json.loads(r.stdout.strip().splitlines()[-1]), r.stderr[-2000:]
    except Exception as e:     # noqa
        return None, f'replay output not understood: {e}: {r.stdout[-500:]} {r.stderr[-500:]}'


# ---- main driver ---------------------------------------------------------------------------------------------------------
class Report:
    def __init__(self, pid, tier, seed):
        self.pid, self.tier, self.seed = pid, tier, seed
        self.t0 = time.time()
        self.functions = []
        self.extra = []              # results of non-VC obligations (static tables, lemmas): dicts like VC results
        self.violations = []         # (obligation, replay_path, has_input)
        self.known = []              # text lines
        self.known_obs = set()       # obligation base names attributed to a recorded known finding (NOT claimed as proved)
        self.undecided = []
        self.faults = []
        self.canaries = []
        self.bounded = []
        self.assumptions = []
        self.notes = []
        self.trusted = set()
        self.samples = []

    def evidence(self, module, level='proof'):
        all_obs = [r for f in self.functions for r in f.results if r['kind'] != 'cover'] + self.extra
        # the proof-level claim is about the obligations that are NOT recorded known findings; those are listed separately and never counted as proved
        kf_obs = [r for r in all_obs if base_name(r['name']) in self.known_obs and r['verdict'] != 'unsat']
        obs = [r for r in all_obs if not (base_name(r['name']) in self.known_obs and r['verdict'] != 'unsat')]
        dis = [r for r in obs if r['verdict'] == 'unsat']
        backends = {}
        for r in dis:
            backends[r['backend']] = backends.get(r['backend'], 0) + 1
        slow = sorted(obs, key=lambda r: -r['time_s'])[:5]
        samples = [dict(obligation=r['name'], kind=r['kind'], verdict=r['verdict'], backend=r['backend'], time_s=round(r['time_s'], 3))
                   for r in (obs[:6] + slow)]
        fails = [r for r in obs if r['verdict'] != 'unsat']
        samples += [dict(obligation=r['name'], kind=r['kind'], verdict=r['verdict'], reason=r.get('reason', ''), time_s=round(r['time_s'], 3))
                    for r in fails[:10]]
        cov = dict(
            obligations=len(obs), discharged=len(dis),
            obligations_generated=len(all_obs),
            known_finding_obligations=dict(count=len(kf_obs), not_claimed=sorted({base_name(r['name']) for r in kf_obs}),
                                           note='instances of obligations that fail on this tree and are recorded in known_findings.json (witness replayed on this run); '
                                                'they are excluded from `obligations`/`discharged` and are NOT part of what is claimed as proved'),
            checker_cmd=f'cd /verif && ./check {self.pid} --tier {self.tier}',
            trusted_base=sorted(self.trusted | {'lianvc VC generator (this repository)', 'z3 5.1.0 (python API); /usr/bin/z3 4.8.12 on unknown',
                                                'Python-semantics encoding of DESIGN.md §2.2'}),
            functions_under_contract=[dict(file=f.file, function=f.qualname, ast_sha=f.fn_hash, paths=f.paths, loops=f.n_loops,
                                           obligations=len([r for r in f.results if r['kind'] != 'cover']),
                                           discharged=len([r for r in f.results if r['kind'] != 'cover' and r['verdict'] == 'unsat']),
                                           error=(f.error[0] + ': ' + f.error[1][:200]) if f.error else None,
                                           gen_s=round(f.gen_s, 2), solve_wall_s=round(f.solve_s, 2),
                                           **({'verified_modulo_renaming_of_locals': f.renamed_locals} if f.renamed_locals else {}),
                                           **({'comprehensions_put_back_into_loop_form': f.relooped} if f.relooped else {})) for f in self.functions],
            discharged_by_backend=backends,
            solver_time_s=round(sum(r['time_s'] for r in obs), 2),
            vacuity=dict(requires_satisfiable=len([r for f in self.functions for r in f.results if r['kind'] == 'cover' and r['verdict'] == 'sat']),
                         requires_checked=len([r for f in self.functions for r in f.results if r['kind'] == 'cover'])),
            canaries=dict(tried=len(self.canaries), killed=len([c for c in self.canaries if c[2] == 'killed']),
                          survivors=[dict(function=c[0], mutant=c[1]) for c in self.canaries if c[2] != 'killed'][:40],
                          sample_kills=[dict(function=c[0], mutant=c[1], failed_obligation=c[3]) for c in self.canaries if c[2] == 'killed'][:8]),
            bounded=self.bounded,
            samples=samples,
            known_findings=self.known,
            undecided=self.undecided[:20],
            notes=self.notes,
            explanation=getattr(module, 'EXPLANATION', ''),
        )
        return dict(property_id=self.pid, tier=self.tier, seed=self.seed, level=level, coverage=cov,
                    assumptions=sorted(set(self.assumptions)), wall_s=round(time.time() - self.t0, 2),
                    violations=len(self.violations))


def write_replay_file(pid, obligation, payload):
    d = os.path.join(EVIDENCE_DIR, 'replay', pid)
    os.makedirs(d, exist_ok=True)
    safe = hashlib.sha1(obligation.encode()).hexdigest()[:10]
    nm = ''.join(ch if ch.isalnum() or ch in '._-' else '_' for ch in obligation)[-80:]
    path = os.path.join(d, f'{nm}.{safe}.json')
    with open(path, 'w') as f:
        json.dump(payload, f, indent=1, default=str)
    return path


def run_property(modname, tier='quick', seed=0, rebaseline=False, only=None, canary_limit=None):
    t0 = time.time()
    module = importlib.import_module('contracts.' + modname)
    pid = module.PROPERTY
    rep = Report(pid, tier, seed)
    import shutil
    shutil.rmtree(os.path.join(EVIDENCE_DIR, 'replay', pid), ignore_errors=True)
    timeout_ms = int(os.environ.get('LIANVC_VC_TIMEOUT_MS', '10000' if tier == 'quick' else '60000'))
    try:
        reg = module.build()
    except Exception:      # noqa
        print(traceback.format_exc())
        return finish(rep, module, 3, 'contract module failed to build')
    under = [c for c in reg.contracts.values() if not c.opaque and not c.trusted]
    if only:
        under = [c for c in under if only in c.qualname]
    for c in reg.contracts.values():
        if c.opaque or c.trusted:
            rep.assumptions.append(f'assumed contract (body not verified): {c.name}' + (f' — {c.note}' if c.note else ''))
    for c in reg.contracts.values():
        for nm, _ in c.pre_assume:
            rep.assumptions.append(f'assumed at the entry of {c.name}, NOT checked at its call sites: {nm}')
        if c.stop_before:
            rep.assumptions.append(f'{c.name}: only the PREFIX of the body is verified, up to (not including) the first statement starting with "{c.stop_before}"; '
                                   f'the statements after it are dropped by the extraction')
        if c.allow_raise:
            rep.assumptions.append(f'{c.name} may raise {"/".join(c.allow_raise)} as far as the proof goes (no safety obligation for it; callers assume normal return)')
    rep.assumptions += list(getattr(module, 'ASSUMPTIONS', []))
    for must in ('ASSUMPTIONS', 'EXPLANATION', 'QUICK_CANARIES'):
        if not getattr(module, must, None):
            rep.faults.append(f'contract module {modname} has no {must}: its metadata section is missing (evidence would under-report assumptions / run no canaries)')
    bl0 = baseline().get(pid, {})
    for c in under:
        fr = verify_function(reg, c, timeout_ms)
        if fr.error and fr.error[0] == 'unsupported' and not rebaseline and os.environ.get('LIANVC_NO_LENIENT') != '1':
            # the function was inside the subset when the baseline was recorded and its source has changed since: retry with
            # the weakest contract for calls that have none, so that the obligations are still generated and decided
            b = bl0.get(c.name)
            try:
                now = source.func_hash(source.load(c.file).function(c.qualname))
            except source.SourceError:
                now = None
            if b and now and b.get('ast_sha') != now:
                fr2 = verify_function(reg, c, timeout_ms, lenient=True)
                if not fr2.error:
                    rep.notes.append(f'{c.name}: changed source calls a function without contract ({fr.error[1][:120]}); verified with the weakest contract for it')
                    fr = fr2
        rep.functions.append(fr)
        rep.trusted |= fr.trusted
        if fr.error:
            kind, text = fr.error
            changed_fn = False
            if kind == 'crash' and not rebaseline:
                # a crash inside a specification / hook on a function whose source differs from the baseline means the sidecar contract no longer fits the code
                # (a local or loop it names is gone): that is `contract out of date`, handled like a function outside the subset — never a checker fault
                try:
                    changed_fn = bool(bl0.get(c.name)) and bl0[c.name].get('ast_sha') != source.func_hash(source.load(c.file).function(c.qualname))
                except source.SourceError:
                    changed_fn = False
                if changed_fn:
                    kind, text = 'contract-out-of-date', 'the sidecar contract does not fit the changed function: ' + text.strip().splitlines()[-1][:200]
            if kind == 'crash':
                rep.faults.append(f'{c.name}: {text[-600:]}')
            else:
                # the changed function left the verifiable subset altogether: its contract was proved on the unchanged tree (baseline) and cannot be re-proved; if the
                # replay driver shows a failing input of this very function on the real code, that is a violation with a witness; otherwise it stays undecided
                b = bl0.get(c.name)
                decided = False
                if b and not rebaseline and getattr(module, 'REPLAY', None):
                    try:
                        now = source.func_hash(source.load(c.file).function(c.qualname))
                    except source.SourceError:
                        now = None
                    if now and b.get('ast_sha') != now:
                        out, err = run_replay(module.REPLAY, ['--search', c.qualname, '--models', '[]'])
                        wits = [w for w in (out or {}).get('witnesses', []) if str(w.get('function', '')).endswith(c.qualname.split('.')[-1])]
                        if wits:
                            ob = f'{c.name}:contract-no-longer-provable-after-the-change-({kind})'
                            path = write_replay_file(pid, ob, dict(property=pid, obligation=ob, function=c.name, reason=text[:400], failing_input=wits[0], replay=(out or {}).get('how', ''),
                                                                   note='every obligation of this function was discharged on the unchanged tree (baseline_obligations.json); the changed body is outside '
                                                                        'the verifiable subset; the failing input below was found on the real code by the replay driver'))
                            rep.violations.append((ob, path, True))
                            decided = True
                if not decided:
                    rep.undecided.append(f'{c.name}: {kind}: {text}')
    # extra (non-VC) obligations supplied by the contract module
    for fn in getattr(module, 'EXTRA_OBLIGATIONS', []):
        try:
            rep.extra += fn(reg, tier)
        except source.SourceError as e:
            rep.undecided.append(f'extra obligation {fn.__name__}: {e}')
        except Exception:      # noqa
            rep.faults.append(f'extra obligation {fn.__name__}: {traceback.format_exc()[-600:]}')
    total = sum(len(f.results) for f in rep.functions) + len(rep.extra)
    if total == 0 and not rep.faults:
        rep.undecided.append('zero obligations generated')

    # ---- baseline bookkeeping -----------------------------------------------------------------------------------
    bl = baseline()
    if rebaseline:
        entry = {}
        for f in rep.functions:
            names = sorted({base_name(r['name']) for r in f.results if r['kind'] != 'cover' and r['verdict'] == 'unsat'} -
                           {base_name(r['name']) for r in f.failed})
            entry[f.name] = dict(ast_sha=f.fn_hash, discharged=names)
        entry['__extra__'] = dict(discharged=sorted({r['name'] for r in rep.extra if r['verdict'] == 'unsat'}))
        entry['__files__'] = {rp: m.sha256 for rp, m in sorted(source._MODULES.items())}
        entry['__data__'] = {rp: m.data_sha for rp, m in sorted(source._MODULES.items())}
        bl[pid] = entry
        with open(os.path.join(VERIF, 'baseline_obligations.json'), 'w') as fh:
            json.dump(bl, fh, indent=1, sort_keys=True)
        # header texts of the loops of every function under contract: loop specifications are keyed by ordinal, the engine re-aligns them by header when loops are
        # added / removed later (engine.Exec._number_loops)
        from .engine import loop_headers_of, fn_shape
        lh_path = os.path.join(VERIF, 'loop_headers.json')
        sh_path = os.path.join(VERIF, 'fn_shapes.json')
        lh = load_json(lh_path, {})
        shp = load_json(sh_path, {})
        for c in under:
            try:
                fn_now = source.load(c.file).function(c.qualname)
                lh[c.name] = loop_headers_of(fn_now)
                sh = fn_shape(fn_now)
                shp[c.name] = dict(shape=sh[0], names=sh[1], locals=sh[2])
            except source.SourceError:
                pass
        with open(lh_path, 'w') as fh:
            json.dump(lh, fh, indent=1, sort_keys=True)
        with open(sh_path, 'w') as fh:
            json.dump(shp, fh, indent=1, sort_keys=True)
    blp = bl.get(pid, {})

    # ---- classify failures ----------------------------------------------------------------------------------------
    kfs = known_findings(pid)
    failing = []     # (function result or None, result dict)
    for f in rep.functions:
        for r in f.failed:
            failing.append((f, r))
        for r in f.vacuous:
            rep.undecided.append(f'{r["name"]}: requires clause is unsatisfiable (vacuous contract)')
    for r in rep.extra:
        if r['verdict'] != 'unsat':
            failing.append((None, r))
    # obligation-count drop against the baseline
    for f in rep.functions:
        b = blp.get(f.name)
        if b and not f.error:
            now = {base_name(r['name']) for r in f.results if r['kind'] != 'cover'}
            missing = [n for n in b['discharged'] if n not in now]
            # a few names can come and go with path pruning (the feasibility probes have a time budget, so a path that is infeasible may or may not be pruned under load);
            # the guard is against an engine that silently stops generating obligations, i.e. a substantial part missing
            if missing and f.fn_hash == b['ast_sha'] and (len(missing) > max(3, len(b['discharged']) // 10) or not now):
                rep.undecided.append(f'{f.name}: obligations recorded in the baseline are no longer generated: {missing[:3]}')
            elif missing and f.fn_hash == b['ast_sha']:
                rep.notes.append(f'{f.name}: {len(missing)} obligation name(s) of the baseline not generated in this run (path pruning): {missing[:3]}')

    groups = {}
    for f, r in failing:
        groups.setdefault(base_name(r['name']), []).append((f, r))

    witness_cache = {}
    for ob, items in sorted(groups.items()):
        f, r0 = items[0]
        # known finding?
        kf = next((k for k in kfs if k['obligation'] == ob or (k['obligation'].endswith('*') and ob.startswith(k['obligation'][:-1]))), None)
        verdicts = sorted({r['verdict'] for _, r in items})
        if kf is not None:
            # the recorded witness must still reproduce on the real code, else the finding is gone and this is something new
            ok, detail = replay_known(module, kf, witness_cache)
            if ok:
                line = f'KNOWN-FINDING: property={pid} {ob} {kf["what"]}'
                if line not in rep.known:
                    rep.known.append(line)
                rep.known_obs.add(ob)
                continue
            rep.notes.append(f'known finding {kf["id"]} did not reproduce: {detail}')
        # look for a failing input on the real code
        wit = find_witness(module, ob, items, witness_cache)
        payload = dict(property=pid, obligation=ob, verdicts=verdicts, instances=[
            dict(name=r['name'], verdict=r['verdict'], backend=r['backend'], reason=r.get('reason', ''), model=r.get('model'),
                 time_s=round(r['time_s'], 2)) for _, r in items[:8]],
            function=(f.name if f else None), function_ast_sha=(f.fn_hash if f else None))
        if wit and wit.get('found'):
            payload['failing_input'] = wit['witness']
            payload['replay'] = wit.get('how', '')
            path = write_replay_file(pid, ob, payload)
            rep.violations.append((ob, path, True))
            continue
        if wit is not None:
            payload['witness_search'] = wit.get('searched', '')
        definite = 'sat' in verdicts
        b = blp.get(f.name) if f else blp.get('__extra__')
        was_discharged = bool(b) and ob in b.get('discharged', [])
        changed = bool(b) and f is not None and b.get('ast_sha') != f.fn_hash
        callee_changed = bool(f) and any(blp.get(g.name, {}).get('ast_sha') not in (None, g.fn_hash) for g in rep.functions)
        if definite or f is None:
            path = write_replay_file(pid, ob, payload)
            rep.violations.append((ob, path, False))
        elif was_discharged and (changed or callee_changed or source_changed_vs_baseline(blp, rep)):
            payload['note'] = ('obligation was discharged on the unchanged tree (baseline_obligations.json) and is not discharged on this tree; '
                               'solver reason attached')
            path = write_replay_file(pid, ob, payload)
            rep.violations.append((ob, path, False))
        else:
            rep.undecided.append(f'{ob}: {verdicts} ({r0.get("reason", "")}) — not recorded as discharged before / source unchanged')

    # ---- canaries (must-fail mutants) -----------------------------------------------------------------------------
    if not rep.violations and not rep.faults and not only:
        tasks = []
        gate_keys = set()
        for c in under:
            try:
                fn = source.load(c.file).function(c.qualname)
            except source.SourceError:
                continue
            ms = mutants_of(fn)
            recorded = getattr(module, 'QUICK_CANARIES', {}).get(c.qualname)
            if tier == 'quick':
                if recorded is None:
                    ms = ms[: int(os.environ.get('LIANVC_QUICK_CANARIES', '3'))]
                else:
                    ms = [m for m in ms if any(m.desc.startswith(p) for p in recorded)][:len(recorded)]
            elif canary_limit:
                ms = ms[:canary_limit]
            # the GATE (vacuity guard) is the same selection in both tiers: the recorded must-kill mutants (or the first three). The thorough tier additionally runs
            # every other mutant and reports the ratio and the survivors; those include equivalent mutants and mutants of code the contracts say nothing about
            # (helper branches, messages), so their ratio is information, not a verdict
            if recorded is None:
                gate = {id(m) for m in ms[: int(os.environ.get('LIANVC_QUICK_CANARIES', '3'))]}
            else:
                gate = {id(m) for m in [m for m in ms if any(m.desc.startswith(p) for p in recorded)][:len(recorded)]}
            gate_keys.update((c.name, m.desc) for m in ms if id(m) in gate)
            tasks += [(reg, c, m) for m in ms]
        if tasks:
            ct = int(os.environ.get('LIANVC_CANARY_TIMEOUT_MS', '4000'))
            rep.canaries = run_canaries(tasks, ct)
            expected = getattr(module, 'EQUIVALENT_MUTANTS', ())
            surv = [c for c in rep.canaries if c[2] != 'killed' and not any(e in c[1] for e in expected)]
            min_kill = getattr(module, 'MIN_CANARY_KILL_RATIO', 0.0)
            gated = [c for c in rep.canaries if (c[0], c[1]) in gate_keys] if tier != 'quick' else list(rep.canaries)
            if tier != 'quick' and not gated:
                gated = list(rep.canaries)
            killed = len([c for c in gated if c[2] == 'killed'])
            counted = [c for c in gated if c[2] == 'killed' or not any(e in c[1] or e in c[0] for e in expected)]
            if counted and killed / len(counted) < min_kill:
                rep.undecided.append(f'canary kill ratio {killed}/{len(counted)} below the required {min_kill} '
                                     f'(survivors: {[c[1][:60] for c in gated if c[2] != "killed"][:5]})')
            if tier != 'quick':
                allk = len([c for c in rep.canaries if c[2] == 'killed'])
                rep.notes.append(f'mutants: gate {killed}/{len(counted)} (the recorded must-kill selection, same as the quick tier); all generated mutants {allk}/{len(rep.canaries)} '
                                 f'killed; survivors outside the gate (equivalent mutants or code the contracts do not constrain): {[c[1][:50] for c in surv if (c[0], c[1]) not in gate_keys][:8]}')

    # ---- thorough-only: bounded cross-checks supplied by the module -------------------------------------------------
    for fn in getattr(module, 'BOUNDED_CHECKS', []):
        if tier == 'thorough' or getattr(fn, 'quick', False):
            try:
                b = fn(tier, seed)
                rep.bounded.append(b)
                if b.get('failed'):
                    if b.get('is_violation'):
                        path = write_replay_file(pid, 'bounded:' + b['name'], b)
                        rep.violations.append(('bounded:' + b['name'], path, True))
                    else:
                        rep.faults.append(f'bounded cross-check {b["name"]} disagrees with the encoding: {str(b.get("detail"))[:300]}')
            except Exception:      # noqa
                rep.faults.append(f'bounded check {fn.__name__}: {traceback.format_exc()[-600:]}')

    code = 0
    if rep.violations:
        code = 1
    elif rep.faults:
        code = 3
    elif rep.undecided:
        code = 2
    return finish(rep, module, code)


def source_changed_vs_baseline(blp, rep):
    """did any source file the proof reads change since the baseline was recorded"""
    files = blp.get('__data__')
    if files is not None:
        # only the DATA part of a file counts (module-level and class-level statements that are not function definitions: constants, tables, class headers);
        # a change inside some other function of the same file says nothing about an unchanged function's obligation
        for rp, m in source._MODULES.items():
            if rp in files and files[rp] != m.data_sha:
                return True
    else:
        files = blp.get('__files__', {})
        for rp, m in source._MODULES.items():
            if rp in files and files[rp] != m.sha256:
                return True
    return any(blp.get(f.name, {}).get('ast_sha') not in (None, f.fn_hash) for f in rep.functions)


def replay_known(module, kf, cache):
    script = getattr(module, 'REPLAY', None)
    if not script:
        return False, 'no replay driver'
    key = ('known', kf['id'])
    if key not in cache:
        cache[key] = run_replay(script, ['--known', json.dumps(kf.get('witness'))])
    out, err = cache[key]
    if out is None:
        return False, err
    return bool(out.get('reproduced')), out.get('detail', '')


def find_witness(module, ob, items, cache):
    script = getattr(module, 'REPLAY', None)
    if not script:
        return None
    f = items[0][0]
    target = f.qualname if f else 'extra'
    key = ('search', target)
    if key not in cache:
        models = [r.get('model') for _, r in items if r.get('model')][:3]
        cache[key] = run_replay(script, ['--search', target, '--models', json.dumps(models, default=str)])
    out, err = cache[key]
    if out is None:
        return dict(found=False, searched=f'witness search unavailable: {err}')
    # a witness is attributed to this obligation if the driver says it violates the clause this obligation encodes, or any clause
    clause = ob.split(':ensures:')[-1] if ':ensures:' in ob else None
    for w in out.get('witnesses', []):
        if clause is None or not w.get('clauses') or any(clause.startswith(cl) or cl in clause for cl in w['clauses']):
            return dict(found=True, witness=w, how=out.get('how', ''))
    if out.get('witnesses'):
        return dict(found=True, witness=out['witnesses'][0], how=out.get('how', ''))
    return dict(found=False, searched=out.get('searched', ''))


def finish(rep, module, code, msg=None):
    ev = rep.evidence(module, level=getattr(module, 'LEVEL', 'proof'))
    if msg:
        ev['coverage']['notes'].append(msg)
    ev['coverage']['exit_code'] = code
    os.makedirs(EVIDENCE_DIR, exist_ok=True)
    with open(os.path.join(EVIDENCE_DIR, f'{rep.pid}.json'), 'w') as f:
        json.dump(ev, f, indent=1, default=str)
    for line in rep.known:
        print(line)
    for ob, path, has_input in rep.violations:
        print(f'VIOLATION property={rep.pid} replay={path}' + ('' if has_input else ' no-failing-input-found'))
        print(f'  failed obligation: {ob}')
    for u in rep.undecided:
        print(f'UNDECIDED: {u}')
    for u in rep.faults:
        print(f'CHECKER-FAULT: {u}')
    c = ev['coverage']
    print(f'{rep.pid} [{rep.tier}] obligations={c["obligations"]} discharged={c["discharged"]} functions={len(rep.functions)} '
          f'canaries={c["canaries"]["killed"]}/{c["canaries"]["tried"]} wall={ev["wall_s"]}s exit={code}')
    return code


def main(argv):
    import argparse
    ap = argparse.ArgumentParser()
    ap.add_argument('prop')
    ap.add_argument('--tier', default=os.environ.get('VERIF_TIER', 'quick'))
    ap.add_argument('--rebaseline', action='store_true')
    ap.add_argument('--only', default=None)
    ap.add_argument('--replay', default=None)
    ap.add_argument('--canary-limit', type=int, default=None)
    a = ap.parse_args(argv)
    seed = int(os.environ.get('VERIF_SEED', '0') or 0)
    modname = a.prop.lower()
    if a.replay:
        return replay_file(modname, a.replay)
    try:
        return run_property(modname, a.tier, seed, a.rebaseline, a.only, a.canary_limit)
    except Exception:      # noqa
        traceback.print_exc()
        return 3


def replay_file(modname, path):
    module = importlib.import_module('contracts.' + modname)
    with open(path) as f:
        payload = json.load(f)
    print(json.dumps({k: payload.get(k) for k in ('property', 'obligation', 'verdicts', 'function')}, indent=1))
    w = payload.get('failing_input')
    if not w:
        print('no failing input was found for this obligation; solver output:')
        print(json.dumps(payload.get('instances'), indent=1)[:3000])
        return 0
    out, err = run_replay(module.REPLAY, ['--replay', json.dumps(w)])
    print(json.dumps(out, indent=1) if out else err)
    return 1 if out and out.get('reproduced') else 0


if __name__ == '__main__':
    sys.exit(main(sys.argv[1:]))
