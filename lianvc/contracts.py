"""Contract objects and registries (sidecar contracts register themselves here; /repo is never edited)."""
from . import sorts as S


class ClassInfo:
    """Static description of a class used by code under contract.

    kind='heap'  : instances are references; `fields` gives the declared type of each attribute (writes are
                   checked against it, reads assume it).
    kind='value' : immutable instances with structural equality (a PyObj constructor).  The class's own
                   __init__/__eq__/__hash__ must be verified against this reading by the contracts that use it.
    """

    def __init__(self, name, file, fields, kind='heap', bases=(), ctor_params=None, ctor_defaults=None,
                 init_contract=None, eq=None):
        self.name, self.file, self.fields, self.kind = name, file, dict(fields), kind
        self.bases = list(bases)
        self.ctor_params = ctor_params          # value classes / dataclasses: constructor parameter order
        self.ctor_defaults = ctor_defaults or {}
        self.init_contract = init_contract      # heap classes: qualname of __init__ contract (else '<Cls>.__init__')
        self.eq = eq                            # None: identity (heap) / structural (value)
        if kind == 'value':
            S.register_value_class(name, list(fields))


class LoopSpec:
    def __init__(self, invariants=(), modifies=None, decreases=None, note=''):
        self.invariants = list(invariants)      # [(name, lambda c: z3 Bool)]
        self.modifies = modifies                # None: computed from the body (conservative)
        self.decreases = decreases              # lambda c: z3 Int (while loops)
        self.note = note


class Contract:
    def __init__(self, file, qualname, params, returns=S.Any, requires=(), ensures=(), modifies=None, loops=None,
                 raises=None, ghost_init=None, callbacks=None, local_types=None, inline=False, opaque=False,
                 trusted=False, note='', allow_raise=(), pre_assume=(), type_invariants=True, ghost_hooks=None, fresh_fields=None, allocates=True, track_keys=False, stop_before=None, merge_before=(), before_call_hooks=None):
        self.file, self.qualname = file, qualname
        self.params = dict(params)              # ordered name -> Ty ('self' included for methods)
        self.returns = returns
        self.requires = list(requires)          # [(name, lambda c)]
        self.ensures = list(ensures)            # [(name, lambda c)]
        self.modifies = modifies                # lambda c: {heapfield: True | [addr terms] | (lambda a: Bool)}
        self.loops = loops or {}                # ordinal -> LoopSpec
        self.raises = raises or {}              # exception class -> [(name, lambda c)] postconditions when raised
        self.ghost_init = ghost_init            # lambda ex, st: None   (set up ghost state at entry)
        self.callbacks = callbacks or {}        # local/param name -> callable(ex, st, node, fnval, args) -> V
        self.local_types = local_types or {}
        self.inline = inline
        self.opaque = opaque                    # body not verified (assumed contract) -> listed as assumption
        self.trusted = trusted
        self.note = note
        self.allow_raise = tuple(allow_raise)   # exception classes that may escape (no safety obligation)
        self.pre_assume = list(pre_assume)
        self.type_invariants = type_invariants
        self.fresh_fields = fresh_fields        # heap fields holding content of objects the function allocates (None: from `returns`)
        self.allocates = allocates
        self.merge_before = tuple(merge_before)  # statement source prefixes before which all normally-continuing paths are joined into one state (exact join)
        self.before_call_hooks = before_call_hooks or {}   # callee qualname -> fn(ex, st, node): ghost/cut code run right before the call
        self.stop_before = stop_before          # verify only the PREFIX of the body: execution stops before the first statement whose source starts with this text
        self.track_keys = track_keys            # dict insertion order is tracked (ghost field 'keys') for this function
        self.ghost_hooks = ghost_hooks or {}    # 'after_call:<qualname>' -> fn(ex, st, bound_args, result, old_view)

    @property
    def key(self):
        return (self.file, self.qualname)

    @property
    def name(self):
        import os
        return f'{os.path.basename(self.file)}:{self.qualname}'


class Registry:
    def __init__(self):
        self.contracts = {}       # (file, qualname) -> Contract
        self.classes = {}         # class name -> ClassInfo
        self.externs = {}         # dotted name -> callable(ex, st, node, args, kwargs) -> V
        self.extern_methods = {}  # (type kind/name, method) -> callable(ex, st, node, recv, args, kwargs) -> V
        self.dropped_calls = {'lian.util.util.debug', 'lian.util.util.warn', 'lian.util.util.error', 'builtins.print',
                              'pprint.pprint', 'lian.util.util.log'}
        self.subclasses = {}      # class name -> set of dynamic class names accepted by isinstance
        self.lemmas = []          # [(name, lambda: (hyps, goal))] pure logical lemmas over the contracts
        # trusted specifications of opaque library objects (Opaque(name)): attribute reads/writes, item reads/writes, iteration
        self.opaque_getattr = {}  # (type, attr) -> fn(ex, st, recv) -> V
        self.opaque_setattr = {}  # (type, attr) -> fn(ex, st, recv, value)
        self.opaque_getitem = {}  # type -> fn(ex, st, recv, key) -> V      key: V, or ('slice', lo V|None, hi V|None), or tuple of those
        self.opaque_setitem = {}  # type -> fn(ex, st, recv, key, value)
        self.opaque_iter = {}     # type -> fn(ex, st, recv) -> loops.Iter
        self.opaque_truth = {}    # type -> fn(ex, st, recv) -> z3 Bool
        self.opaque_compare = {}  # type -> fn(ex, st, left, opname, right) -> V   (overloaded comparison operators)
        self.const_values = {}    # source text of a module-level constant (e.g. 'config.X') -> fn(ex, st) -> V, for constants the AST evaluator cannot fold
        self.axioms = []          # extra closed axioms (trusted library facts) added to every VC of this registry

    def add(self, c: Contract):
        assert c.key not in self.contracts, c.key
        self.contracts[c.key] = c
        return c

    def add_class(self, ci: ClassInfo):
        self.classes[ci.name] = ci
        self._recompute_subclasses()
        return ci

    def _recompute_subclasses(self):
        sub = {}
        for c in self.classes.values():
            todo, seen = list(c.bases), set()
            while todo:
                b = todo.pop()
                if b in seen:
                    continue
                seen.add(b)
                sub.setdefault(b, set()).add(c.name)
                if b in self.classes:
                    todo.extend(self.classes[b].bases)
        self.subclasses = sub
        S.SUBCLASSES.clear()
        S.SUBCLASSES.update(sub)

    def extern(self, dotted, trusted_name=None):
        def deco(f):
            f.trusted_name = trusted_name or dotted
            self.externs[dotted] = f
            return f
        return deco

    def extern_method(self, tkey, method, trusted_name=None):
        def deco(f):
            f.trusted_name = trusted_name or f'{tkey}.{method}'
            self.extern_methods[(tkey, method)] = f
            return f
        return deco

    def opaque(self, table, key, trusted_name=None):
        def deco(f):
            f.trusted_name = trusted_name or f'{key}'
            getattr(self, table)[key] = f
            return f
        return deco

    def find_by_dotted(self, dotted):
        """lian.events.event_return.sync_event_return -> contract (file derived from the dotted module)."""
        from . import source
        parts = dotted.split('.')
        for cut in range(len(parts) - 1, 0, -1):
            rp = source.dotted_to_relpath('.'.join(parts[:cut]))
            if rp is not None:
                q = '.'.join(parts[cut:])
                return self.contracts.get((rp, q)), rp, q
        return None, None, None
