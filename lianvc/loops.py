"""Loops: cut by invariants (init / havoc / one symbolic iteration / preserved), Python's break/continue/else rules."""
import ast
import z3

from . import sorts as S
from .engine import V, Outcome, Unsupported, Ctx, NS, HeapView
from .contracts import LoopSpec
from . import builtins_model as bm


class Iter:
    """an iteration space: length n and element i (as a typed value); `seq` when it is a real z3 sequence"""

    def __init__(self, n, elem, seq=None, check_unchanged=None, kind='seq'):
        self.n, self.elem, self.seq, self.check_unchanged, self.kind = n, elem, seq, check_unchanged, kind


def make_iter(ex, node, st):
    desc = ast.unparse(node)[:80]
    if isinstance(node, ast.Call) and isinstance(node.func, ast.Name) and node.func.id not in st.env:
        fname = node.func.id
        if fname == 'enumerate' and len(node.args) in (1, 2):
            inner = make_iter(ex, node.args[0], st)
            start = z3.IntVal(0)
            if len(node.args) == 2:
                sv = ex.ev(node.args[1], st)
                if sv.ty.kind != 'int':
                    raise Unsupported('enumerate start')
                start = S.ival(sv.t)

            def elem(i, st2, inner=inner, start=start):
                v = inner.elem(i, st2)
                return V(S.mk_tup(S.seq_of(S.mk_int(start + i), v.t)), S.Tuple(S.Int, v.ty))
            return Iter(inner.n, elem, inner.seq, inner.check_unchanged, 'enumerate')
        if fname == 'range' and 1 <= len(node.args) <= 2:
            vs = [ex.ev(a, st) for a in node.args]
            if any(v.ty.kind != 'int' for v in vs):
                raise Unsupported('range of non-int')
            lo = z3.IntVal(0) if len(vs) == 1 else S.ival(vs[0].t)
            hi = S.ival(vs[-1].t)
            n = z3.If(hi > lo, hi - lo, z3.IntVal(0))
            return Iter(n, lambda i, st2, lo=lo: V(S.mk_int(lo + i), S.Int), None, None, 'range')
        if fname == 'reversed' and len(node.args) == 1:
            inner = make_iter(ex, node.args[0], st)
            return Iter(inner.n, lambda i, st2, inner=inner: inner.elem(inner.n - 1 - i, st2), None, inner.check_unchanged, 'reversed')
        if fname in ('list', 'tuple') and len(node.args) == 1:
            return make_iter(ex, node.args[0], st)     # iterating a snapshot == iterating the value at loop entry
    if isinstance(node, ast.Call) and isinstance(node.func, ast.Attribute) and node.func.attr in ('items', 'keys', 'values') \
            and not node.args:
        d = ex.ev(node.func.value, st)
        ty = ex.obj_class(d, st, desc)
        if ty.kind == 'dict':
            return dict_iter(ex, d, ty, st, node.func.attr)
    v = ex.ev(node, st)
    return make_iter_value(ex, v, st, desc)


def make_iter_value(ex, v, st, desc):
    ty = ex.obj_class(v, st, desc)
    k = ty.kind
    if k == 'list':
        a = S.addr(v.t)
        seq = st.sel('list', a)

        def unchanged(st2, a=a, seq=seq):
            return st2.sel('list', a) == seq

        def elem(i, st2, seq=seq, et=ty.t):
            t = S.at(seq, i)
            st2.assume(S.has_type(t, et, st2.next_ref))
            st2.note_epoch(seq, t)
            return V(t, et)
        return Iter(z3.Length(seq), elem, seq, unchanged, 'list')
    if k in ('tupleof', 'tuple'):
        seq = S.items(v.t)
        from .engine import _join_types
        et = ty.t if k == 'tupleof' else _join_types(ty.ts)

        def elem(i, st2, seq=seq, et=et):
            t = S.at(seq, i)
            st2.assume(S.has_type(t, et, st2.next_ref))
            return V(t, et)
        return Iter(z3.Length(seq), elem, seq, None, 'tuple')
    if k == 'str':
        # iteration over a str: its characters (one-character strings) by position
        sv = S.sval(v.t)
        return Iter(z3.Length(sv), lambda i, st2, sv=sv: V(S.mk_str(z3.SubString(sv, i, 1)), S.Str), None, None, 'str')
    if k == 'dict':
        return dict_iter(ex, v, ty, st, 'keys')
    if k == 'set':
        return dict_iter(ex, v, S.Dict(ty.k, S.Any), st, 'keys', is_set=True)
    if k in ('val', 'obj'):
        it = ex.reg.classes[ty.cls]
        alias = getattr(it, 'iter_field', None)
        if alias:
            inner = ex.get_attr(V(v.t, ty), alias, st, desc)
            seq, et = bm.seq_of_value(ex, inner, st, desc)

            def elem(i, st2, seq=seq, et=et):
                t = S.at(seq, i)
                st2.assume(S.has_type(t, et, st2.next_ref))
                return V(t, et)
            return Iter(z3.Length(seq), elem, seq, None, 'tuple')
    if k == 'any':
        # a value of unknown static type that the path condition proves to be a list (or a tuple) is iterated as such
        t = v.t
        is_list = z3.And(S.is_ref(t), S.tyof(S.addr(t)) == S.type_id('list'))
        slv = z3.Solver()
        slv.set('timeout', 500)
        slv.add(*[f for f in st.pc if not z3.is_quantifier(f)])
        slv.push()
        slv.add(z3.Not(is_list))
        if slv.check() == z3.unsat:
            return make_iter_value(ex, V(t, S.List(S.Any)), st, desc)
        slv.pop()
        slv.add(z3.Not(S.is_tup(t)))
        if slv.check() == z3.unsat:
            return make_iter_value(ex, V(t, S.TupleOf(S.Any)), st, desc)
    if k == 'opaque' and ty.name in ex.reg.opaque_iter:
        fn = ex.reg.opaque_iter[ty.name]
        ex.used_trusted.add(fn.trusted_name)
        return fn(ex, st, V(v.t, ty))
    if k == 'any' and getattr(ex, 'lenient', False):
        seq = S.fresh('uk_iter', S.SeqP())
        ex.notes.append(f'lenient: iteration over a value of unknown type ({desc}) as an arbitrary sequence')
        return Iter(z3.Length(seq), lambda i, st2, seq=seq: V(S.at(seq, i), S.Any), seq, None, 'tuple')
    raise Unsupported(f'iteration over {ty}: {desc}')


def dict_iter(ex, d, ty, st, what, is_set=False):
    a = S.addr(d.t)
    if ex.track_keys and not is_set:
        seq = st.sel('keys', a)
    else:
        seq = bm.enum_of_dom(ex, d, st)
    dom0 = st.sel('dom', a)
    val0 = st.sel('val', a) if not is_set else None

    def unchanged(st2):
        # size/keys must not change during iteration (values may)
        return st2.sel('dom', a) == dom0

    def elem(i, st2):
        k = S.at(seq, i)
        st2.assume(S.has_type(k, ty.k, st2.next_ref))
        st2.assume(z3.Select(dom0, k))
        if what == 'keys':
            return V(k, ty.k)
        cur = z3.Select(st2.sel('val', a), k)
        st2.assume(S.has_type(cur, ty.v, st2.next_ref))
        if what == 'values':
            return V(cur, ty.v)
        return V(S.mk_tup(S.seq_of(k, cur)), S.Tuple(ty.k, ty.v))
    return Iter(z3.Length(seq), elem, seq, unchanged, 'dict-' + what)


def assigned_in(nodes):
    names = set()
    for n in nodes:
        for x in ast.walk(n):
            if isinstance(x, ast.Name) and isinstance(x.ctx, (ast.Store, ast.Del)):
                names.add(x.id)
    return names


def loop_ctx(ex, st, n_ord, i, it, head_view, head_env):
    d = dict(i=i, n=it.n if it is not None else None, seq=it.seq if it is not None else None, head=head_view,
             hl=NS({k: v.t for k, v in head_env.items()}), it=it)
    return ex.ctx(st, **d)


def discover_modified_fields(ex, body_runner, st):
    """probe pass: run the body once from `st` with VCs discarded, report heap fields whose term changed"""
    saved = (list(ex.vcs), dict(ex.counters), dict(ex.covers), ex.paths, set(ex.used_trusted), set(ex.assumed_contracts),
             set(ex.called_contracts), list(ex.try_stack))
    probe = st.copy()
    before = dict(probe.heap)
    gbefore = dict(probe.ghost)
    changed = set()
    gchanged = set()
    probing = getattr(ex, '_probing', 0)
    ex._probing = probing + 1
    mark = next(S._counter)            # constants named <x>!N with N > mark are created by the probe
    writes = {}                        # field -> list of address terms (None: not a plain chain of stores)
    try:
        outs = body_runner(probe)
        for o in outs:
            for k, v in o.st.heap.items():
                b = before.get(k, ex.init_heap.get(k))
                if b is None or not (v is b or v.eq(b)):
                    changed.add(k)
                    if writes.get(k, []) is not None:
                        addrs = _store_chain(v, b)
                        writes[k] = None if addrs is None else writes.get(k, []) + addrs
            for k, v in o.st.ghost.items():
                if k.startswith('loop') or not isinstance(v, z3.ExprRef):
                    continue
                b = gbefore.get(k)
                if b is None or not (v is b or v.eq(b)):
                    gchanged.add(k)
    finally:
        ex._probing = probing
        ex.vcs, ex.counters, ex.covers, ex.paths = saved[0], saved[1], saved[2], saved[3]
        ex.used_trusted, ex.assumed_contracts, ex.called_contracts, ex.try_stack = saved[4], saved[5], saved[6], saved[7]
    ex._last_ghost_changed = gchanged
    # inferred frame for loops WITHOUT a `modifies` clause: the probe explored every syntactic path of the body; when every write to a field is a plain store at an
    # address term that cannot vary between iterations (no probe-created constant, no read of a heap field the body changes), the loop changes that field at these
    # addresses only (and at objects it allocates)
    bad_arrays = [before.get(k, ex.init_heap.get(k)) for k in changed]
    bad_arrays = [b for b in bad_arrays if b is not None]
    inferred = {}
    for k, addrs in writes.items():
        if addrs is not None and all(_iteration_invariant(a, mark, bad_arrays) for a in addrs):
            uniq = []
            for a in addrs:
                if not any(a.eq(u) for u in uniq):
                    uniq.append(a)
            if len(uniq) <= 6:
                inferred[k] = uniq
    ex._last_inferred_frame = inferred
    return changed


def _store_chain(v, base):
    """address terms of v == Store(...Store(base, a1, _)..., an, _), or None when v is not such a chain over `base`"""
    out = []
    for _ in range(64):
        if base is not None and (v is base or v.eq(base)):
            return out
        if z3.is_app(v) and v.decl().kind() == z3.Z3_OP_STORE:
            out.append(v.arg(1))
            v = v.arg(0)
            continue
        return None
    return None


def _iteration_invariant(a, mark, bad_arrays):
    seen = set()
    stack = [a]
    while stack:
        t = stack.pop()
        if t.get_id() in seen:
            continue
        seen.add(t.get_id())
        if z3.is_quantifier(t) or z3.is_var(t):
            return False
        if any(t.eq(b) for b in bad_arrays):
            return False
        if z3.is_const(t) and t.decl().kind() == z3.Z3_OP_UNINTERPRETED:
            nm = t.decl().name()
            if nm.startswith('pv_'):          # the probe's stand-in for a local the body assigns (created before `mark`)
                return False
            if '!' in nm:
                tail = nm.rsplit('!', 1)[1]
                if not tail.isdigit() or int(tail) > mark:
                    return False
        stack.extend(t.children())
    return True


def havoc_for_loop(ex, st, spec, names, fields, cx_head):
    """returns the havocked state at an arbitrary loop head"""
    h = st.copy()
    nn_holder = [S.fresh('next_ref', z3.IntSort())]
    for nm in sorted(names):
        if nm in st.env:
            ty = st.env[nm].ty
            t = S.fresh('lv_' + nm)
            h.env[nm] = V(t, ty)
            h.assume(S.has_type(t, ty, None))
            from .engine import below
            h.assume(below(t, nn_holder[0]))
        else:
            h.env.pop(nm, None)
    old_next = st.next_ref
    nn = nn_holder[0]
    h.assume(nn >= old_next)
    h.next_ref = nn
    for nm in sorted(names):
        if nm in h.env:
            h.assume(S.has_type(h.env[nm].t, h.env[nm].ty, nn))
    for gname in sorted(getattr(ex, '_last_ghost_changed', ())):
        if gname in st.ghost and isinstance(st.ghost[gname], z3.ExprRef):
            h.ghost[gname] = S.fresh('gh_' + gname, st.ghost[gname].sort())
    modspec = spec.modifies(cx_head) if spec.modifies else None
    for fld in sorted(fields):
        oldt = st.field(fld)
        sp = True if modspec is None else modspec.get(fld, None)
        newt = S.fresh('lh_' + fld, oldt.sort())
        a = z3.Int('fa')
        if sp is True:
            inf = getattr(ex, '_last_inferred_frame', {}).get(fld) if modspec is None else None
            if inf is not None:
                h.assume(z3.ForAll([a], z3.Implies(z3.And(a > 0, a < old_next, *[a != r for r in inf]),
                                                   z3.Select(newt, a) == z3.Select(oldt, a)), patterns=[z3.Select(newt, a)]))
        elif sp is None:
            # body writes it (probe) but the loop frame says untouched for pre-existing objects
            h.assume(z3.ForAll([a], z3.Implies(z3.And(a > 0, a < old_next), z3.Select(newt, a) == z3.Select(oldt, a)),
                               patterns=[z3.Select(newt, a)]))
        elif callable(sp):
            h.assume(z3.ForAll([a], z3.Implies(z3.And(a > 0, a < old_next, z3.Not(sp(a))), z3.Select(newt, a) == z3.Select(oldt, a)),
                               patterns=[z3.Select(newt, a)]))
        else:
            refs = [HeapView._a(r) for r in sp]
            h.assume(z3.ForAll([a], z3.Implies(z3.And(a > 0, a < old_next, *[a != r for r in refs]),
                                               z3.Select(newt, a) == z3.Select(oldt, a)), patterns=[z3.Select(newt, a)]))
        h.set_field(fld, newt)
        for ax in ex.heap_axioms(fld, newt, nn):
            h.assume(ax)
        ex.register_epoch(newt, nn)
    return h, modspec


def check_loop_frame(ex, st_end, st_loop_entry, modspec, fields, tag):
    """with an explicit loop frame: at the back edge, pre-loop objects outside the frame equal their loop-entry content"""
    if modspec is None:
        return
    old_next = st_loop_entry.next_ref
    for fld in sorted(fields):
        sp = modspec.get(fld, None)
        if sp is True:
            continue
        if fld.startswith('attr:') and fld[5:] in getattr(ex, 'unmodelled_attrs', ()):
            continue
        a = z3.Int('lf_a')
        outside = z3.And(a > 0, a < old_next)
        if callable(sp):
            outside = z3.And(outside, z3.Not(sp(a)))
        elif sp is not None:
            outside = z3.And(outside, *[a != HeapView._a(r) for r in sp])
        ex.oblige(st_end, f'{tag}:frame:{fld}', z3.Implies(outside, z3.Select(st_end.field(fld), a) == z3.Select(st_loop_entry.field(fld), a)),
                  kind='frame')


def exec_for(ex, s, st):
    n_ord = ex.loop_ordinals[id(s)]
    spec = ex.c.loops.get(n_ord) or LoopSpec()
    tag = f'loop#{n_ord}'
    it = make_iter(ex, s.iter, st)
    head_view = st.view()
    head_env = dict(st.env)
    names = assigned_in([s.target] + s.body)
    # ---- probe pass for the heap fields the body may write ---------------------------------------------------
    def run_body(p):
        p.assume(z3.BoolVal(True))
        i0 = S.fresh('pi', z3.IntSort())
        p.assume(z3.And(i0 >= 0, i0 < it.n))
        p.ghost[f'loop{n_ord}_i'] = i0
        p.ghost[f'loop{n_ord}_in'] = True
        ex.assign(s.target, it.elem(i0, p), p)
        return ex.block(s.body, p)
    all_fields_state = st.copy()
    fields = discover_modified_fields(ex, run_body, havoc_all(ex, all_fields_state, names))
    # ---- init -------------------------------------------------------------------------------------------------
    cx0 = loop_ctx(ex, st, n_ord, z3.IntVal(0), it, head_view, head_env)
    for nm, f in spec.invariants:
        ex.oblige(st, f'{tag}:inv:{nm}:init', f(cx0), kind='inv-init')
    # ---- arbitrary iteration -----------------------------------------------------------------------------------
    h, modspec = havoc_for_loop(ex, st, spec, names, fields, cx0)
    i = S.fresh(f'i{n_ord}', z3.IntSort())
    h.assume(z3.And(i >= 0, i <= it.n))
    cxh = loop_ctx(ex, h, n_ord, i, it, head_view, head_env)
    for nm, f in spec.invariants:
        h.assume(f(cxh))
    if it.check_unchanged is not None and ('list' in fields or 'dom' in fields):
        h.assume(it.check_unchanged(h))
    outs = []
    b = h.copy()
    b.assume(i < it.n)
    if ex.feasible(b):
        b.ghost[f'loop{n_ord}_i'] = i
        b.ghost[f'loop{n_ord}_in'] = True
        ex.assign(s.target, it.elem(i, b), b)
        for o in ex.block(s.body, b):
            if o.kind in ('normal', 'continue'):
                s1 = o.st
                cx1 = loop_ctx(ex, s1, n_ord, i + 1, it, head_view, head_env)
                for nm, f in spec.invariants:
                    ex.oblige(s1, f'{tag}:inv:{nm}:preserved', f(cx1), kind='inv-preserved')
                for nm in sorted(names):
                    if nm in head_env and nm in s1.env and repr(s1.env[nm].ty) != repr(head_env[nm].ty):
                        ex.oblige(s1, f'{tag}:type:local:{nm}', S.has_type(s1.env[nm].t, head_env[nm].ty, s1.next_ref), kind='type')
                if it.check_unchanged is not None and ('list' in fields or 'dom' in fields):
                    ex.oblige(s1, f'{tag}:iterated-collection-unchanged', it.check_unchanged(s1), kind='safety')
                check_loop_frame(ex, s1, st, modspec, fields, tag)
            elif o.kind == 'break':
                o.st.ghost[f'loop{n_ord}_broke'] = z3.BoolVal(True)
                o.st.ghost[f'loop{n_ord}_i'] = i
                o.st.ghost[f'loop{n_ord}_in'] = False
                outs.append(Outcome('normal', o.st))
            else:
                outs.append(o)
    e = h
    e.assume(i == it.n)
    e.ghost[f'loop{n_ord}_broke'] = z3.BoolVal(False)
    e.ghost[f'loop{n_ord}_i'] = i
    e.ghost[f'loop{n_ord}_in'] = False
    # loop targets are bound after the loop only if they were bound before (conservative)
    if ex.feasible(e):
        outs += ex.block(s.orelse, e)
    return outs


def havoc_all(ex, st, names):
    """state for the probe pass: every known heap field and every assigned local is arbitrary"""
    h = st.copy()
    for nm in names:
        if nm in st.env:
            h.env[nm] = V(S.fresh('pv_' + nm), st.env[nm].ty)
    return h


def exec_while(ex, s, st):
    n_ord = ex.loop_ordinals[id(s)]
    spec = ex.c.loops.get(n_ord) or LoopSpec()
    tag = f'loop#{n_ord}'
    head_view = st.view()
    head_env = dict(st.env)
    names = assigned_in(s.body)

    def run_body(p):
        c = ex.truth(ex.ev(s.test, p), p)
        p.assume(c)
        return ex.block(s.body, p)
    fields = discover_modified_fields(ex, run_body, havoc_all(ex, st.copy(), names))
    cx0 = loop_ctx(ex, st, n_ord, z3.IntVal(0), None, head_view, head_env)
    for nm, f in spec.invariants:
        ex.oblige(st, f'{tag}:inv:{nm}:init', f(cx0), kind='inv-init')
    h, modspec = havoc_for_loop(ex, st, spec, names, fields, cx0)
    i = S.fresh(f'w{n_ord}', z3.IntSort())
    h.assume(i >= 0)
    cxh = loop_ctx(ex, h, n_ord, i, None, head_view, head_env)
    for nm, f in spec.invariants:
        h.assume(f(cxh))
    outs = []
    b = h.copy()
    e = h
    # the guard is evaluated in both copies (it may emit safety obligations; they are the same in both)
    cb = ex.truth(ex.ev(s.test, b), b)
    mark = len(ex.vcs)
    ce = ex.truth(ex.ev(s.test, e), e)
    del ex.vcs[mark:]
    b.assume(cb)
    e.assume(z3.Not(ce))
    if ex.feasible(b):
        dec0 = spec.decreases(loop_ctx(ex, b, n_ord, i, None, head_view, head_env)) if spec.decreases else None
        for o in ex.block(s.body, b):
            if o.kind in ('normal', 'continue'):
                s1 = o.st
                cx1 = loop_ctx(ex, s1, n_ord, i + 1, None, head_view, head_env)
                for nm, f in spec.invariants:
                    ex.oblige(s1, f'{tag}:inv:{nm}:preserved', f(cx1), kind='inv-preserved')
                if dec0 is not None:
                    d1 = spec.decreases(cx1)
                    ex.oblige(s1, f'{tag}:var:decreases', z3.And(d1 < dec0, dec0 >= 0) if not isinstance(dec0, tuple) else lex_lt(d1, dec0), kind='variant')
                for nm in sorted(names):
                    if nm in head_env and nm in s1.env and repr(s1.env[nm].ty) != repr(head_env[nm].ty):
                        ex.oblige(s1, f'{tag}:type:local:{nm}', S.has_type(s1.env[nm].t, head_env[nm].ty, s1.next_ref), kind='type')
                check_loop_frame(ex, s1, st, modspec, fields, tag)
            elif o.kind == 'break':
                outs.append(Outcome('normal', o.st))
            else:
                outs.append(o)
    if ex.feasible(e):
        outs += ex.block(s.orelse, e)
    return outs


def lex_lt(new, old):
    """lexicographic decrease of tuples of z3 ints, every component bounded below by 0"""
    assert len(new) == len(old)
    cases = []
    for k in range(len(old)):
        eqs = [new[j] == old[j] for j in range(k)]
        cases.append(z3.And(*eqs, new[k] < old[k], old[k] >= 0))
    return z3.Or(*cases)
