"""Reading the real source: module ASTs, function lookup, import tables, module-level constants.

Nothing is cached between runs; every check re-reads /repo's working tree.
"""
import ast
import hashlib
import os

REPO = os.environ.get('LIANVC_REPO', '/repo')
SRC_ROOT = os.path.join(REPO, 'src')


class SourceError(Exception):
    """contract out of date / function missing / unsupported module shape -> exit 2"""


class Module:
    def __init__(self, relpath):
        self.relpath = relpath                      # e.g. src/lian/common_structs.py
        self.path = os.path.join(REPO, relpath)
        try:
            with open(self.path, 'rb') as f:
                data = f.read()
        except OSError as e:
            raise SourceError(f'cannot read {self.path}: {e}')
        self.sha256 = hashlib.sha256(data).hexdigest()
        self.text = data.decode('utf-8')
        if os.environ.get('LIANVC_DEV_PATCH'):
            old, new = os.environ['LIANVC_DEV_PATCH'].split('=>')
            assert old in self.text or True
            self.text = self.text.replace(old, new)
        try:
            self.tree = ast.parse(self.text)
        except SyntaxError as e:
            raise SourceError(f'cannot parse {self.path}: {e}')
        self.data_sha = _data_sha(self.tree)
        self.imports = {}        # local name -> ('module', dotted) | ('name', dotted_module, attr)
        self.assigns = {}        # module-level simple assignments name -> ast expr (last one wins)
        self.functions = {}      # qualname -> FunctionDef
        self.classes = {}        # name -> ClassDef
        self._scan()

    def _scan(self):
        for n in self.tree.body:
            self._scan_stmt(n)

    def _scan_stmt(self, n):
        if isinstance(n, ast.Import):
            for a in n.names:
                if a.asname:
                    self.imports[a.asname] = ('module', a.name)
                else:
                    self.imports[a.name.split('.')[0]] = ('module', a.name.split('.')[0])
        elif isinstance(n, ast.ImportFrom):
            for a in n.names:
                self.imports[a.asname or a.name] = ('name', n.module, a.name)
        elif isinstance(n, ast.Assign) and len(n.targets) == 1 and isinstance(n.targets[0], ast.Name):
            self.assigns[n.targets[0].id] = n.value
        elif isinstance(n, ast.AnnAssign) and isinstance(n.target, ast.Name) and n.value is not None:
            self.assigns[n.target.id] = n.value
        elif isinstance(n, (ast.FunctionDef, ast.AsyncFunctionDef)):
            self.functions[n.name] = n
        elif isinstance(n, ast.ClassDef):
            self.classes[n.name] = n
            for m in n.body:
                if isinstance(m, (ast.FunctionDef, ast.AsyncFunctionDef)):
                    self.functions[f'{n.name}.{m.name}'] = m
        elif isinstance(n, (ast.If, ast.Try)):
            for b in getattr(n, 'body', []):
                self._scan_stmt(b)

    def function(self, qualname):
        if qualname not in self.functions:
            raise SourceError(f'{self.relpath}: function {qualname} not found (contract out of date)')
        return self.functions[qualname]

    def class_bases(self, cls):
        c = self.classes.get(cls)
        if c is None:
            return []
        out = []
        for b in c.bases:
            if isinstance(b, ast.Name):
                out.append(b.id)
            elif isinstance(b, ast.Attribute):
                out.append(ast.unparse(b))
        return out

    def class_decorators(self, cls):
        c = self.classes.get(cls)
        return [ast.unparse(d) for d in c.decorator_list] if c else []


_MODULES = {}


def load(relpath):
    if relpath not in _MODULES:
        _MODULES[relpath] = Module(relpath)
    return _MODULES[relpath]


def reset_cache():
    _MODULES.clear()


def dotted_to_relpath(dotted):
    """lian.events.event_return -> src/lian/events/event_return.py (or package __init__)"""
    p = os.path.join('src', *dotted.split('.'))
    if os.path.isfile(os.path.join(REPO, p + '.py')):
        return p + '.py'
    if os.path.isfile(os.path.join(REPO, p, '__init__.py')):
        return os.path.join(p, '__init__.py')
    return None


def _data_sha(tree):
    """hash of the parts of a module that are not function bodies: module-level statements, class headers and class-level statements"""
    parts = []
    for n in tree.body:
        if isinstance(n, (ast.FunctionDef, ast.AsyncFunctionDef)):
            continue          # functions are tracked by their own AST hash when they are under contract; adding or editing another function is not a data change
        elif isinstance(n, ast.ClassDef):
            parts.append('class ' + n.name + ''.join(ast.dump(b) for b in n.bases) + ''.join(ast.dump(d) for d in n.decorator_list))
            for m in n.body:
                if isinstance(m, (ast.FunctionDef, ast.AsyncFunctionDef)):
                    continue
                else:
                    parts.append('  ' + ast.dump(m))
        else:
            parts.append(ast.dump(n))
    return hashlib.sha256('\n'.join(parts).encode()).hexdigest()[:16]


def func_hash(fn):
    return hashlib.sha256(ast.dump(fn, include_attributes=False).encode()).hexdigest()[:16]


class ConstError(Exception):
    pass


class EnumNS:
    """model of util.SimpleEnum built from a literal list/dict (names -> values)"""
    def __init__(self, members):
        self.members = members

    def __repr__(self):
        return f'EnumNS({self.members})'


class ModuleNS:
    def __init__(self, dotted):
        self.dotted = dotted

    def __repr__(self):
        return f'ModuleNS({self.dotted})'


def const_eval(mod: Module, node, depth=0):
    """Evaluate a module-level constant expression from the real AST.

    Supports literals, tuples/lists/dicts/sets of constants, names of other module-level constants (also through
    imports), attribute access on modules and SimpleEnum objects, `util.SimpleEnum(<literal>)`, and `a + b`, `-a`
    on ints/strings.  Anything else raises ConstError (callers turn that into 'outside the subset').
    """
    if depth > 20:
        raise ConstError('constant evaluation too deep')
    if isinstance(node, ast.Constant):
        return node.value
    if isinstance(node, (ast.Tuple, ast.List)):
        vals = [const_eval(mod, e, depth + 1) for e in node.elts]
        return tuple(vals) if isinstance(node, ast.Tuple) else vals
    if isinstance(node, ast.Set):
        return set(const_eval(mod, e, depth + 1) for e in node.elts)
    if isinstance(node, ast.Dict):
        return {const_eval(mod, k, depth + 1): const_eval(mod, v, depth + 1) for k, v in zip(node.keys, node.values)}
    if isinstance(node, ast.UnaryOp) and isinstance(node.op, ast.USub):
        return -const_eval(mod, node.operand, depth + 1)
    if isinstance(node, ast.BinOp) and isinstance(node.op, (ast.Add, ast.Mult, ast.Sub, ast.BitOr, ast.LShift)):
        a, b = const_eval(mod, node.left, depth + 1), const_eval(mod, node.right, depth + 1)
        if isinstance(node.op, ast.Add): return a + b
        if isinstance(node.op, ast.Mult): return a * b
        if isinstance(node.op, ast.Sub): return a - b
        if isinstance(node.op, ast.BitOr): return a | b
        return a << b
    if isinstance(node, ast.Name):
        return resolve_name(mod, node.id, depth + 1)
    if isinstance(node, ast.Attribute):
        base = const_eval(mod, node.value, depth + 1)
        return ns_getattr(base, node.attr, depth + 1)
    if isinstance(node, ast.Call):
        f = ast.unparse(node.func)
        if f.endswith('SimpleEnum') and len(node.args) == 1:
            a = const_eval(mod, node.args[0], depth + 1)
            if isinstance(a, list):
                return EnumNS({name: i for i, name in enumerate(a)})
            if isinstance(a, dict):
                return EnumNS(dict(a))
        raise ConstError(f'call {f} is not a constant')
    raise ConstError(f'not a constant: {ast.unparse(node)}')


def resolve_name(mod: Module, name, depth=0):
    if name in mod.assigns:
        return const_eval(mod, mod.assigns[name], depth + 1)
    if name in mod.imports:
        imp = mod.imports[name]
        if imp[0] == 'module':
            return ModuleNS(imp[1])
        _, dotted, attr = imp
        sub = dotted_to_relpath(dotted + '.' + attr)
        if sub is not None:
            return ModuleNS(dotted + '.' + attr)
        return ns_getattr(ModuleNS(dotted), attr, depth + 1)
    if name in mod.functions or name in mod.classes:
        raise ConstError(f'{name} is a function/class, not a constant')
    raise ConstError(f'unknown module-level name {name} in {mod.relpath}')


def ns_getattr(base, attr, depth=0):
    if isinstance(base, EnumNS):
        if attr not in base.members:
            raise ConstError(f'enum has no member {attr}')
        return base.members[attr]
    if isinstance(base, ModuleNS):
        sub = dotted_to_relpath(base.dotted + '.' + attr)
        rp = dotted_to_relpath(base.dotted)
        if rp is not None:
            m = load(rp)
            if attr in m.assigns or attr in m.imports:
                return resolve_name(m, attr, depth + 1)
            if attr in m.functions or attr in m.classes:
                raise ConstError(f'{base.dotted}.{attr} is a function/class')
        if sub is not None:
            return ModuleNS(base.dotted + '.' + attr)
        raise ConstError(f'cannot resolve {base.dotted}.{attr}')
    raise ConstError(f'attribute {attr} of non-namespace constant')


def resolve_callee(mod: Module, func_node, cls=None):
    """Resolve the static target of a call expression to a dotted name.

    Returns e.g. 'lian.events.event_return.sync_event_return', 'os.path.join', 'builtins.len',
    'self.notify' (method on self; caller maps through the class), or None when not statically resolvable.
    """
    if isinstance(func_node, ast.Name):
        n = func_node.id
        if n in mod.functions and '.' not in n:
            return module_dotted(mod) + '.' + n
        if n in mod.classes:
            return module_dotted(mod) + '.' + n
        if n in mod.imports:
            imp = mod.imports[n]
            if imp[0] == 'module':
                return imp[1]
            return imp[1] + '.' + imp[2]
        return 'builtins.' + n
    if isinstance(func_node, ast.Attribute):
        base = func_node.value
        if isinstance(base, ast.Name) and base.id == 'self':
            return 'self.' + func_node.attr
        chain = []
        cur = func_node
        while isinstance(cur, ast.Attribute):
            chain.append(cur.attr)
            cur = cur.value
        if isinstance(cur, ast.Name) and cur.id in mod.imports:
            imp = mod.imports[cur.id]
            root = imp[1] if imp[0] == 'module' else imp[1] + '.' + imp[2]
            return root + '.' + '.'.join(reversed(chain))
        if isinstance(cur, ast.Name) and cur.id in mod.classes:
            return module_dotted(mod) + '.' + cur.id + '.' + '.'.join(reversed(chain))
        return None
    return None


def module_dotted(mod: Module):
    p = mod.relpath
    assert p.startswith('src/') and p.endswith('.py')
    d = p[4:-3].replace('/', '.')
    if d.endswith('.__init__'):
        d = d[:-9]
    return d
