"""Call dispatch: builtins, container/str methods, constructors, contracts, trusted externs, callbacks."""
import ast
import os
import z3

from . import sorts as S
from . import source
from .engine import V, Outcome, Unsupported, const_to_term, Ctx, NS


Int_ = S.Int


def val(st, v):
    return [Outcome('value', st, v)]


def none_v():
    return V(S.NONE(), S.NoneT)


def eval_args(ex, e, st):
    args = []
    for a in e.args:
        if isinstance(a, ast.Starred):
            raise Unsupported('*args at call site: ' + ast.unparse(e)[:60])
        args.append(ex.ev(a, st))
    kwargs = {}
    for k in e.keywords:
        if k.arg is None:
            raise Unsupported('**kwargs at call site')
        kwargs[k.arg] = ex.ev(k.value, st)
    return args, kwargs


def root_name(node):
    cur = node
    while isinstance(cur, ast.Attribute):
        cur = cur.value
    return cur.id if isinstance(cur, ast.Name) else None


def havoc_unknown_call(ex, e, st, why):
    """lenient mode (only used on code that differs from the recorded baseline): a call without contract is given the weakest
    contract — it may change every heap field anywhere, allocate, and return anything"""
    args, kwargs = [], {}
    try:
        args, kwargs = eval_args(ex, e, st)
    except Unsupported:
        pass
    ex.notes.append(f'lenient: {why}')
    nn = S.fresh('next_ref', z3.IntSort())
    st.assume(nn >= st.next_ref)
    st.next_ref = nn
    for f in list(set(st.heap) | set(ex.init_heap)):
        if f.startswith('ghost:'):
            continue
        newt = S.fresh('uk_' + f, st.field(f).sort())
        st.set_field(f, newt)
        for ax in ex.heap_axioms(f, newt, nn):
            st.assume(ax)
        ex.register_epoch(newt, nn)
    r = S.fresh('uk_ret')
    from .engine import below
    st.assume(below(r, nn))
    return val(st, V(r, S.Any))


def dispatch_call(ex, e, st):
    try:
        return _dispatch_call(ex, e, st)
    except Unsupported as u:
        if 'has no contract' in str(u) or 'neither contract' in str(u):
            # a helper of the repository without a contract (typically freshly extracted from a function under contract): execute its real body in place
            r = inline_call(ex, e, st)
            if r is not None:
                return r
        if getattr(ex, 'lenient', False) and ('no contract' in str(u) or 'neither contract' in str(u) or 'has no trusted' in str(u)):
            return havoc_unknown_call(ex, e, st, str(u))
        raise


INLINE_DEPTH = 2


def _inline_target(ex, e, st):
    """(function AST, module, class name or None, receiver V or None) of a call whose callee is a plain function / method defined in the repository source"""
    f = e.func
    if isinstance(f, ast.Attribute):
        rn = root_name(f)
        if rn is not None and rn != 'self' and rn not in st.env and rn not in ex.assigned_names() and (rn in ex.mod.imports or rn in ex.mod.classes):
            dotted = source.resolve_callee(ex.mod, f)
        else:
            recv = ex.ev(f.value, st)
            if recv.ty.kind != 'obj':
                return None
            ci = ex.reg.classes.get(recv.ty.cls)
            if ci is None or ci.kind == 'opaque':
                return None
            try:
                m = source.load(ci.file)
                return m.function(f'{ci.name}.{f.attr}'), m, ci.name, recv
            except source.SourceError:
                return None
    elif isinstance(f, ast.Name):
        dotted = source.resolve_callee(ex.mod, f)
    else:
        return None
    if not dotted or not dotted.startswith('lian.'):
        return None
    parts = dotted.split('.')
    for k in range(len(parts) - 1, 0, -1):
        rel = 'src/' + '/'.join(parts[:k]) + '.py'
        if os.path.isfile(os.path.join(source.REPO, rel)):
            try:
                m = source.load(rel)
                return m.function('.'.join(parts[k:])), m, None, None
            except source.SourceError:
                return None
    return None


def inline_call(ex, e, st):
    """execute the real body of an uncontracted repository function in place (call-by-value binding of the evaluated arguments, callee locals in a fresh
    environment, module context switched for name resolution). Not for recursive / decorated / generator / variadic callees, nesting <= INLINE_DEPTH."""
    stack = getattr(ex, '_inline_stack', [])
    if len(stack) >= INLINE_DEPTH:
        return None
    try:
        tgt = _inline_target(ex, e, st)
    except Unsupported:
        return None
    if tgt is None:
        return None
    fn, mod, cls, recv = tgt
    key = (mod.relpath if hasattr(mod, 'relpath') else id(mod), fn.name, cls)
    if key in stack or fn is ex.fn or fn.name == ex.fn.name and cls == ex.cls:
        return None
    a = fn.args
    if a.vararg or a.kwarg or any(isinstance(n, (ast.Yield, ast.YieldFrom, ast.FunctionDef, ast.AsyncFunctionDef, ast.Lambda, ast.Global, ast.Nonlocal, ast.Await))
                                  for b in fn.body for n in ast.walk(b)):
        return None
    for d in fn.decorator_list:
        if ast.unparse(d) not in ('profile', 'staticmethod'):
            return None
    is_static = any(ast.unparse(d) == 'staticmethod' for d in fn.decorator_list)
    args, kwargs = eval_args(ex, e, st)
    if recv is not None and not is_static:
        args = [recv] + args
    names = [x.arg for x in a.posonlyargs + a.args]
    if len(args) > len(names):
        return None
    bound = dict(zip(names, args))
    for k, v in kwargs.items():
        if k in bound or (k not in names and k not in [x.arg for x in a.kwonlyargs]):
            return None
        bound[k] = v
    defaults = dict(zip(names[len(names) - len(a.defaults):], a.defaults))
    for x, d in zip(a.kwonlyargs, a.kw_defaults):
        if d is not None:
            defaults[x.arg] = d
    for n in names + [x.arg for x in a.kwonlyargs]:
        if n not in bound:
            if n not in defaults:
                return None
            try:
                t, ty = const_to_term(source.const_eval(mod, defaults[n]))
            except (source.ConstError, Unsupported):
                return None
            bound[n] = V(t, ty)
    ex.notes.append(f'inlined the body of {(cls + ".") if cls else ""}{fn.name} (no contract) at {ast.unparse(e)[:60]}')
    saved = (ex.mod, ex.cls, ex.fn, getattr(ex, '_assigned', None), st.env)
    ex._inline_stack = stack + [key]
    caller_env = st.env
    # callee environment: its parameters; caller locals whose names do not occur anywhere in the callee stay visible (the callee's code cannot read them; loop
    # specifications written for the caller can)
    callee_names = {n.id for n in ast.walk(fn) if isinstance(n, ast.Name)} | {x.arg for x in ast.walk(fn) if isinstance(x, ast.arg)}
    st.env = {k: v for k, v in caller_env.items() if k not in callee_names}
    st.env.update(bound)
    ex.mod, ex.cls, ex.fn = mod, (cls or None), fn
    if hasattr(ex, '_assigned'):
        del ex._assigned
    # loops of the inlined body: numbered after the caller's (aligned with a recorded header of the caller's contract when it is missing there)
    base = []
    try:
        from .engine import _recorded_loop_headers, loop_header
        base = list(_recorded_loop_headers().get(ex.c.name) or [])
    except Exception:      # noqa
        pass
    used = set(ex.loop_ordinals.values())
    for n in ast.walk(fn):
        if isinstance(n, (ast.For, ast.While)) and id(n) not in ex.loop_ordinals:
            h = loop_header(n)
            cand = [i + 1 for i, bh in enumerate(base) if bh == h and (i + 1) not in used]
            o = cand[0] if cand else max(list(used) + [len(base), ex.n_loops]) + 1
            ex.loop_ordinals[id(n)] = o
            used.add(o)
    try:
        outs = ex.block(fn.body, st)
    finally:
        ex.mod, ex.cls, ex.fn = saved[0], saved[1], saved[2]
        if saved[3] is not None:
            ex._assigned = saved[3]
        elif hasattr(ex, '_assigned'):
            del ex._assigned
        ex._inline_stack = stack
    res = []
    for o in outs:
        o.st.env = dict(caller_env)
        if o.kind == 'return':
            res.append(Outcome('value', o.st, o.val))
        elif o.kind == 'normal':
            res.append(Outcome('value', o.st, none_v()))
        elif o.kind in ('break', 'continue'):
            raise Unsupported('break/continue escaping an inlined body')
        else:
            res.append(o)
    if res and all(o.kind == 'value' for o in res):
        # all paths of the body return normally: join them exactly into the caller's state object (so that the call can stand in expression position)
        if len(res) == 1:
            m, rv = res[0].st, res[0].val
        else:
            from .engine import merge_states
            for o in res:
                o.st.env['$inline_ret'] = o.val
            m = merge_states(ex, [o.st for o in res])
            rv = m.env.pop('$inline_ret')
        if m is not st:
            st.pc, st.env, st.heap, st.next_ref, st.ghost, st.depth = m.pc, m.env, m.heap, m.next_ref, m.ghost, m.depth
        return [Outcome('value', st, rv)]
    return res


def _dispatch_call(ex, e, st):
    f = e.func
    desc = ast.unparse(e)[:100]
    # ---- call of a local value --------------------------------------------------------------------------------
    if isinstance(f, ast.Name) and f.id in st.env:
        fv = st.env[f.id]
        return call_value(ex, e, st, f.id, fv, desc)
    static = None
    if isinstance(f, ast.Name):
        static = source.resolve_callee(ex.mod, f)
    elif isinstance(f, ast.Attribute):
        rn = root_name(f)
        if rn is not None and rn != 'self' and rn not in st.env and rn not in ex.assigned_names() and (
                rn in ex.mod.imports or rn in ex.mod.classes):
            static = source.resolve_callee(ex.mod, f)
    if static is not None:
        return call_static(ex, e, st, static, desc)
    if isinstance(f, ast.Attribute):
        recv = ex.ev(f.value, st)
        return call_method(ex, e, st, recv, f.attr, desc)
    raise Unsupported('call form: ' + desc)


def call_value(ex, e, st, name, fv, desc):
    cb = ex.c.callbacks.get(name)
    if cb is None:
        raise Unsupported(f'call of local value {name} without a callback specification: {desc}')
    args, kwargs = eval_args(ex, e, st)
    r = cb(ex, st, e, fv, args, kwargs)
    return r if isinstance(r, list) else val(st, r)


def call_static(ex, e, st, dotted, desc):
    reg = ex.reg
    if dotted in reg.dropped_calls:
        return val(st, none_v())
    if dotted in reg.externs:
        args, kwargs = eval_args(ex, e, st)
        fn = reg.externs[dotted]
        ex.used_trusted.add(fn.trusted_name)
        r = fn(ex, st, e, args, kwargs)
        return r if isinstance(r, list) else val(st, r)
    if dotted.startswith('builtins.'):
        return call_builtin(ex, e, st, dotted[9:], desc)
    contract, rp, q = reg.find_by_dotted(dotted)
    if contract is not None:
        args, kwargs = eval_args(ex, e, st)
        return ex.call_contract_multi(contract, args, kwargs, st, desc)
    # class constructor?
    cname = dotted.split('.')[-1]
    if cname in reg.classes:
        args, kwargs = eval_args(ex, e, st)
        return construct(ex, e, st, reg.classes[cname], args, kwargs, desc)
    # Class.method(obj, ...) static form
    parts = dotted.split('.')
    if len(parts) >= 2 and parts[-2] in reg.classes:
        mc = ex.find_method_contract(parts[-2], parts[-1])
        if mc is not None:
            args, kwargs = eval_args(ex, e, st)
            return ex.call_contract_multi(mc, args, kwargs, st, desc)
    raise Unsupported(f'call of {dotted} has neither contract nor trusted specification: {desc}')


def construct(ex, e, st, ci, args, kwargs, desc):
    if ci.kind == 'value':
        params = ci.ctor_params if ci.ctor_params is not None else list(ci.fields)
        bound = {}
        if len(args) > len(params):
            raise Unsupported('too many constructor args: ' + desc)
        for n, v in zip(params, args):
            bound[n] = v
        for k, v in kwargs.items():
            if k in bound or k not in params:
                raise Unsupported('bad constructor keyword: ' + desc)
            bound[k] = v
        fields = []
        for fn_ in ci.fields:
            if fn_ not in bound:
                if fn_ in ci.ctor_defaults:
                    t, ty = const_to_term(ci.ctor_defaults[fn_])
                    bound[fn_] = V(t, ty)
                else:
                    raise Unsupported(f'missing constructor arg {fn_}: {desc}')
            v = bound[fn_]
            ex.check_elem_type(st, v, ci.fields[fn_], f'type:ctor:{ci.name}.{fn_}@{desc}')
            fields.append(v.t)
        return val(st, V(S.mk_val(ci.name, *fields), S.Val(ci.name)))
    # heap class
    r = ex.alloc(st, ci.name)
    obj = V(r, S.Obj(ci.name))
    mc = ex.find_method_contract(ci.name, '__init__')
    if mc is None:
        raise Unsupported(f'constructor of {ci.name}: no __init__ contract ({desc})')
    outs = ex.call_contract_multi(mc, [obj] + args, kwargs, st, desc)
    res = []
    for o in outs:
        if o.kind == 'value':
            res.append(Outcome('value', o.st, obj))
        else:
            res.append(o)
    return res


def seq_of_value(ex, v, st, desc):
    """(Seq term, element type) of a list/tuple/str-free iterable value; sets/dicts are not sequences"""
    k = v.ty.kind
    if k == 'list':
        return st.sel('list', S.addr(v.t)), v.ty.t
    if k == 'tupleof':
        return S.items(v.t), v.ty.t
    if k == 'tuple':
        from .engine import _join_types
        return S.items(v.t), _join_types(v.ty.ts)
    raise Unsupported(f'sequence view of {v.ty}: {desc}')


def quantified_genexpr(ex, e, st, name, desc):
    """all(<elt> for x in <seq>) / any(...): a quantified formula over the index; <elt> must be effect-free"""
    g = e.args[0]
    if len(g.generators) != 1 or g.generators[0].ifs or g.generators[0].is_async:
        raise Unsupported('generator shape: ' + desc)
    gen = g.generators[0]
    from . import loops
    it = loops.make_iter(ex, gen.iter, st)
    j = S.fresh('gj', z3.IntSort())
    sub = st.copy()
    base = len(sub.pc)
    snap = ex._heap_snapshot(sub)
    if it.seq is not None and it.kind in ('list', 'tuple'):
        ety = it.elem(j, sub).ty
        elemv = V(S.at(it.seq, j), ety)
        sub.assume(S.has_type(elemv.t, ety, sub.next_ref))
    else:
        elemv = it.elem(j, sub)
    ex.assign(gen.target, elemv, sub)
    nvc = len(ex.vcs)
    v = ex.ev(g.elt, sub)
    t = ex.truth(v, sub)
    if ex._heap_changed(sub, snap):
        raise Unsupported('heap effect inside a generator expression: ' + desc)
    # safety obligations raised inside the element expression hold for an arbitrary in-range index
    for vc in ex.vcs[nvc:]:
        vc.hyps = vc.hyps + [z3.And(j >= 0, j < it.n)]
    extra = sub.pc[base:]
    rng = z3.And(j >= 0, j < it.n)
    pats = [S.at(it.seq, j)] if it.seq is not None and it.kind in ('list', 'tuple') else None
    Q = z3.ForAll if name == 'all' else z3.Exists
    body = z3.Implies(rng, t) if name == 'all' else z3.And(rng, t)

    def mkq(quant, b):
        if pats:
            try:
                return quant([j], b, patterns=pats)
            except z3.Z3Exception:
                pass
        return quant([j], b)
    q = mkq(Q, body)
    if extra:
        # facts the engine assumes while reading the element (typed-heap assumptions) hold for every in-range index
        st.assume(mkq(z3.ForAll, z3.Implies(rng, z3.And(*extra))))
    return V(S.mk_bool(q), S.Bool)


def call_builtin(ex, e, st, name, desc):
    if name in ('print',):
        return val(st, none_v())
    if name in ('all', 'any') and len(e.args) == 1 and isinstance(e.args[0], ast.GeneratorExp):
        return val(st, quantified_genexpr(ex, e, st, name, desc))
    if name == 'isinstance' and len(e.args) == 2:
        a0 = ex.ev(e.args[0], st)
        return val(st, V(S.mk_bool(isinstance_formula(ex, a0, e.args[1], st)), S.Bool))
    if name == 'getattr' and len(e.args) in (2, 3) and isinstance(e.args[1], ast.Constant) and isinstance(e.args[1].value, str):
        # getattr(obj, '<declared field>'[, default]): the attribute read; a field declared in the ClassInfo is taken to be always present (the default is never used)
        o = ex.ev(e.args[0], st)
        ty = ex.obj_class(o, st, desc) if S.strip_opt(o.ty).kind in ('obj', 'any') else o.ty
        if ty.kind == 'obj' and e.args[1].value in (ex.class_info(ty.cls).fields if ex.class_info(ty.cls) else {}):
            ex.notes.append(f'getattr(_, {e.args[1].value!r}, default): declared field, read as an attribute (its presence is assumed)')
            return val(st, ex.ev(ast.Attribute(value=e.args[0], attr=e.args[1].value, ctx=ast.Load()), st))
        raise Unsupported(f'getattr of an undeclared attribute: {desc}')
    if name == 'hasattr' and len(e.args) == 2 and isinstance(e.args[1], ast.Constant) and e.args[1].value == '__iter__':
        # str, tuple, list, dict, set have __iter__; int, bool, None, float do not; other classes: an uninterpreted predicate of the dynamic class
        a0 = ex.ev(e.args[0], st)
        x = a0.t
        cont = z3.Or(*[S.tyof(S.addr(x)) == S.type_id(n) for n in ('list', 'dict', 'set')])
        hi = z3.Function('class_has_iter', z3.IntSort(), z3.BoolSort())
        f = z3.If(z3.Or(S.is_str(x), S.is_tup(x)), z3.BoolVal(True), z3.If(S.is_ref(x), z3.Or(cont, hi(S.tyof(S.addr(x)))),
                                                                            z3.If(z3.Or(S.is_int(x), S.is_bool(x), S.is_none(x), S.is_flt(x)), z3.BoolVal(False),
                                                                                  z3.Function('value_has_iter', S.PyObj(), z3.BoolSort())(x))))
        return val(st, V(S.mk_bool(f), S.Bool))
    args, kwargs = eval_args(ex, e, st)
    if name == 'len' and len(args) == 1:
        return val(st, builtin_len(ex, args[0], st, desc))
    if name == 'str' and len(args) == 1:
        return val(st, ex.to_str(args[0], st, desc))
    if name == 'bool' and len(args) == 1:
        return val(st, V(S.mk_bool(ex.truth(args[0], st)), S.Bool))
    if name == 'int' and len(args) == 1 and args[0].ty.kind == 'int':
        return val(st, args[0])
    if name == 'list':
        r = ex.alloc(st, 'list')
        if not args:
            seq, et = S.empty_seq(), S.Any
        elif args[0].ty.kind in ('set', 'dict'):
            seq, et = enum_of_dom(ex, args[0], st), (args[0].ty.k)
        else:
            seq, et = seq_of_value(ex, args[0], st, desc)
        st.set_field('list', z3.Store(st.field('list'), S.addr(r), seq))
        return val(st, V(r, S.List(et)))
    if name == 'tuple':
        if not args:
            return val(st, V(S.mk_tup(S.empty_seq()), S.TupleOf(S.Any)))
        seq, et = seq_of_value(ex, args[0], st, desc)
        return val(st, V(S.mk_tup(seq), S.TupleOf(et)))
    if name == 'set':
        r = ex.alloc(st, 'set')
        x = z3.Const('sx', S.PyObj())
        if not args:
            dom, kt = z3.K(S.PyObj(), z3.BoolVal(False)), S.Any
        elif args[0].ty.kind in ('set', 'dict'):
            dom, kt = st.sel('dom', S.addr(args[0].t)), args[0].ty.k
        else:
            seq, kt = seq_of_value(ex, args[0], st, desc)
            dom = z3.Lambda([x], S.member(seq, x))
        st.set_field('dom', z3.Store(st.field('dom'), S.addr(r), dom))
        return val(st, V(r, S.Set(kt)))
    if name == 'dict' and not args and not kwargs:
        r = ex.alloc(st, 'dict')
        a = S.addr(r)
        st.set_field('dom', z3.Store(st.field('dom'), a, z3.K(S.PyObj(), z3.BoolVal(False))))
        st.set_field('val', z3.Store(st.field('val'), a, z3.K(S.PyObj(), S.NONE())))
        if ex.track_keys:
            st.set_field('keys', z3.Store(st.field('keys'), a, S.empty_seq()))
        return val(st, V(r, S.Dict(S.Any, S.Any)))
    if name in ('min', 'max') and len(args) == 2 and all(a.ty.kind in ('int', 'any') for a in args):
        for a_ in args:
            if a_.ty.kind == 'any':
                ex.safety(st, 'TypeError', f'{name}() of a non-int ({desc})', S.is_int(a_.t))
        a, b = S.ival(args[0].t), S.ival(args[1].t)
        return val(st, V(S.mk_int(z3.If((a <= b) if name == 'min' else (a >= b), a, b)), S.Int))
    if name in ('min', 'max') and len(args) == 1 and not kwargs and S.strip_opt(args[0].ty).kind == 'set':
        # max/min of a set of ints: a member that bounds every member (ValueError on the empty set, TypeError on non-int members)
        dom = st.sel('dom', S.addr(args[0].t))
        x = z3.Const('mx', S.PyObj())
        ex.safety(st, 'ValueError', f'{name}() of an empty set ({desc})', z3.Exists([x], z3.Select(dom, x)))
        ex.safety(st, 'TypeError', f'{name}() of a set with a non-int member ({desc})', S.forall([x], z3.Implies(z3.Select(dom, x), S.is_int(x)), patterns=[z3.Select(dom, x)]))
        r = S.fresh(name + '_of_set', z3.IntSort())
        st.assume(z3.Select(dom, S.mk_int(r)))
        st.assume(S.forall([x], z3.Implies(z3.Select(dom, x), (S.ival(x) <= r) if name == 'max' else (S.ival(x) >= r)), patterns=[z3.Select(dom, x)]))
        return val(st, V(S.mk_int(r), S.Int))
    if name == 'abs' and len(args) == 1 and args[0].ty.kind == 'int':
        a = S.ival(args[0].t)
        return val(st, V(S.mk_int(z3.If(a >= 0, a, -a)), S.Int))
    if name == 'id' and len(args) == 1:
        return val(st, V(S.mk_int(z3.Function('py_id', S.PyObj(), z3.IntSort())(args[0].t)), S.Int))
    if name == 'hash':
        ex.used_trusted.add('builtins.hash (uninterpreted function of the value)')
        hf = z3.Function('py_hash', S.PyObj(), z3.IntSort())
        return val(st, V(S.mk_int(hf(args[0].t)), S.Int))
    raise Unsupported(f'builtin {name}: {desc}')


def enum_of_dom(ex, v, st):
    """an arbitrary duplicate-free enumeration of the keys of a dict/set (fresh ghost sequence)"""
    dom = st.sel('dom', S.addr(v.t))
    seq = S.fresh('enum', S.SeqP())
    i, j = z3.Ints('ei ej')
    x = z3.Const('ex', S.PyObj())
    st.assume(z3.ForAll([i], z3.Implies(z3.And(i >= 0, i < z3.Length(seq)), z3.Select(dom, S.at(seq, i))), patterns=[S.at(seq, i)]))
    st.assume(z3.ForAll([i, j], z3.Implies(z3.And(i >= 0, i < j, j < z3.Length(seq)), S.at(seq, i) != S.at(seq, j)), patterns=[z3.MultiPattern(S.at(seq, i), S.at(seq, j))]))
    st.assume(z3.ForAll([x], z3.Select(dom, x) == S.member(seq, x),
                        patterns=[z3.Select(dom, x), S.member(seq, x)]))
    return seq


def builtin_len(ex, v, st, desc):
    ty = ex.obj_class(v, st, desc)
    k = ty.kind
    if k == 'list':
        return V(S.mk_int(z3.Length(st.sel('list', S.addr(v.t)))), S.Int)
    if k in ('tupleof', 'tuple'):
        return V(S.mk_int(z3.Length(S.items(v.t))), S.Int)
    if k == 'str':
        return V(S.mk_int(z3.Length(S.sval(v.t))), S.Int)
    if k in ('dict', 'set'):
        ex.used_trusted.add('len(dict/set) as uninterpreted cardinality (>=0, ==0 iff empty)')
        card = z3.Function('card', z3.ArraySort(S.PyObj(), z3.BoolSort()), z3.IntSort())
        dom = st.sel('dom', S.addr(v.t))
        n = card(dom)
        x = z3.Const('cx', S.PyObj())
        st.assume(n >= 0)
        st.assume((n == 0) == z3.Not(z3.Exists([x], z3.Select(dom, x))))
        return V(S.mk_int(n), S.Int)
    if k in ('val', 'obj'):
        mc = ex.find_method_contract(ty.cls, '__len__')
        if mc is not None:
            return ex.call_contract(mc, [v], {}, st, desc)
    if k == 'opaque':
        fn = ex.reg.extern_methods.get((ty.name, '__len__'))
        if fn is not None:
            ex.used_trusted.add(fn.trusted_name)
            return fn(ex, st, None, V(v.t, ty), [], {})
    if k == 'any':
        t = v.t
        a = S.addr(t)
        is_cls = lambda n: z3.And(S.is_ref(t), S.tyof(a) == S.type_id(n))
        ex.safety(st, 'TypeError', 'len() ' + desc, z3.Or(S.is_str(t), S.is_tup(t), is_cls('list'), is_cls('dict'), is_cls('set')))
        card = z3.Function('card', z3.ArraySort(S.PyObj(), z3.BoolSort()), z3.IntSort())
        dom = st.sel('dom', a)
        x = z3.Const('cx', S.PyObj())
        st.assume(card(dom) >= 0)
        st.assume((card(dom) == 0) == z3.Not(z3.Exists([x], z3.Select(dom, x))))
        return V(S.mk_int(z3.If(S.is_str(t), z3.Length(S.sval(t)), z3.If(S.is_tup(t), z3.Length(S.items(t)),
                          z3.If(is_cls('list'), z3.Length(st.sel('list', a)), card(dom))))), Int_)
    raise Unsupported(f'len of {ty}: {desc}')


PRIM_CLASSES = {
    'str': lambda x: S.is_str(x),
    'int': lambda x: z3.Or(S.is_int(x), S.is_bool(x)),
    'bool': lambda x: S.is_bool(x),
    'float': lambda x: S.is_flt(x),
    'tuple': lambda x: S.is_tup(x),
    'list': lambda x: z3.And(S.is_ref(x), S.tyof(S.addr(x)) == S.type_id('list')),
    'dict': lambda x: z3.And(S.is_ref(x), S.tyof(S.addr(x)) == S.type_id('dict')),
    'set': lambda x: z3.And(S.is_ref(x), S.tyof(S.addr(x)) == S.type_id('set')),
}
# numpy scalar classes: numpy scalars are OUTSIDE the value universe of the encoding (ints are Python ints), so no modelled value is an instance of them
NUMPY_SCALAR_CLASSES = ('np.integer', 'numpy.integer', 'np.int64', 'numpy.int64', 'np.int32', 'numpy.int32', 'np.floating', 'numpy.floating', 'np.float64', 'numpy.float64', 'np.number', 'numpy.number')


def isinstance_formula(ex, v, cls_node, st):
    if isinstance(cls_node, ast.Tuple):
        return z3.Or(*[isinstance_formula(ex, v, c, st) for c in cls_node.elts])
    name = ast.unparse(cls_node)
    short = name.split('.')[-1]
    if name in PRIM_CLASSES:
        return PRIM_CLASSES[name](v.t)
    if name in NUMPY_SCALAR_CLASSES:
        ex.used_trusted.add('numpy scalars are outside the value universe: isinstance(x, <numpy scalar class>) is False for every modelled value (ints are Python ints)')
        return z3.BoolVal(False)
    ci = ex.reg.classes.get(short)
    if ci is None:
        raise Unsupported(f'isinstance against unknown class {name}')
    if ci.kind == 'value':
        return S.is_val(short, v.t)
    ids = ex.dyn_class_ids(short)
    return z3.And(S.is_ref(v.t), z3.Or(*[S.tyof(S.addr(v.t)) == i for i in ids]))


# ---- methods on values -------------------------------------------------------------------------------------------
def call_method(ex, e, st, recv, meth, desc):
    ty = recv.ty
    k = S.strip_opt(ty).kind
    if k in ('obj', 'val'):
        ty = ex.obj_class(recv, st, desc)
        mc = ex.find_method_contract(ty.cls, meth)
        if mc is None:
            # attribute holding a callable?
            raise Unsupported(f'method {ty.cls}.{meth} has no contract: {desc}')
        args, kwargs = eval_args(ex, e, st)
        return ex.call_contract_multi(mc, [V(recv.t, ty)] + args, kwargs, st, desc)
    if k == 'opaque':
        ty = ex.obj_class(recv, st, desc)
        fn = ex.reg.extern_methods.get((ty.name, meth))
        if fn is None:
            raise Unsupported(f'method {ty.name}.{meth} has no trusted specification: {desc}')
        args, kwargs = eval_args(ex, e, st)
        ex.used_trusted.add(fn.trusted_name)
        r = fn(ex, st, e, recv, args, kwargs)
        return r if isinstance(r, list) else val(st, r)
    if k == 'fn':
        raise Unsupported('method call on a callable: ' + desc)
    if k == 'any' and meth in ('startswith', 'endswith', 'find', 'lower', 'upper', 'strip', 'split', 'replace', 'isdigit'):
        # a string method on a value of unknown static type: TypeError/AttributeError unless it is a str
        ex.safety(st, 'AttributeError', f'.{meth} on a non-str ({desc})', S.is_str(recv.t))
        recv = V(recv.t, S.Str)
        k = 'str'
    args, kwargs = eval_args(ex, e, st)
    ty = ex.obj_class(recv, st, desc)
    a = S.addr(recv.t) if k in ('list', 'dict', 'set') else None
    if k == 'list':
        return val(st, list_method(ex, st, recv, ty, a, meth, args, kwargs, desc))
    if k == 'dict':
        return val(st, dict_method(ex, st, recv, ty, a, meth, args, kwargs, desc))
    if k == 'set':
        return val(st, set_method(ex, st, recv, ty, a, meth, args, kwargs, desc))
    if k == 'str':
        fn = ex.reg.extern_methods.get(('str', meth))
        if fn is not None:
            ex.used_trusted.add(fn.trusted_name)
            return val(st, fn(ex, st, e, recv, args, kwargs))
        return val(st, str_method(ex, st, recv, meth, args, kwargs, desc))
    raise Unsupported(f'method {meth} on {ty}: {desc}')


def list_method(ex, st, recv, ty, a, meth, args, kwargs, desc):
    h = st.field('list')
    seq = st.sel('list', a)
    if meth == 'append' and len(args) == 1:
        ex.check_elem_type(st, args[0], ty.t, f'type:elem@{desc}')
        st.set_field('list', z3.Store(h, a, z3.Concat(seq, z3.Unit(args[0].t))))
        return none_v()
    if meth == 'extend' and len(args) == 1:
        ex.list_extend(recv, args[0], st)
        return none_v()
    if meth == 'copy' and not args:
        r = ex.alloc(st, 'list')
        st.set_field('list', z3.Store(st.field('list'), S.addr(r), seq))
        return V(r, ty)
    if meth == 'clear' and not args:
        st.set_field('list', z3.Store(h, a, S.empty_seq()))
        return none_v()
    if meth == 'pop':
        n = z3.Length(seq)
        if not args:
            ex.safety(st, 'IndexError', desc, n > 0)
            t = S.at(seq, n - 1)
            st.set_field('list', z3.Store(h, a, z3.Extract(seq, 0, n - 1)))
        else:
            i = ex.index_term(args[0], seq, st, desc)
            t = S.at(seq, i)
            si = z3.simplify(i) if z3.is_expr(i) else i
            if z3.is_int_value(si) and si.as_long() == 0:
                st.set_field('list', z3.Store(h, a, z3.Extract(seq, 1, n - 1)))          # pop(0): the tail (no empty prefix to concatenate: friendlier to the at() axioms)
            else:
                st.set_field('list', z3.Store(h, a, z3.Concat(z3.Extract(seq, 0, i), z3.Extract(seq, i + 1, n - i - 1))))
        st.assume(S.has_type(t, ty.t, st.next_ref))
        return V(t, ty.t)
    if meth == 'popleft' and not args:
        # collections.deque modelled as a list: popleft() == pop(0)
        n = z3.Length(seq)
        ex.safety(st, 'IndexError', desc, n > 0)
        t = S.at(seq, 0)
        st.set_field('list', z3.Store(h, a, z3.Extract(seq, 1, n - 1)))
        st.assume(S.has_type(t, ty.t, st.next_ref))
        return V(t, ty.t)
    if meth == 'insert' and len(args) == 2 and args[0].ty.kind == 'int':
        ex.check_elem_type(st, args[1], ty.t, f'type:elem@{desc}')
        n = z3.Length(seq)
        i0 = S.ival(args[0].t)
        i = z3.If(i0 < 0, z3.If(i0 + n < 0, 0, i0 + n), z3.If(i0 > n, n, i0))
        st.set_field('list', z3.Store(h, a, z3.Concat(z3.Extract(seq, 0, i), z3.Unit(args[1].t), z3.Extract(seq, i, n - i))))
        return none_v()
    raise Unsupported(f'list.{meth}: {desc}')


def dict_method(ex, st, recv, ty, a, meth, args, kwargs, desc):
    dom, valf = st.field('dom'), st.field('val')
    d, v = st.sel('dom', a), st.sel('val', a)
    if meth == 'get' and 1 <= len(args) <= 2:
        k = args[0]
        default = args[1] if len(args) == 2 else none_v()
        t = z3.If(z3.Select(d, k.t), z3.Select(v, k.t), default.t)
        if default.ty.kind == 'none':
            rty = S.Opt(ty.v) if ty.v.kind not in ('any', 'opt', 'none') else ty.v
        else:
            rty = ty.v if repr(default.ty) == repr(ty.v) else S.Any
        st.assume(z3.Implies(z3.Select(d, k.t), S.has_type(z3.Select(v, k.t), ty.v, st.next_ref)))
        return V(t, rty)
    if meth == 'pop' and 1 <= len(args) <= 2:
        k = args[0]
        if len(args) == 1:
            ex.safety(st, 'KeyError', desc, z3.Select(d, k.t))
            t = z3.Select(v, k.t)
            rty = ty.v
            st.assume(S.has_type(t, ty.v, st.next_ref))
        else:
            t = z3.If(z3.Select(d, k.t), z3.Select(v, k.t), args[1].t)
            rty = ty.v if repr(args[1].ty) == repr(ty.v) else (S.Opt(ty.v) if args[1].ty.kind == 'none' else S.Any)
            st.assume(z3.Implies(z3.Select(d, k.t), S.has_type(z3.Select(v, k.t), ty.v, st.next_ref)))
        if ex.track_keys:
            raise Unsupported('dict.pop with key-order tracking')
        st.set_field('dom', z3.Store(dom, a, z3.Store(d, k.t, False)))
        return V(t, rty)
    if meth == 'setdefault' and len(args) == 2:
        k, dv = args
        had = z3.Select(d, k.t)
        ex.check_elem_type(st, k, ty.k, f'type:key@{desc}')
        ex.check_elem_type(st, dv, ty.v, f'type:value@{desc}')
        t = z3.If(had, z3.Select(v, k.t), dv.t)
        st.set_field('dom', z3.Store(dom, a, z3.Store(d, k.t, True)))
        st.set_field('val', z3.Store(valf, a, z3.Store(v, k.t, t)))
        st.assume(S.has_type(t, ty.v, st.next_ref))
        return V(t, ty.v)
    if meth in ('keys', 'values') and not args:
        r = ex.alloc(st, 'list')
        seq = st.sel('keys', a) if ex.track_keys else enum_of_dom(ex, recv, st)
        if meth == 'values':
            raise Unsupported('dict.values() as a value')
        st.set_field('list', z3.Store(st.field('list'), S.addr(r), seq))
        return V(r, S.List(ty.k))
    if meth == 'copy' and not args:
        r = ex.alloc(st, 'dict')
        st.set_field('dom', z3.Store(st.field('dom'), S.addr(r), d))
        st.set_field('val', z3.Store(st.field('val'), S.addr(r), v))
        return V(r, ty)
    if meth == 'clear' and not args:
        st.set_field('dom', z3.Store(dom, a, z3.K(S.PyObj(), z3.BoolVal(False))))
        return none_v()
    raise Unsupported(f'dict.{meth}: {desc}')


def set_method(ex, st, recv, ty, a, meth, args, kwargs, desc):
    dom = st.field('dom')
    d = st.sel('dom', a)
    if meth == 'add' and len(args) == 1:
        ex.check_elem_type(st, args[0], ty.k, f'type:elem@{desc}')
        st.set_field('dom', z3.Store(dom, a, z3.Store(d, args[0].t, True)))
        return none_v()
    if meth == 'discard' and len(args) == 1:
        st.set_field('dom', z3.Store(dom, a, z3.Store(d, args[0].t, False)))
        return none_v()
    if meth == 'remove' and len(args) == 1:
        ex.safety(st, 'KeyError', desc, z3.Select(d, args[0].t))
        st.set_field('dom', z3.Store(dom, a, z3.Store(d, args[0].t, False)))
        return none_v()
    if meth == 'copy' and not args:
        r = ex.alloc(st, 'set')
        st.set_field('dom', z3.Store(st.field('dom'), S.addr(r), d))
        return V(r, ty)
    if meth == 'clear' and not args:
        st.set_field('dom', z3.Store(dom, a, z3.K(S.PyObj(), z3.BoolVal(False))))
        return none_v()
    if meth == 'update' and len(args) == 1:
        o = args[0]
        x = z3.Const('sx', S.PyObj())
        if o.ty.kind in ('set', 'dict'):
            od = st.sel('dom', S.addr(o.t))
            new = z3.Lambda([x], z3.Or(z3.Select(d, x), z3.Select(od, x)))
        else:
            seq, et = seq_of_value(ex, o, st, desc)
            new = z3.Lambda([x], z3.Or(z3.Select(d, x), S.member(seq, x)))
        st.set_field('dom', z3.Store(dom, a, new))
        return none_v()
    raise Unsupported(f'set.{meth}: {desc}')


def str_method(ex, st, recv, meth, args, kwargs, desc):
    s = S.sval(recv.t)
    if meth in ('startswith', 'endswith') and len(args) == 1 and args[0].ty.kind == 'str':
        o = S.sval(args[0].t)
        return V(S.mk_bool(z3.PrefixOf(o, s) if meth == 'startswith' else z3.SuffixOf(o, s)), S.Bool)
    if meth == 'find' and len(args) == 1 and args[0].ty.kind == 'str':
        return V(S.mk_int(z3.IndexOf(s, S.sval(args[0].t), 0)), S.Int)
    if meth == 'replace' and len(args) == 2:
        ex.used_trusted.add('str.replace modelled as uninterpreted (only first-occurrence facts)')
        raise Unsupported('str.replace')
    raise Unsupported(f'str.{meth}: {desc}')
