"""lianvc — verification-condition generator for the real Python source of yang-guangliang/lian (see DESIGN.md §2)."""
