"""Discharging verification conditions: z3 (python API) first, CLI back ends on `unknown`."""
import os
import subprocess
import tempfile
import time
import z3

QUICK_TIMEOUT_MS = int(os.environ.get('LIANVC_VC_TIMEOUT_MS', '10000'))


def smt2_of(hyps, goal):
    s = z3.Solver()
    s.add(*hyps)
    s.add(z3.Not(goal))
    return s.to_smt2()


def run_cli(cmd, text, timeout_s):
    with tempfile.NamedTemporaryFile('w', suffix='.smt2', delete=False) as f:
        f.write(text)
        path = f.name
    try:
        t = time.time()
        r = subprocess.run(cmd + [path], capture_output=True, text=True, timeout=timeout_s)
        out = (r.stdout or '').strip().splitlines()
        verdict = out[0].strip() if out else 'unknown'
        if verdict not in ('sat', 'unsat', 'unknown'):
            verdict = 'unknown'
        return verdict, time.time() - t
    except subprocess.TimeoutExpired:
        return 'timeout', timeout_s
    finally:
        os.unlink(path)


def discharge(vc, timeout_ms=None, fallbacks=True, seed=None):
    """returns dict(name, kind, verdict, backend, time_s, model, reason)"""
    timeout_ms = timeout_ms or QUICK_TIMEOUT_MS
    if seed is not None:
        z3.set_param('smt.random_seed', seed)
        z3.set_param('sat.random_seed', seed)
    res = dict(name=vc.name, kind=vc.kind, verdict='unknown', backend='z3-5.1(py)', time_s=0.0, model=None, reason='')
    t0 = time.time()
    if z3.is_true(vc.goal):
        res.update(verdict='unsat', backend='trivial', time_s=0.0)
        return res
    s = z3.Solver()
    s.set('timeout', timeout_ms)
    if vc.kind == 'cover':
        # satisfiability of the quantifier-free part of the hypotheses (quantified parts make z3 answer unknown);
        # the stronger vacuity guard is the canary suite (mutants that must fail)
        s.add(*[h for h in vc.hyps if not z3.is_quantifier(h)])
        r = s.check()
        res['time_s'] = time.time() - t0
        # a cover wants the hypotheses to be satisfiable
        res['verdict'] = 'sat' if r == z3.sat else ('unsat' if r == z3.unsat else 'unknown')
        if r == z3.unknown:
            res['reason'] = s.reason_unknown()
        return res
    s.add(*vc.hyps)
    s.add(z3.Not(vc.goal))
    r = s.check()
    res['time_s'] = time.time() - t0
    if r == z3.unsat:
        res['verdict'] = 'unsat'
        return res
    if r == z3.sat:
        res['verdict'] = 'sat'
        try:
            m = s.model()
            res['model'] = model_to_dict(m)
        except Exception as e:       # noqa
            res['model'] = {'error': str(e)}
        return res
    res['reason'] = s.reason_unknown()
    if fallbacks:
        try:
            text = smt2_of(vc.hyps, vc.goal)
        except Exception as e:     # noqa
            return res
        for label, cmd in (('z3-4.8.12(cli)', ['/usr/bin/z3', f'-T:{max(1, timeout_ms // 1000)}']),):
            if not os.path.exists(cmd[0]):
                continue
            v, dt = run_cli(cmd, text, timeout_ms / 1000 + 2)
            res['time_s'] += dt
            if v == 'unsat':
                res.update(verdict='unsat', backend=label)
                return res
            if v == 'sat':
                res.update(verdict='sat', backend=label)
                return res
    return res


def model_to_dict(m, limit=60):
    out = {}
    for d in m.decls()[:limit * 4]:
        n = d.name()
        if n.startswith('p_') or n.startswith('H0_') or n.startswith('next_ref0') or n.startswith('ret_') or n.startswith('lv_') \
                or n.startswith('i') or n.startswith('cb_'):
            try:
                out[n] = str(m[d])[:600]
            except Exception:  # noqa
                pass
        if len(out) >= limit:
            break
    return out
