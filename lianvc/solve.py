"""Discharging verification conditions: z3 (python API) first, CLI back ends on `unknown`."""
import os
import subprocess
import tempfile
import time
import z3

QUICK_TIMEOUT_MS = int(os.environ.get('LIANVC_VC_TIMEOUT_MS', '10000'))


def smt2_of(hyps, goal):
    s = z3.Solver()
    s.add(*hyps)
    s.add(z3.Not(goal))
    return s.to_smt2()


def run_cli(cmd, text, timeout_s):
    with tempfile.NamedTemporaryFile('w', suffix='.smt2', delete=False) as f:
        f.write(text)
        path = f.name
    try:
        t = time.time()
        r = subprocess.run(cmd + [path], capture_output=True, text=True, timeout=timeout_s)
        out = (r.stdout or '').strip().splitlines()
        verdict = out[0].strip() if out else 'unknown'
        if verdict not in ('sat', 'unsat', 'unknown'):
            verdict = 'unknown'
        return verdict, time.time() - t
    except subprocess.TimeoutExpired:
        return 'timeout', timeout_s
    finally:
        os.unlink(path)


def _has_quantifier(e, _memo=None):
    _memo = {} if _memo is None else _memo
    k = e.get_id()
    if k in _memo:
        return _memo[k]
    r = z3.is_quantifier(e) or any(_has_quantifier(ch, _memo) for ch in e.children())
    _memo[k] = r
    return r


def _qf_conjuncts(h):
    """the quantifier-free conjuncts of a hypothesis (conjunctions are opened; any conjunct containing a quantifier is dropped)"""
    if z3.is_and(h):
        return [q for ch in h.children() for q in _qf_conjuncts(ch)]
    return [] if _has_quantifier(h) else [h]


def discharge(vc, timeout_ms=None, fallbacks=True, seed=None):
    """returns dict(name, kind, verdict, backend, time_s, model, reason)"""
    timeout_ms = timeout_ms or QUICK_TIMEOUT_MS
    if seed is not None:
        z3.set_param('smt.random_seed', seed)
        z3.set_param('sat.random_seed', seed)
    res = dict(name=vc.name, kind=vc.kind, verdict='unknown', backend='z3-5.1(py)', time_s=0.0, model=None, reason='')
    t0 = time.time()
    if z3.is_true(vc.goal):
        res.update(verdict='unsat', backend='trivial', time_s=0.0)
        return res
    s = z3.Solver()
    s.set('timeout', timeout_ms)
    if vc.kind == 'cover':
        # satisfiability of the quantifier-free part of the hypotheses (quantified parts make z3 answer unknown);
        # the stronger vacuity guard is the canary suite (mutants that must fail)
        s.add(*[q for h in vc.hyps for q in _qf_conjuncts(h)])
        r = s.check()
        res['time_s'] = time.time() - t0
        # a cover wants the hypotheses to be satisfiable
        res['verdict'] = 'sat' if r == z3.sat else ('unsat' if r == z3.unsat else 'unknown')
        if r == z3.unknown:
            res['reason'] = s.reason_unknown()
        return res
    # portfolio: z3 5.1 (python API) with a short budget, then /usr/bin/z3 4.8.12 (much better on string-heavy queries), then z3 5.1 with the rest
    first_ms = min(timeout_ms, 3000)
    s.set('timeout', first_ms)
    s.add(*vc.hyps)
    s.add(z3.Not(vc.goal))
    r = s.check()
    res['time_s'] = time.time() - t0
    if r == z3.unsat:
        res['verdict'] = 'unsat'
        return res
    if r == z3.sat:
        res['verdict'] = 'sat'
        try:
            res['model'] = model_to_dict(s.model())
        except Exception as e:       # noqa
            res['model'] = {'error': str(e)}
        return res
    res['reason'] = s.reason_unknown()
    # /usr/bin/z3 4.8.12 is NOT used for program VCs any more: on a VC of C18 (string UFs + quantifiers) it answered `unsat` for a goal that does not follow from the
    # hypotheses (z3 5.1: unknown; a variant with a fresh constant: timeout) — an unconfirmed `unsat` of that version is not accepted as a proof. It remains available for the
    # pure string closure lemmas (discharge_fresh), which z3 5.1 confirms as well. Set LIANVC_USE_Z3_4812=1 to re-enable (results are then labelled with the backend).
    if fallbacks and os.environ.get('LIANVC_USE_Z3_4812') == '1' and os.path.exists('/usr/bin/z3'):
        try:
            text = smt2_of(vc.hyps, vc.goal)
            for prefix, label in (('(set-logic ALL)\n', 'z3-4.8.12(cli, logic ALL)'), ('', 'z3-4.8.12(cli)')):
                v, dt = run_cli(['/usr/bin/z3', f'-T:{max(1, timeout_ms // 2000)}'], prefix + text, timeout_ms / 2000 + 2)
                res['time_s'] += dt
                if v in ('unsat', 'sat'):
                    res.update(verdict=v, backend=label)
                    return res
        except Exception as e:     # noqa
            res['reason'] += f' / cli: {e!r}'
    # quantifier-free core: dropping hypotheses is sound for an `unsat` answer, and many path-infeasibility VCs follow from the ground facts alone while the
    # quantified hypotheses (Exists under an equality, invariants) only make the e-matching/MBQI loop wander
    if not _has_quantifier(vc.goal):
        sq = z3.Solver()
        sq.set('timeout', min(2000, timeout_ms))
        sq.add(*[q for h in vc.hyps for q in _qf_conjuncts(h)])
        sq.add(z3.Not(vc.goal))
        t1 = time.time()
        rq = sq.check()
        res['time_s'] += time.time() - t1
        if rq == z3.unsat:
            res.update(verdict='unsat', backend='z3-5.1(py) (quantifier-free core of the hypotheses)')
            return res
    if timeout_ms > first_ms:
        s2 = z3.Solver()
        s2.set('timeout', timeout_ms - first_ms)
        s2.add(*vc.hyps)
        s2.add(z3.Not(vc.goal))
        t1 = time.time()
        r = s2.check()
        res['time_s'] += time.time() - t1
        if r == z3.unsat:
            res['verdict'] = 'unsat'
            return res
        if r == z3.sat:
            res['verdict'] = 'sat'
            try:
                res['model'] = model_to_dict(s2.model())
            except Exception as e:       # noqa
                res['model'] = {'error': str(e)}
            return res
        res['reason'] = s2.reason_unknown()
    return res


def model_to_dict(m, limit=60):
    out = {}
    for d in m.decls()[:limit * 4]:
        n = d.name()
        if n.startswith('p_') or n.startswith('H0_') or n.startswith('next_ref0') or n.startswith('ret_') or n.startswith('lv_') \
                or n.startswith('i') or n.startswith('cb_'):
            try:
                out[n] = str(m[d])[:600]
            except Exception:  # noqa
                pass
        if len(out) >= limit:
            break
    return out


def discharge_fresh(vc, timeout_ms=60000):
    """discharge a (small, closed) lemma in FRESH solver processes — z3 5.1 CLI and z3 4.8.12 CLI on the SMT-LIB text — so that the verdict does not depend
    on the state the in-process z3 context has accumulated; falls back to the in-process portfolio"""
    res = dict(name=vc.name, kind=vc.kind, verdict='unknown', backend='-', time_s=0.0, model=None, reason='')
    try:
        text = smt2_of(vc.hyps, vc.goal)
    except Exception as e:      # noqa
        return discharge(vc, timeout_ms)
    per = max(2, timeout_ms // 3000)
    for cmd, label in ((['z3-new', f'-T:{per}'], 'z3-5.1(cli, fresh process)'), (['/usr/bin/z3', f'-T:{per}'], 'z3-4.8.12(cli, fresh process)'),
                       (['/usr/bin/z3', f'-T:{per}'], 'z3-4.8.12(cli, logic ALL, fresh process)')):
        import shutil as _sh
        if _sh.which(cmd[0]) is None:
            continue
        v, dt = run_cli(cmd, ('(set-logic ALL)\n' if 'ALL' in label else '') + text, per + 3)
        res['time_s'] += dt
        if v in ('unsat', 'sat'):
            res.update(verdict=v, backend=label)
            return res
    r = discharge(vc, timeout_ms)
    r['time_s'] += res['time_s']
    return r
