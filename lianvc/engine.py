"""Forward symbolic execution of real Python function ASTs into verification conditions.

See DESIGN.md §2.2 for the subset and the encoding assumptions.  Anything outside the subset raises
`Unsupported` (mapped to exit 2 by the runner), never a silent skip.
"""
import ast
import os
import z3

from . import sorts as S
from . import source
from .contracts import Contract, LoopSpec, Registry, ClassInfo

BITW = 16     # width used for &, |, ^ on ints (operands are obliged to be in [0, 2**BITW))


class Unsupported(Exception):
    pass


class V:
    """typed symbolic value: z3 PyObj term + static type (hint, always justified by the path condition)"""
    __slots__ = ('t', 'ty', 'truth_hint', 'um')

    def __init__(self, t, ty=S.Any, truth_hint=None):
        self.t, self.ty = t, ty
        self.um = False                   # value read from an unmodelled attribute (Exec.field_type)
        self.truth_hint = truth_hint      # for `a and b` / `a or b`: the truth value as the conjunction / disjunction of the operands' truth values (logically equal to truth(t))

    def __repr__(self):
        return f'V({self.t}:{self.ty})'


HEAP_SORTS = None


def heap_sort(field):
    P = S.PyObj()
    I = z3.IntSort()
    if field.startswith('attr:'):
        return z3.ArraySort(I, P)
    if field == 'list' or field == 'keys':
        return z3.ArraySort(I, z3.SeqSort(P))
    if field == 'dom':
        return z3.ArraySort(I, z3.ArraySort(P, z3.BoolSort()))
    if field == 'val':
        return z3.ArraySort(I, z3.ArraySort(P, P))
    if field.startswith('ghost:'):
        return GHOST_FIELD_SORTS[field]()
    raise KeyError(field)


_below = None


def below(x, n):
    """`x` mentions only addresses < n (heap well-formedness; appears in hypotheses only)"""
    global _below
    if _below is None:
        _below = z3.Function('below', S.PyObj(), z3.IntSort(), z3.BoolSort())
    return _below(x, n)


def below_axioms():
    x = z3.Const('bx', S.PyObj())
    n, i = z3.Ints('bn bi')
    ax = [z3.ForAll([x, n], z3.Implies(z3.And(below(x, n), S.is_ref(x)), z3.And(S.addr(x) < n, S.addr(x) > 0)), patterns=[below(x, n)]),
          z3.ForAll([x, n, i], z3.Implies(z3.And(below(x, n), S.is_tup(x), i >= 0, i < z3.Length(S.items(x))),
                                          below(S.items(x)[i], n)),
                    patterns=[z3.MultiPattern(below(x, n), S.items(x)[i])])]
    ax += S.at_axioms(bridge=False)
    from .sorts import _VALUE_CLASSES
    for cname, fields in _VALUE_CLASSES.items():
        for f in fields:
            ax.append(z3.ForAll([x, n], z3.Implies(z3.And(below(x, n), S.is_val(cname, x)), below(S.vfield(cname, f, x), n)),
                                patterns=[z3.MultiPattern(below(x, n), S.vfield(cname, f, x))]))
    return ax


def wf_axioms(field, arr, n):
    """every value stored in heap array `arr` (an epoch base) mentions only addresses < n"""
    a, i = z3.Ints('wa wi')
    k = z3.Const('wk', S.PyObj())
    if field.startswith('attr:'):
        return [z3.ForAll([a], below(z3.Select(arr, a), n), patterns=[z3.Select(arr, a)])]
    if field in ('list', 'keys'):
        e = S.at(z3.Select(arr, a), i)
        return [z3.ForAll([a, i], z3.Implies(z3.And(i >= 0, i < z3.Length(z3.Select(arr, a))), below(e, n)), patterns=[e])]
    if field == 'val':
        e = z3.Select(z3.Select(arr, a), k)
        return [z3.ForAll([a, k], below(e, n), patterns=[e])]
    if field == 'dom':
        e = z3.Select(z3.Select(arr, a), k)
        return [z3.ForAll([a, k], z3.Implies(e, below(k, n)), patterns=[e])]
    return []


GHOST_FIELD_SORTS = {}   # 'ghost:<name>' -> callable returning sort (heap-like ghost arrays declared by contracts)


def smart_select(ex, pc, arr, idx):
    """Select(arr, idx) with the Store chain of `arr` resolved where the path condition decides index (dis)equality.

    Purely a term simplification (the result is equal to Select(arr, idx) under pc); it keeps heap reads syntactically
    canonical so that E-matching patterns of quantified invariants fire."""
    orig = idx
    idx = _light_simplify(idx)
    cur = arr
    steps = 0
    while z3.is_app(cur) and cur.decl().kind() == z3.Z3_OP_STORE and steps < 40:
        base, i2, v = cur.children()
        i2s = _light_simplify(i2)
        if i2s.eq(idx):
            return v
        d = ex.decide_eq(pc, i2s, idx)
        if d is True:
            return v
        if d is False:
            cur = base
            steps += 1
            continue
        break
    return z3.Select(cur, orig)


def _light_simplify(t):
    """addr(ref(e)) -> e and constant folding only (z3.simplify would expand native sequence indexing into nth_i/nth_u)"""
    if z3.is_app(t) and t.num_args() == 1 and t.decl().name() == 'addr':
        a = t.arg(0)
        if z3.is_app(a) and a.decl().name() == 'ref':
            return a.arg(0)
    return t


class State:
    def __init__(self, ex):
        self.ex = ex
        self.pc = []
        self.env = {}
        self.heap = {}
        self.next_ref = None
        self.ghost = {}
        self.depth = 0

    def copy(self):
        s = State(self.ex)
        s.pc = list(self.pc)
        s.env = dict(self.env)
        s.heap = dict(self.heap)
        s.next_ref = self.next_ref
        s.ghost = dict(self.ghost)
        s.depth = self.depth
        return s

    def assume(self, f):
        if z3.is_true(f):
            return
        self.pc.append(f)

    # ---- heap access -------------------------------------------------------------------------------------
    def field(self, name):
        if name not in self.heap:
            self.heap[name] = self.ex.initial_field(name)
        return self.heap[name]

    def set_field(self, name, term):
        self.heap[name] = term

    def sel(self, name, a):
        t = smart_select(self.ex, self.pc, self.field(name), a)
        if name.startswith('attr:'):
            self.note_epoch(t, t)
        return t

    def sel2(self, name, a, k):
        t = smart_select(self.ex, self.pc, self.sel(name, a), k)
        if name == 'val':
            self.note_epoch(t, t)
        return t

    def note_epoch(self, container_term, value):
        """a value read from an epoch base array (initial heap, or the heap as havocked by a call/loop) mentions only
        addresses below that epoch's allocation bound — a ground instance of the heap well-formedness axioms"""
        n = self.ex.epoch_bound(container_term)
        if n is not None:
            self.assume(z3.Implies(S.is_ref(value), S.addr(value) < n))

    def view(self):
        return HeapView(self.ex, dict(self.heap), self.next_ref, owner=self)


def merge_states(ex, states):
    """exact join of path states (no abstraction): the common prefix of the path conditions is kept, the rest becomes one disjunction in which every
    differing heap field / local / ghost value is a fresh symbol equated, per disjunct, with that path's value"""
    first = states[0]
    n = min(len(s_.pc) for s_ in states)
    k = 0
    while k < n and all(s_.pc[k] is first.pc[k] or s_.pc[k].eq(first.pc[k]) for s_ in states[1:]):
        k += 1
    m = State(ex)
    m.pc = list(first.pc[:k])
    m.depth = max(s_.depth for s_ in states)
    eqs = [[] for _ in states]
    same = lambda ts: all(t is ts[0] or t.eq(ts[0]) for t in ts[1:])
    # allocation counter
    nrs = [s_.next_ref for s_ in states]
    if same(nrs):
        m.next_ref = nrs[0]
    else:
        m.next_ref = S.fresh('next_ref', z3.IntSort())
        for i_, t in enumerate(nrs):
            eqs[i_].append(m.next_ref == t)
    # heap
    merged_fields = []
    for fld in sorted(set().union(*[set(s_.heap) for s_ in states])):
        ts = [s_.field(fld) for s_ in states]
        if same(ts):
            m.heap[fld] = ts[0]
        else:
            nt = S.fresh('mg_' + fld, ts[0].sort())
            m.heap[fld] = nt
            merged_fields.append((fld, nt))
            for i_, t in enumerate(ts):
                eqs[i_].append(nt == t)
    # locals bound on every path
    for nm in sorted(set.intersection(*[set(s_.env) for s_ in states])):
        vs = [s_.env[nm] for s_ in states]
        if same([v.t for v in vs]) and len({repr(v.ty) for v in vs}) == 1:
            m.env[nm] = vs[0]
            continue
        ty = vs[0].ty if len({repr(v.ty) for v in vs}) == 1 else S.Any
        nt = S.fresh('mg_' + nm)
        m.env[nm] = V(nt, ty)
        for i_, v in enumerate(vs):
            eqs[i_].append(nt == v.t)
    # ghost state
    for g in sorted(set.intersection(*[set(s_.ghost) for s_ in states])):
        gs = [s_.ghost[g] for s_ in states]
        if all(isinstance(x, z3.ExprRef) for x in gs):
            if same(gs):
                m.ghost[g] = gs[0]
            else:
                nt = S.fresh('mg_gh_' + g, gs[0].sort())
                m.ghost[g] = nt
                for i_, x in enumerate(gs):
                    eqs[i_].append(nt == x)
        elif all(x == gs[0] for x in gs[1:]):
            m.ghost[g] = gs[0]
    m.pc.append(z3.Or(*[z3.And(*(list(s_.pc[k:]) + eqs[i_])) if (len(s_.pc) > k or eqs[i_]) else z3.BoolVal(True) for i_, s_ in enumerate(states)]))
    for fld, nt in merged_fields:
        for ax in ex.heap_axioms(fld, nt, m.next_ref):
            m.assume(ax)
        ex.register_epoch(nt, m.next_ref)
    for nm, v in m.env.items():
        if v.ty.kind != 'any':
            m.assume(S.has_type(v.t, v.ty, m.next_ref))
        m.assume(below(v.t, m.next_ref))
    return m


class HeapView:
    """read-only view of a heap for specifications"""

    def __init__(self, ex, heap, next_ref, owner=None):
        self.ex, self.heap, self.next = ex, heap, next_ref
        self.owner = owner

    def field(self, name):
        if name not in self.heap:
            self.heap[name] = self.ex.initial_field(name)
        return self.heap[name]

    @staticmethod
    def _a(x):
        if isinstance(x, V):
            x = x.t
        if isinstance(x, int):
            return z3.IntVal(x)
        return S.addr(x) if x.sort() == S.PyObj() else x

    def _sel(self, fname, a):
        a = self._a(a)
        if z3.is_var(a) or self.owner is None or _has_bound_var(a):
            return z3.Select(self.field(fname), a)
        return smart_select(self.ex, self.owner.pc, self.field(fname), a)

    def attr(self, obj, name):
        return self._sel('attr:' + name, obj)

    def list(self, obj):
        return self._sel('list', obj)

    def dom(self, obj):
        return self._sel('dom', obj)

    def val(self, obj):
        return self._sel('val', obj)

    def keys(self, obj):
        return self._sel('keys', obj)

    def has(self, obj, k):
        d = self.dom(obj)
        if self.owner is None or _has_bound_var(k):
            return z3.Select(d, k)
        return smart_select(self.ex, self.owner.pc, d, k)

    def get(self, obj, k):
        d = self.val(obj)
        if self.owner is None or _has_bound_var(k):
            return z3.Select(d, k)
        return smart_select(self.ex, self.owner.pc, d, k)

    def ghost(self, name):
        return self.field('ghost:' + name)

    def allocated(self, x):
        a = self._a(x)
        return z3.And(a > 0, a < self.next)


def _has_bound_var(t):
    """does the term mention a de-Bruijn variable or one of the conventional quantifier constants used by specifications?
    (specifications quantify over z3 constants; a heap read at such an index cannot be resolved against the path condition)"""
    return False


class NS:
    """attribute bag"""

    def __init__(self, d=None):
        self.__dict__['_d'] = dict(d or {})

    def __getattr__(self, k):
        try:
            return self._d[k]
        except KeyError:
            raise AttributeError(k)

    def __setattr__(self, k, v):
        self._d[k] = v

    def __contains__(self, k):
        return k in self._d

    def get(self, k, default=None):
        return self._d.get(k, default)


class LocalsNS(NS):
    """the locals a specification refers to; a local that is unbound on this path is a failed obligation, not a crash"""

    def __init__(self, ex, st, d):
        NS.__init__(self, d)
        self.__dict__['_ex'] = ex
        self.__dict__['_st'] = st

    def __getattr__(self, k):
        try:
            return self._d[k]
        except KeyError:
            ex, st = self.__dict__['_ex'], self.__dict__['_st']
            ex.oblige(st, f'spec:refers-to-a-local-that-is-unbound-here:{k}', z3.BoolVal(False), kind='safety')
            t = S.fresh('unbound_' + k)
            self._d[k] = t
            return t


class Ctx:
    """what a specification lambda sees"""

    def __init__(self, **kw):
        self.__dict__.update(kw)


class VC:
    __slots__ = ('name', 'hyps', 'goal', 'kind', 'info')

    def __init__(self, name, hyps, goal, kind='proof', info=None):
        self.name, self.hyps, self.goal, self.kind, self.info = name, hyps, goal, kind, info or {}


class Outcome:
    __slots__ = ('kind', 'st', 'val', 'exc')

    def __init__(self, kind, st, val=None, exc=None):
        self.kind, self.st, self.val, self.exc = kind, st, val, exc


def const_to_term(v):
    """python constant -> (term, type)"""
    if v is None:
        return S.NONE(), S.NoneT
    if isinstance(v, bool):
        return S.mk_bool(v), S.Bool
    if isinstance(v, int):
        return S.mk_int(v), S.Int
    if isinstance(v, str):
        return S.mk_str(v), S.Str
    if isinstance(v, tuple):
        parts = [const_to_term(x) for x in v]
        return S.mk_tup(S.seq_of(*[p[0] for p in parts])), S.Tuple(*[p[1] for p in parts])
    raise Unsupported(f'constant of type {type(v).__name__}')


_LOOP_HEADERS = None
_FN_SHAPES = None


def fn_shape(fn):
    """(shape hash, names in first-occurrence order, local names) of a function: the AST with every ast.Name id replaced by the index of its first occurrence.
    Two functions with the same shape differ only by a consistent, injective renaming of the identifiers used as ast.Name (parameters, attributes, keywords and
    strings are kept as they are)."""
    import copy
    import hashlib
    t = copy.deepcopy(fn)
    order = {}
    locals_ = set()
    declared = set()
    for n in ast.walk(t):
        if isinstance(n, (ast.Global, ast.Nonlocal)):
            declared.update(n.names)
    for n in ast.walk(t):
        if isinstance(n, ast.Name):
            if isinstance(n.ctx, (ast.Store, ast.Del)):
                locals_.add(n.id)
            order.setdefault(n.id, len(order))
            n.id = f'${order[n.id]}'
    params = {a.arg for a in ast.walk(fn) if isinstance(a, ast.arg)}
    names = sorted(order, key=order.get)
    return (hashlib.sha256(ast.dump(t, include_attributes=False).encode()).hexdigest()[:16], names, sorted(locals_ - declared - params))


def _recorded_fn_shapes():
    global _FN_SHAPES
    if _FN_SHAPES is None:
        import json
        p = os.path.join(os.path.dirname(os.path.dirname(os.path.abspath(__file__))), 'fn_shapes.json')
        try:
            with open(p) as fh:
                _FN_SHAPES = json.load(fh)
        except (OSError, ValueError):
            _FN_SHAPES = {}
    return _FN_SHAPES


_CALL_INDEX = None


def _new_param_default(fn, name, n_known_positional, mod, known=()):
    """(term, type, python value) of the constant default of parameter `name` when no call in src/lian can override it, else None"""
    a = fn.args
    pos = a.posonlyargs + a.args
    defaults = dict(zip([x.arg for x in pos][len(pos) - len(a.defaults):], a.defaults))
    for x, d in zip(a.kwonlyargs, a.kw_defaults):
        if d is not None:
            defaults[x.arg] = d
    if name not in defaults:
        return None
    order = [x.arg for x in pos]
    if name in order and any(order.index(x) > order.index(name) for x in order if x != name and x in known):
        return None          # inserted BEFORE a parameter the contract knows: positional calls would shift
    try:
        cv = source.const_eval(mod, defaults[name])
        t, ty = const_to_term(cv)
    except Exception:      # noqa
        return None
    global _CALL_INDEX
    if _CALL_INDEX is None:
        _CALL_INDEX = []
        root = os.path.join(source.REPO, 'src', 'lian')
        for dp, dn, fns in os.walk(root):
            for f_ in fns:
                if f_.endswith('.py'):
                    try:
                        tree = ast.parse(open(os.path.join(dp, f_), encoding='utf-8').read())
                    except (SyntaxError, OSError):
                        continue
                    for n in ast.walk(tree):
                        if isinstance(n, ast.Call):
                            callee = n.func.attr if isinstance(n.func, ast.Attribute) else (n.func.id if isinstance(n.func, ast.Name) else None)
                            _CALL_INDEX.append((callee, len(n.args), {k.arg for k in n.keywords}, any(isinstance(x, ast.Starred) for x in n.args) or any(k.arg is None for k in n.keywords)))
    is_method = bool(pos) and pos[0].arg in ('self', 'cls')
    limit = n_known_positional - (1 if is_method else 0)
    for callee, nargs, kws, star in _CALL_INDEX:
        if callee == fn.name and (name in kws or nargs > limit or star):
            return None
    return t, ty, cv


def comprehensions_as_recorded_loops(fn, contract_name):
    """A loop the contract has a specification for (recorded header in loop_headers.json) that now appears as `T = [elt for x in it if c]` is put back into loop form
    (`T = []; for x in it: if c: T.append(elt)`, an `A if C else B` element with a call in a branch as if/else around the append), so that the loop specification
    applies again. Python semantics are preserved when T does not occur in the comprehension and x occurs nowhere else in the function (both checked); nothing is done
    for any other comprehension or when no recorded loop is missing. Returns (function, [headers put back])."""
    base = _recorded_loop_headers().get(contract_name)
    if not base:
        return fn, []
    missing = list(base)
    for h in loop_headers_of(fn):
        if h in missing:
            missing.remove(h)
    if not missing:
        return fn, []
    import copy
    t = copy.deepcopy(fn)
    done = []
    all_names = [n.id for n in ast.walk(t) if isinstance(n, ast.Name)]

    def has_call(e):
        return any(isinstance(x, ast.Call) for x in ast.walk(e))

    def append_stmts(T, elt):
        if isinstance(elt, ast.IfExp) and (has_call(elt.body) or has_call(elt.orelse)):
            return [ast.If(test=elt.test, body=append_stmts(T, elt.body), orelse=append_stmts(T, elt.orelse))]
        return [ast.Expr(value=ast.Call(func=ast.Attribute(value=ast.Name(id=T, ctx=ast.Load()), attr='append', ctx=ast.Load()), args=[elt], keywords=[]))]

    def rewrite(block):
        out = []
        for s in block:
            for fld in ('body', 'orelse', 'finalbody'):
                if isinstance(getattr(s, fld, None), list) and not isinstance(s, (ast.FunctionDef, ast.AsyncFunctionDef, ast.ClassDef, ast.Lambda)):
                    setattr(s, fld, rewrite(getattr(s, fld)))
            for h_ in getattr(s, 'handlers', []) or []:
                h_.body = rewrite(h_.body)
            if (isinstance(s, ast.Assign) and len(s.targets) == 1 and isinstance(s.targets[0], ast.Name) and isinstance(s.value, ast.ListComp)
                    and len(s.value.generators) == 1 and not s.value.generators[0].is_async):
                g = s.value.generators[0]
                T = s.targets[0].id
                header = 'for ' + ast.unparse(g.target) + ' in ' + ast.unparse(g.iter)
                inner = [n.id for n in ast.walk(s.value) if isinstance(n, ast.Name)]
                tnames = [n.id for n in ast.walk(g.target) if isinstance(n, ast.Name)]
                if header in missing and T not in inner and all(all_names.count(x) == inner.count(x) for x in tnames):
                    body = append_stmts(T, s.value.elt)
                    if g.ifs:
                        body = [ast.If(test=(g.ifs[0] if len(g.ifs) == 1 else ast.BoolOp(op=ast.And(), values=list(g.ifs))), body=body, orelse=[])]
                    tgt = copy.deepcopy(g.target)
                    for n in ast.walk(tgt):
                        if isinstance(n, (ast.Name, ast.Tuple, ast.List)):
                            n.ctx = ast.Store()
                    init = ast.Assign(targets=[ast.Name(id=T, ctx=ast.Store())], value=ast.List(elts=[], ctx=ast.Load()))
                    loop = ast.For(target=tgt, iter=g.iter, body=body, orelse=[])
                    for n_ in (init, loop):
                        ast.copy_location(n_, s)
                        ast.fix_missing_locations(n_)
                    out += [init, loop]
                    missing.remove(header)
                    done.append(header)
                    continue
            out.append(s)
        return out
    t.body = rewrite(t.body)
    return (t, done) if done else (fn, [])


def inline_explaining_temporaries(fn):
    """`t = <pure expression>` directly followed by the only use of t, with nothing but names/constants evaluated before that use in the following statement (or in the
    test of the following if / the iterable of the following for), is the same as writing the expression in place. Returns (function copy with such temporaries inlined, [names]) — applied repeatedly."""
    import copy
    t = copy.deepcopy(fn)
    done = []

    def pure(e):
        return not any(isinstance(n, (ast.Call, ast.Await, ast.Yield, ast.YieldFrom, ast.NamedExpr, ast.Lambda, ast.ListComp, ast.SetComp, ast.DictComp, ast.GeneratorExp))
                       for n in ast.walk(e))

    def counts(name):
        st = sum(1 for n in ast.walk(t) if isinstance(n, ast.Name) and n.id == name and isinstance(n.ctx, (ast.Store, ast.Del)))
        ld = sum(1 for n in ast.walk(t) if isinstance(n, ast.Name) and n.id == name and isinstance(n.ctx, ast.Load))
        return st, ld

    def head_expr(s):
        """the expressions of statement s that are evaluated first (before any nested block)"""
        if isinstance(s, ast.If):            # not While: its test is evaluated again on every iteration
            return [s.test]
        if isinstance(s, ast.For):
            return [s.iter]
        if isinstance(s, (ast.Expr, ast.Return)):
            return [s.value] if s.value is not None else []
        if isinstance(s, ast.Assign):
            return [s.value] if all(isinstance(x, ast.Name) for x in s.targets) else []
        if isinstance(s, ast.AugAssign):
            return [s.value] if isinstance(s.target, ast.Name) else []
        return []

    def try_block(block):
        for i in range(len(block) - 1):
            s, nxt = block[i], block[i + 1]
            if not (isinstance(s, ast.Assign) and len(s.targets) == 1 and isinstance(s.targets[0], ast.Name) and pure(s.value)):
                continue
            name = s.targets[0].id
            if counts(name) != (1, 1):
                continue
            heads = head_expr(nxt)
            uses = [n for h in heads for n in ast.walk(h) if isinstance(n, ast.Name) and n.id == name]
            if len(uses) != 1:
                continue
            use = uses[0]
            h = [h for h in heads if any(n is use for n in ast.walk(h))][0]
            # nothing with an effect may be evaluated before the use inside h: no call at all in h before the use position; names read by the value are not rebound
            before = [n for n in ast.walk(h) if isinstance(n, (ast.Call, ast.Await, ast.NamedExpr)) and (n.lineno, n.col_offset) < (use.lineno, use.col_offset)]
            if before:
                continue
            # replace
            class R(ast.NodeTransformer):
                def visit_Name(self_, n):
                    return copy.deepcopy(s.value) if n is use else n
            newh = R().visit(h)
            for fld, val in ast.iter_fields(nxt):
                if val is h:
                    setattr(nxt, fld, newh)
            del block[i]
            done.append(name)
            return True
        return False

    def walk_blocks(node):
        changed = False
        for fld in ('body', 'orelse', 'finalbody'):
            blk = getattr(node, fld, None)
            if isinstance(blk, list) and blk and isinstance(blk[0], ast.stmt):
                while try_block(blk):
                    changed = True
                for ch in blk:
                    if not isinstance(ch, (ast.FunctionDef, ast.AsyncFunctionDef, ast.ClassDef)):
                        changed = walk_blocks(ch) or changed
        for h_ in getattr(node, 'handlers', []) or []:
            changed = walk_blocks(h_) or changed
        return changed
    walk_blocks(t)
    ast.fix_missing_locations(t)
    return (t, done) if done else (fn, [])


def undo_local_renaming(fn, contract_name):
    """Contracts name locals (invariants, hooks keyed by statement text). When the current function is the recorded one up to a consistent injective renaming of
    LOCAL variables (same shape, every differing name a local on both sides), return (a copy with the recorded names restored, {current name: recorded name});
    the copy is alpha-equivalent to the real function. Otherwise (fn, {})."""
    rec = _recorded_fn_shapes().get(contract_name)
    if not rec:
        return fn, {}
    shape, names, locals_ = fn_shape(fn)
    if shape != rec['shape']:
        # explaining temporaries added since the contract was written? (`t = <pure expr>` used once in the next statement)
        fn2, inlined = inline_explaining_temporaries(fn)
        if inlined:
            shape2, names2, locals2 = fn_shape(fn2)
            if shape2 == rec['shape']:
                fn, shape, names, locals_ = fn2, shape2, names2, locals2
                if names == rec['names']:
                    return fn, {'(inlined temporaries)': ', '.join(inlined)}
    if names == rec['names'] or shape != rec['shape'] or len(names) != len(rec['names']):
        return fn, {}
    back = {new: old for new, old in zip(names, rec['names']) if new != old}
    if not all(new in locals_ for new in back) or not all(old in rec['locals'] for old in back.values()):
        return fn, {}
    import copy
    t = copy.deepcopy(fn)
    for n in ast.walk(t):
        if isinstance(n, ast.Name) and n.id in back:
            n.id = back[n.id]
    return t, back


def loop_header(node):
    """the header text a loop is recognised by"""
    if isinstance(node, ast.While):
        return 'while ' + ast.unparse(node.test)
    return 'for ' + ast.unparse(node.target) + ' in ' + ast.unparse(node.iter)


def loop_headers_of(fn):
    """header texts of the loops of fn in ordinal order (same traversal as Exec._number_loops)"""
    out = []

    class Vis(ast.NodeVisitor):
        def visit_For(v, node):
            out.append(loop_header(node))
            v.generic_visit(node)

        def visit_While(v, node):
            out.append(loop_header(node))
            v.generic_visit(node)

        def visit_FunctionDef(v, node):
            if node is fn:
                v.generic_visit(node)

        def visit_ListComp(v, node):
            pass

    Vis().visit(fn)
    return out


def _recorded_loop_headers():
    global _LOOP_HEADERS
    if _LOOP_HEADERS is None:
        import json
        p = os.path.join(os.path.dirname(os.path.dirname(os.path.abspath(__file__))), 'loop_headers.json')
        try:
            with open(p) as fh:
                _LOOP_HEADERS = json.load(fh)
        except (OSError, ValueError):
            _LOOP_HEADERS = {}
    return _LOOP_HEADERS


class Exec:
    """symbolic execution of one function against its contract"""

    MAX_PATHS = 4000

    def __init__(self, registry: Registry, contract: Contract, fn_ast=None, feas_timeout=400, lenient=False):
        self.lenient = lenient
        self.track_keys = bool(getattr(contract, 'track_keys', False))
        self.reg = registry
        self.c = contract
        self.mod = source.load(contract.file)
        self.fn = fn_ast if fn_ast is not None else self.mod.function(contract.qualname)
        self.real_fn = self.fn
        self.fn, self.renamed_locals = undo_local_renaming(self.fn, contract.name)
        self.fn, self.relooped = comprehensions_as_recorded_loops(self.fn, contract.name)
        self.cls = contract.qualname.split('.')[0] if '.' in contract.qualname else None
        self.vcs = []
        self.init_heap = {}
        self.used_trusted = set()
        self.assumed_contracts = set()
        self.called_contracts = set()
        self.counters = {}
        self.feas_timeout = feas_timeout
        self.paths = 0
        self.covers = {}
        self.try_stack = []
        self.prefix = f'{contract.name}'
        self.loop_ordinals = {}
        self._eq_cache = {}
        self.stats = {}
        self._bound_consts = set()
        self.epochs = {}
        self.stmt_hooks = [(k[len('after_stmt:'):], h) for k, h in contract.ghost_hooks.items() if k.startswith('after_stmt:')]
        self.before_hooks = [(k[len('before_stmt:'):], h) for k, h in contract.ghost_hooks.items() if k.startswith('before_stmt:')]
        self.global_axioms = below_axioms() + list(registry.axioms)
        self._number_loops(self.fn)
        self.notes = []

    def _number_loops(self, fn):
        n = 0

        class Vis(ast.NodeVisitor):
            def visit_For(v, node):
                nonlocal n
                n += 1
                self.loop_ordinals[id(node)] = n
                v.generic_visit(node)

            def visit_While(v, node):
                nonlocal n
                n += 1
                self.loop_ordinals[id(node)] = n
                v.generic_visit(node)

            def visit_FunctionDef(v, node):
                if node is fn:
                    v.generic_visit(node)
                # nested functions are not numbered

            def visit_ListComp(v, node):
                pass

        Vis().visit(fn)
        self.n_loops = n
        # Loop specifications are keyed by ordinal. When the function gained / lost / reordered loops since the contract was written (loop_headers.json, recorded at
        # --rebaseline), align the loops by their header text so that every specification stays with ITS loop; loops without a recorded counterpart get fresh
        # ordinals (no specification: the default havoc applies). An unchanged function keeps the identity numbering.
        base = _recorded_loop_headers().get(self.c.name)
        if base is not None:
            nodes = sorted(((o, nid) for nid, o in self.loop_ordinals.items()))
            by_id = {}
            for node in ast.walk(fn):
                if id(node) in self.loop_ordinals:
                    by_id[id(node)] = node
            cur = [loop_header(by_id[nid]) for _, nid in nodes]
            if cur != base:
                # longest common subsequence of header texts
                m_, n_ = len(base), len(cur)
                T = [[0] * (n_ + 1) for _ in range(m_ + 1)]
                for i in range(m_ - 1, -1, -1):
                    for j in range(n_ - 1, -1, -1):
                        T[i][j] = T[i + 1][j + 1] + 1 if base[i] == cur[j] else max(T[i + 1][j], T[i][j + 1])
                i = j = 0
                match = {}
                while i < m_ and j < n_:
                    if base[i] == cur[j]:
                        match[j] = i + 1
                        i += 1
                        j += 1
                    elif T[i + 1][j] >= T[i][j + 1]:
                        i += 1
                    else:
                        j += 1
                # same number of loops: an unmatched loop whose position's recorded ordinal is unmatched too is that loop with an edited header
                if m_ == n_:
                    taken = set(match.values())
                    for j in range(n_):
                        if j not in match and (j + 1) not in taken:
                            match[j] = j + 1
                            taken.add(j + 1)
                extra = max(m_, n_)
                for j, (_, nid) in enumerate(nodes):
                    if j in match:
                        self.loop_ordinals[nid] = match[j]
                    else:
                        extra += 1
                        self.loop_ordinals[nid] = extra
                self.loop_remap = {j + 1: self.loop_ordinals[nid] for j, (_, nid) in enumerate(nodes)}

    # ---- infrastructure ------------------------------------------------------------------------------------
    def initial_field(self, name):
        if name not in self.init_heap:
            self.init_heap[name] = z3.Const(f'H0_{name}', heap_sort(name))
            self.global_axioms += self.heap_axioms(name, self.init_heap[name], z3.Int('next_ref0'))
            self.register_epoch(self.init_heap[name], z3.Int('next_ref0'))
        return self.init_heap[name]

    def uniq(self, base):
        k = self.counters.get(base, 0) + 1
        self.counters[base] = k
        return base if k == 1 else f'{base}#{k}'

    def oblige(self, st, name, goal, kind='proof', info=None, unique=True):
        """emit a verification condition `pc => goal`"""
        if z3.is_true(goal):
            self.covers[name] = self.covers.get(name, 0) + 1
            # still record as trivially discharged obligation
        full = f'{self.prefix}:{name}'
        parts = split_goal(goal)
        if len(parts) == 1:
            self.vcs.append(VC(full, list(st.pc), goal, kind, info))
        else:
            for k, (guards, g) in enumerate(parts, 1):
                self.vcs.append(VC(f'{full}/{k}', list(st.pc) + guards, g, kind, info))

    def safety(self, st, exc, node_desc, goal):
        """obligation that an exception is not raised, or a branch when inside a matching try"""
        if exc in self.c.allow_raise:
            # the contract declares that this exception may escape: no obligation; execution continues only where it is not raised
            st.assume(goal)
            return
        self.oblige(st, f'safety:{exc}@{node_desc}', goal, kind='safety')
        st.assume(goal)

    def register_epoch(self, arr, n):
        self.epochs[arr.get_id()] = (arr, n)

    def heap_axioms(self, field, arr, n):
        """well-formedness + typed-heap invariant of an epoch base array (initial heap, or heap as left by a call / loop):
        every attribute of an allocated instance of a class with a ClassInfo has its declared type"""
        ax = list(wf_axioms(field, arr, n))
        if field.startswith('attr:'):
            f = field[5:]
            a = z3.Int('ta')
            for ci in self.reg.classes.values():
                if ci.kind == 'heap' and f in ci.fields and ci.fields[f].kind != 'any':
                    ids = self.dyn_class_ids(ci.name)
                    ax.append(z3.ForAll([a], z3.Implies(z3.And(a > 0, a < n, z3.Or(*[S.tyof(a) == i for i in ids])),
                                                        S.has_type(z3.Select(arr, a), ci.fields[f], n)), patterns=[z3.Select(arr, a)]))
        return ax

    def epoch_bound(self, t):
        """allocation bound N of the epoch base array a read `base[a]`, `base[a][k]`, `at(base[a], i)`, `base[a][i]` comes from"""
        cur = t
        for _ in range(4):
            if not z3.is_app(cur):
                return None
            k = cur.decl().kind()
            if k == z3.Z3_OP_SELECT:
                arr = cur.arg(0)
                e = self.epochs.get(arr.get_id())
                if e is not None:
                    return e[1]
                cur = arr
            elif cur.decl().name() in ('at', 'seq.nth', 'seq.nth_i') and cur.num_args() == 2:
                cur = cur.arg(0)
            else:
                return None
        return None

    def decide_eq(self, pc, a, b):
        """True / False when the quantifier-free part of the path condition decides a == b, else None"""
        if a.eq(b):
            return True
        ca, cb = z3.simplify(a), z3.simplify(b)
        if z3.is_int_value(ca) and z3.is_int_value(cb):
            return ca.as_long() == cb.as_long()
        ida, idb = a.get_id(), b.get_id()
        if ida > idb:
            ida, idb = idb, ida
        # a definitive answer under a prefix of the current path condition stays valid (the pc only grows along a path)
        for (L, marker, res) in self._eq_cache.get((ida, idb), ()):
            if res is not None and len(pc) >= L and (L == 0 or pc[L - 1].get_id() == marker):
                return res
            if res is None and len(pc) == L and (L == 0 or pc[L - 1].get_id() == marker):
                return None
        self.stats['decide_eq'] = self.stats.get('decide_eq', 0) + 1
        s = z3.Solver()
        s.set('timeout', 300)
        qf = [f for f in pc if not z3.is_quantifier(f)]
        s.add(*qf)
        s.push()
        s.add(a == b)
        r1 = s.check()
        s.pop()
        res = None
        if r1 == z3.unsat:
            res = False
        else:
            s.add(a != b)
            if s.check() == z3.unsat:
                res = True
        self._eq_cache.setdefault((ida, idb), []).append((len(pc), pc[-1].get_id() if pc else 0, res))
        return res

    def feasible(self, st):
        if getattr(self, '_probing', 0):
            return True          # probe pass explores every syntactic path
        s = z3.Solver()
        s.set('timeout', self.feas_timeout)
        # quantified hypotheses are left out: a weaker path condition only means more paths are explored
        s.add(*[f for f in st.pc if not z3.is_quantifier(f)])
        r = s.check()
        return r != z3.unsat

    # ---- class helpers -------------------------------------------------------------------------------------
    def class_info(self, name):
        return self.reg.classes.get(name)

    def find_method_contract(self, cls, meth):
        """contract of cls.meth looking through declared bases"""
        seen = set()
        todo = [cls]
        while todo:
            c = todo.pop(0)
            if c in seen:
                continue
            seen.add(c)
            ci = self.reg.classes.get(c)
            if ci is None:
                continue
            k = (ci.file, f'{c}.{meth}')
            if k in self.reg.contracts:
                return self.reg.contracts[k]
            todo.extend(ci.bases)
        return None

    def dyn_class_ids(self, clsname):
        names = {clsname} | set(self.reg.subclasses.get(clsname, ()))
        return [S.type_id(n) for n in sorted(names)]

    # ---- entry ---------------------------------------------------------------------------------------------
    def run(self):
        c = self.c
        st = State(self)
        st.next_ref = z3.Int('next_ref0')
        st.assume(st.next_ref > 0)
        args = self.fn.args
        names = [a.arg for a in args.posonlyargs + args.args + args.kwonlyargs]
        if args.vararg or args.kwarg:
            if not (set(names) >= set(c.params)):
                raise Unsupported('*args/**kwargs in function under contract')
        entry = {}
        defaulted = {}
        for nme in list(names):
            if nme not in c.params:
                # a parameter added after the contract was written, with a constant default that NO call in src/lian overrides (no such keyword anywhere, no call of a
                # function of this name with more positional arguments than the contract knows): it has its default value in every execution
                dv = _new_param_default(self.fn, nme, len([a for a in args.posonlyargs + args.args if a.arg in c.params]), self.mod, set(c.params))
                if dv is None:
                    raise source.SourceError(f'{c.name}: parameter {nme} has no declared type (contract out of date)')
                defaulted[nme] = dv
                names.remove(nme)
                self.notes.append(f'parameter {nme} is new, defaults to {dv[2]!r} and is passed by no call site in src/lian: bound to its default')
        for nme in c.params:
            if nme not in names:
                raise source.SourceError(f'{c.name}: contract parameter {nme} not in the real signature (contract out of date)')
        for nme, (t_, ty_, _) in defaulted.items():
            st.env[nme] = V(t_, ty_)
        for nme in names:
            ty = c.params[nme]
            t = z3.Const(f'p_{nme}', S.PyObj())
            st.env[nme] = V(t, ty)
            entry[nme] = t
            st.assume(S.has_type(t, ty, st.next_ref))
            st.assume(below(t, st.next_ref))
        self.entry = entry
        self.entry_state = st.copy()
        if c.ghost_init:
            c.ghost_init(self, st)
        pre_view = st.view()
        self.pre_view = pre_view
        cx = self.ctx(st)
        for nm, f in c.requires:
            st.assume(f(cx))
        for nm, f in c.pre_assume:
            st.assume(f(cx))
        # vacuity: requires must be satisfiable
        self.vcs.append(VC(f'{self.prefix}:vacuity:requires-satisfiable', list(st.pc), z3.BoolVal(False), kind='cover'))
        memo = self.decorator_semantics()
        if memo:
            # a memoising decorator: what the caller sees is the value cached by SOME earlier call with equal arguments — a function of the arguments alone, whatever the
            # heap (and the body) say now; the body is therefore not what decides the postconditions
            f = z3.Function(f'memoised_{c.qualname.replace(".", "_")}', *([S.PyObj()] * len(names)), S.PyObj())
            res = f(*[entry[n_] for n_ in names]) if names else S.fresh('memoised')
            if c.returns is not S.Any and c.returns.kind != 'any':
                st.assume(S.has_type(res, c.returns, st.next_ref))
            self.notes.append(f'{c.name}: decorated with {memo}: modelled as a function of the arguments only (stale results are possible)')
            outs = [Outcome('return', st, V(res, c.returns))]
        else:
            outs = self.block(self.fn.body, st)
        for o in outs:
            if o.kind == 'normal':
                self.finish(o.st, V(S.NONE(), S.NoneT))
            elif o.kind == 'return':
                self.finish(o.st, o.val)
            elif o.kind == 'raise':
                self.finish_raise(o.st, o.exc)
            else:
                raise Unsupported(f'{o.kind} outside loop')
        for vc in self.vcs:
            vc.hyps = list(self.global_axioms) + vc.hyps
        return self.vcs

    TRANSPARENT_DECORATORS = ('profile', 'staticmethod', 'classmethod', 'abstractmethod', 'abc.abstractmethod', 'override', 'typing.override')
    MEMO_DECORATORS = ('lru_cache', 'functools.lru_cache', 'cache', 'functools.cache', 'cached_property', 'functools.cached_property')

    def decorator_semantics(self):
        """decorators change what a call of the function does; only the ones known to be transparent are ignored"""
        memo = None
        for d in getattr(self.fn, 'decorator_list', []):
            name = ast.unparse(d.func if isinstance(d, ast.Call) else d)
            if name in self.TRANSPARENT_DECORATORS:
                continue
            if name in self.MEMO_DECORATORS:
                memo = '@' + ast.unparse(d)
                continue
            raise Unsupported(f'decorator @{ast.unparse(d)} on {self.c.qualname}: its effect on the function is not modelled')
        return memo

    def ctx(self, st, **extra):
        p = NS(self.entry)
        l = LocalsNS(self, st, {k: v.t for k, v in st.env.items()})
        d = dict(p=p, l=l, old=self.pre_view if hasattr(self, 'pre_view') else st.view(), pre=getattr(self, 'pre_view', None),
                 new=st.view(), cur=st.view(), g=NS(st.ghost), ex=self, st=st, env=st.env)
        d.update(extra)
        return Ctx(**d)

    def finish(self, st, val):
        self.paths += 1
        c = self.c
        cx = self.ctx(st, res=val.t, resv=val)
        if c.returns is not S.Any and c.returns.kind != 'any' and not st.ghost.get('$stopped'):
            self.oblige(st, 'returns:type', S.has_type(val.t, c.returns, st.next_ref), kind='type')
        for nm, f in c.ensures:
            self.covers['ensures:' + nm] = self.covers.get('ensures:' + nm, 0) + 1
            self.oblige(st, f'ensures:{nm}', f(cx))
        self.check_frame(st, cx)

    def finish_raise(self, st, exc):
        self.paths += 1
        c = self.c
        if exc in c.raises:
            cx = self.ctx(st, res=S.NONE())
            for nm, f in c.raises[exc]:
                self.oblige(st, f'raises:{exc}:{nm}', f(cx))
            self.check_frame(st, cx)
        else:
            self.oblige(st, f'safety:{exc}@raise', z3.BoolVal(False), kind='safety')

    def modifies_map(self, contract, cx):
        if contract.modifies is None:
            return {}
        m = contract.modifies(cx)
        return m or {}

    def check_frame(self, st, cx):
        """every pre-allocated location outside the declared frame is unchanged"""
        m = self.modifies_map(self.c, Ctx(**{**cx.__dict__, 'new': self.pre_view, 'cur': self.pre_view}))
        old_next = self.entry_state.next_ref
        for fld, term in st.heap.items():
            init = self.init_heap.get(fld)
            if init is None or term is init or term.eq(init):
                continue
            spec = m.get(fld, m.get('*', None))
            if spec is True:
                continue
            if fld.startswith('attr:') and fld[5:] in getattr(self, 'unmodelled_attrs', ()):
                continue
            a = z3.Int('fr_a')
            outside = z3.And(a > 0, a < old_next)
            if spec is None:
                pass
            elif callable(spec):
                outside = z3.And(outside, z3.Not(spec(a)))
            else:
                outside = z3.And(outside, *[a != HeapView._a(r) for r in spec])
            self.oblige(st, f'frame:{fld}', z3.Implies(outside, z3.Select(term, a) == z3.Select(init, a)), kind='frame')

    # ---- statements ----------------------------------------------------------------------------------------
    def block(self, stmts, st):
        outs = [Outcome('normal', st)]
        for s in stmts:
            if getattr(self.c, 'merge_before', None) and len([o for o in outs if o.kind == 'normal']) > 1:
                src = ast.unparse(s)
                if any(src.startswith(p_) for p_ in self.c.merge_before):
                    normals = [o.st for o in outs if o.kind == 'normal']
                    outs = [o for o in outs if o.kind != 'normal'] + [Outcome('normal', merge_states(self, normals))]
                    self.merged_at = getattr(self, 'merged_at', []) + [(s.lineno, len(normals))]
            nxt = []
            for o in outs:
                if o.kind != 'normal':
                    nxt.append(o)
                    continue
                nxt.extend(self.stmt(s, o.st))
            outs = nxt
            if len(outs) > self.MAX_PATHS:
                raise Unsupported(f'more than {self.MAX_PATHS} paths')
        return outs

    def stmt(self, s, st):
        if self.c.stop_before and ast.unparse(s).startswith(self.c.stop_before):
            # prefix verification: the contract speaks about the state reached here; nothing after this statement is executed
            # (before_stmt hooks of the stopping statement still run: they state what must hold when it is reached)
            for prefix, hook in self.before_hooks:
                if ast.unparse(s).startswith(prefix):
                    hook(self, st, s)
            self.stopped_at = s.lineno
            st.ghost['$stopped'] = True
            return [Outcome('return', st, V(S.NONE(), S.NoneT))]
        m = getattr(self, 'st_' + type(s).__name__, None)
        if m is None:
            raise Unsupported(f'statement {type(s).__name__} at line {s.lineno}: {ast.unparse(s)[:80]}')
        if self.before_hooks:
            src0 = ast.unparse(s)
            for prefix, hook in self.before_hooks:
                if src0.startswith(prefix):
                    hook(self, st, s)
        outs = m(s, st)
        if self.stmt_hooks and not isinstance(s, (ast.If, ast.For, ast.While, ast.Try, ast.With)):
            src = ast.unparse(s)
            for prefix, hook in self.stmt_hooks:
                if src.startswith(prefix):
                    for o in outs:
                        if o.kind == 'normal':
                            hook(self, o.st, s)
        return outs

    def st_Pass(self, s, st): return [Outcome('normal', st)]
    def st_Break(self, s, st): return [Outcome('break', st)]
    def st_Continue(self, s, st): return [Outcome('continue', st)]
    def st_Global(self, s, st): return [Outcome('normal', st)]
    def st_Nonlocal(self, s, st): return [Outcome('normal', st)]
    def st_Import(self, s, st): return [Outcome('normal', st)]
    def st_ImportFrom(self, s, st): return [Outcome('normal', st)]

    def st_Expr(self, s, st):
        if isinstance(s.value, ast.Constant):
            return [Outcome('normal', st)]
        if isinstance(s.value, ast.Call):
            return self.call_stmt(s.value, st)
        self.ev(s.value, st)
        return [Outcome('normal', st)]

    def call_stmt(self, call, st):
        outs = self.ev_call_multi(call, st)
        return [Outcome('normal', o.st) if o.kind == 'value' else o for o in outs]

    def st_Return(self, s, st):
        if s.value is None:
            return [Outcome('return', st, V(S.NONE(), S.NoneT))]
        if isinstance(s.value, ast.Call):
            outs = self.ev_call_multi(s.value, st)
            return [Outcome('return', o.st, o.val) if o.kind == 'value' else o for o in outs]
        v = self.ev(s.value, st)
        return [Outcome('return', st, v)]

    def st_Raise(self, s, st):
        exc = 'Exception'
        if s.exc is not None:
            e = s.exc
            if isinstance(e, ast.Call):
                e = e.func
            exc = ast.unparse(e).split('.')[-1]
        return self.raise_outcome(st, exc)

    def raise_outcome(self, st, exc):
        return [Outcome('raise', st, exc=exc)]

    def st_Assert(self, s, st):
        c = self.truth(self.ev(s.test, st), st)
        self.safety(st, 'AssertionError', ast.unparse(s.test), c)
        return [Outcome('normal', st)]

    def st_Assign(self, s, st):
        if isinstance(s.value, ast.Call) and len(s.targets) == 1:
            outs = self.ev_call_multi(s.value, st)
            res = []
            for o in outs:
                if o.kind == 'value':
                    self.assign(s.targets[0], o.val, o.st)
                    res.append(Outcome('normal', o.st))
                else:
                    res.append(o)
            return res
        v = self.ev(s.value, st)
        for t in s.targets:
            self.assign(t, v, st)
        return [Outcome('normal', st)]

    def st_AnnAssign(self, s, st):
        if s.value is None:
            return [Outcome('normal', st)]
        v = self.ev(s.value, st)
        self.assign(s.target, v, st)
        return [Outcome('normal', st)]

    def st_AugAssign(self, s, st):
        load = ast.copy_location(_as_load(s.target), s.target)
        cur = self.ev(load, st)
        rhs = self.ev(s.value, st)
        if isinstance(s.op, ast.Add) and cur.ty.kind == 'list' and isinstance(s.target, (ast.Name, ast.Attribute)):
            # in-place list extension
            self.list_extend(cur, rhs, st)
            return [Outcome('normal', st)]
        if cur.ty.kind == 'set' and rhs.ty.kind == 'set' and isinstance(s.op, (ast.BitOr, ast.BitAnd, ast.Sub)) \
                and isinstance(s.target, (ast.Name, ast.Attribute)):
            # in-place set update (the same object is mutated; aliases observe it)
            h = st.field('dom')
            A, B = st.sel('dom', S.addr(cur.t)), st.sel('dom', S.addr(rhs.t))
            x = z3.Const('sx', S.PyObj())
            f = {ast.BitOr: z3.Or, ast.BitAnd: z3.And, ast.Sub: lambda p, q: z3.And(p, z3.Not(q))}[type(s.op)]
            st.set_field('dom', z3.Store(h, S.addr(cur.t), z3.Lambda([x], f(z3.Select(A, x), z3.Select(B, x)))))
            if isinstance(s.op, ast.BitOr):
                self.check_elem_type(st, V(S.NONE(), rhs.ty.k), cur.ty.k, 'skip') if False else None
            return [Outcome('normal', st)]
        v = self.binop(s.op, cur, rhs, st, ast.unparse(s))
        self.assign(s.target, v, st)
        return [Outcome('normal', st)]

    def st_Delete(self, s, st):
        for t in s.targets:
            if isinstance(t, ast.Subscript):
                o = self.ev(t.value, st)
                k = self.ev(t.slice, st)
                if o.ty.kind == 'dict':
                    a = S.addr(o.t)
                    dom = st.field('dom')
                    self.safety(st, 'KeyError', 'del ' + ast.unparse(t), st.sel2('dom', a, k.t))
                    st.set_field('dom', z3.Store(dom, a, z3.Store(st.sel('dom', a), k.t, False)))
                    continue
                if o.ty.kind == 'list' and not isinstance(t.slice, ast.Slice):
                    a = S.addr(o.t)
                    seq = st.sel('list', a)
                    i = self.index_term(k, seq, st, 'del ' + ast.unparse(t))
                    new = z3.Concat(z3.Extract(seq, 0, i), z3.Extract(seq, i + 1, z3.Length(seq) - i - 1))
                    st.set_field('list', z3.Store(st.field('list'), a, new))
                    continue
            raise Unsupported('del ' + ast.unparse(t))
        return [Outcome('normal', st)]

    def narrow(self, test, st, positive):
        """refine static types of local names from a branch condition (the condition itself is in the pc)"""
        if isinstance(test, ast.UnaryOp) and isinstance(test.op, ast.Not):
            return self.narrow(test.operand, st, not positive)
        if isinstance(test, ast.BoolOp):
            if (isinstance(test.op, ast.And) and positive) or (isinstance(test.op, ast.Or) and not positive):
                for x in test.values:
                    self.narrow(x, st, positive)
            return
        if isinstance(test, ast.Name) and test.id in st.env:
            v = st.env[test.id]
            if v.ty.kind == 'opt' and positive:
                st.env[test.id] = V(v.t, v.ty.t)
            return
        if isinstance(test, ast.Compare) and len(test.ops) == 1 and isinstance(test.left, ast.Name) and test.left.id in st.env \
                and isinstance(test.comparators[0], ast.Constant) and test.comparators[0].value is None:
            v = st.env[test.left.id]
            is_none = isinstance(test.ops[0], (ast.Is, ast.Eq)) == positive
            if not isinstance(test.ops[0], (ast.Is, ast.IsNot, ast.Eq, ast.NotEq)):
                return
            if is_none:
                st.env[test.left.id] = V(v.t, S.NoneT)
            elif v.ty.kind == 'opt':
                st.env[test.left.id] = V(v.t, v.ty.t)
            return
        if isinstance(test, ast.Call) and isinstance(test.func, ast.Name) and test.func.id == 'isinstance' and positive \
                and len(test.args) == 2 and isinstance(test.args[0], ast.Name) and test.args[0].id in st.env \
                and not isinstance(test.args[1], ast.Tuple):
            v = st.env[test.args[0].id]
            cur = S.strip_opt(v.ty)
            name = ast.unparse(test.args[1]).split('.')[-1]
            prim = {'str': S.Str, 'int': None, 'bool': S.Bool, 'list': S.List(S.Any), 'set': S.Set(S.Any),
                    'dict': S.Dict(S.Any, S.Any), 'tuple': S.TupleOf(S.Any), 'float': S.Float}
            new = None
            if name in prim:
                new = prim[name]
                if new is not None and cur.kind == new.kind:
                    new = cur
            elif name in self.reg.classes:
                ci = self.reg.classes[name]
                new = S.Val(name) if ci.kind == 'value' else (S.Opaque(name) if ci.kind == 'opaque' else (S.Obj(name) if not self.reg.subclasses.get(name) else None))
                if cur.kind in ('obj', 'val') and new is not None and cur.kind == new.kind and cur.cls != name:
                    new = cur if name in self._all_bases(cur.cls) else new
            if new is not None:
                st.env[test.args[0].id] = V(v.t, new)

    def _all_bases(self, cls):
        out, todo = set(), [cls]
        while todo:
            c = todo.pop()
            ci = self.reg.classes.get(c)
            if ci is None:
                continue
            for b in ci.bases:
                if b not in out:
                    out.add(b)
                    todo.append(b)
        return out

    def st_If(self, s, st):
        c = self.truth(self.ev(s.test, st), st)
        a = st.copy()
        a.assume(c)
        b = st
        b.assume(z3.Not(c))
        self.narrow(s.test, a, True)
        self.narrow(s.test, b, False)
        outs = []
        if self.feasible(a):
            outs += self.block(s.body, a)
        if self.feasible(b):
            outs += self.block(s.orelse, b)
        return outs

    def st_Try(self, s, st):
        if s.finalbody:
            raise Unsupported('try/finally')
        caught = []
        for h in s.handlers:
            if h.type is None:
                caught.append('*')
            elif isinstance(h.type, ast.Tuple):
                caught += [ast.unparse(e).split('.')[-1] for e in h.type.elts]
            else:
                caught.append(ast.unparse(h.type).split('.')[-1])
        self.try_stack.append(caught)
        try:
            outs = self.block(s.body, st)
        finally:
            self.try_stack.pop()
        res = []
        for o in outs:
            if o.kind == 'raise':
                handled = False
                for h in s.handlers:
                    names = ['*'] if h.type is None else (
                        [ast.unparse(e).split('.')[-1] for e in h.type.elts] if isinstance(h.type, ast.Tuple)
                        else [ast.unparse(h.type).split('.')[-1]])
                    if '*' in names or 'Exception' in names or 'BaseException' in names or o.exc in names:
                        if h.name:
                            o.st.env[h.name] = V(S.fresh('exc'), S.Any)
                        res += self.block(h.body, o.st)
                        handled = True
                        break
                if not handled:
                    res.append(o)
            elif o.kind == 'normal':
                res += self.block(s.orelse, o.st)
            else:
                res.append(o)
        return res

    def st_FunctionDef(self, s, st):
        # nested function: bound as an opaque callable; calling it is outside the subset
        st.env[s.name] = V(S.mk_fn(S.fresh('nested_fn', z3.IntSort())), S.Fn)
        return [Outcome('normal', st)]

    def st_With(self, s, st):
        raise Unsupported('with statement: ' + ast.unparse(s)[:60])

    # ---- assignment ------------------------------------------------------------------------------------------
    def assign(self, tgt, v, st):
        if isinstance(tgt, ast.Name):
            ty = self.c.local_types.get(tgt.id)
            if ty is not None and repr(ty) != repr(v.ty):
                self.oblige(st, f'type:local:{tgt.id}', S.has_type(v.t, ty, st.next_ref), kind='type')
                v = V(v.t, ty)
            st.env[tgt.id] = v
            return
        if isinstance(tgt, ast.Attribute):
            if self._is_static_chain(tgt, st):
                # assignment to a module-level name of another module (e.g. config.X = ...): tracked per path
                st.ghost['$global:' + ast.unparse(tgt)] = v
                return
            o = self.ev(tgt.value, st)
            self.set_attr(o, tgt.attr, v, st, ast.unparse(tgt))
            return
        if isinstance(tgt, ast.Subscript) and isinstance(tgt.slice, ast.Slice) and tgt.slice.lower is None and tgt.slice.upper is None \
                and tgt.slice.step is None:
            o = self.ev(tgt.value, st)
            if S.strip_opt(o.ty).kind == 'list' and v.ty.kind == 'list':
                # xs[:] = ys : replace the whole content in place
                st.set_field('list', z3.Store(st.field('list'), S.addr(o.t), st.sel('list', S.addr(v.t))))
                return
            raise Unsupported('slice assignment ' + ast.unparse(tgt))
        if isinstance(tgt, ast.Subscript):
            o = self.ev(tgt.value, st)
            oty = S.strip_opt(o.ty)
            if oty.kind == 'opaque':
                fn = self.reg.opaque_setitem.get(oty.name)
                if fn is None:
                    raise Unsupported(f'item store on {oty}: {ast.unparse(tgt)}')
                oty = self.obj_class(o, st, ast.unparse(tgt))
                self.used_trusted.add(fn.trusted_name)
                fn(self, st, V(o.t, oty), self.ev_key(tgt.slice, st), v)
                return
            k = self.ev(tgt.slice, st)
            self.set_item(o, k, v, st, ast.unparse(tgt))
            return
        if isinstance(tgt, (ast.Tuple, ast.List)):
            n = len(tgt.elts)
            seq, ets = self.as_fixed_seq(v, n, st, ast.unparse(tgt))
            for j, e in enumerate(tgt.elts):
                self.assign(e, V(seq[j], ets[j]), st)
            return
        raise Unsupported('assignment target ' + ast.unparse(tgt))

    def as_fixed_seq(self, v, n, st, desc):
        """view v as a sequence of exactly n elements (tuple or list); emits the unpack safety obligation"""
        k = v.ty.kind
        if k == 'tuple':
            if len(v.ty.ts) != n:
                self.safety(st, 'ValueError', 'unpack ' + desc, z3.BoolVal(False))
            return S.items(v.t), list(v.ty.ts)
        if k == 'tupleof':
            self.safety(st, 'ValueError', 'unpack ' + desc, z3.Length(S.items(v.t)) == n)
            return S.items(v.t), [v.ty.t] * n
        if k == 'list':
            seq = st.sel('list', S.addr(v.t))
            self.safety(st, 'ValueError', 'unpack ' + desc, z3.Length(seq) == n)
            return seq, [v.ty.t] * n
        if k == 'any':
            self.safety(st, 'TypeError', 'unpack ' + desc, z3.And(S.is_tup(v.t), z3.Length(S.items(v.t)) == n))
            return S.items(v.t), [S.Any] * n
        raise Unsupported(f'unpack of {v.ty}')

    def obj_class(self, o, st, desc):
        """static class of a heap object value (narrowing Opt through a safety obligation)"""
        ty = o.ty
        if ty.kind == 'opt':
            self.safety(st, 'AttributeError', desc + ' on None', z3.Not(S.is_none(o.t)))
            ty = ty.t
        return ty

    def set_attr(self, o, attr, v, st, desc):
        ty = self.obj_class(o, st, desc)
        if ty.kind == 'opaque':
            fn = self.reg.opaque_setattr.get((ty.name, attr))
            if fn is not None:
                self.used_trusted.add(fn.trusted_name)
                fn(self, st, V(o.t, ty), v)
                return
        if ty.kind not in ('obj',):
            raise Unsupported(f'attribute store on {ty}: {desc}')
        ci = self.class_info(ty.cls)
        if ci is None:
            raise Unsupported(f'class {ty.cls} has no ClassInfo')
        fty = self.field_type(ci, attr)
        if fty is None:
            raise Unsupported(f'{ty.cls}.{attr} has no declared type')
        if fty.kind != 'any' and repr(fty) != repr(v.ty):
            self.oblige(st, f'type:field:{ty.cls}.{attr}@{desc}', S.has_type(v.t, fty, st.next_ref), kind='type')
        f = 'attr:' + attr
        st.set_field(f, z3.Store(st.field(f), S.addr(o.t), v.t))

    def field_type(self, ci, attr):
        seen = set()
        todo = [ci.name]
        while todo:
            c = todo.pop(0)
            if c in seen:
                continue
            seen.add(c)
            info = self.reg.classes.get(c)
            if info is None:
                continue
            if attr in info.fields:
                return info.fields[attr]
            todo.extend(info.bases)
        if self.lenient:
            # changed code uses an attribute the contracts do not know: an untyped field (reads are unconstrained)
            self.notes.append(f'lenient: attribute {ci.name}.{attr} has no declared type; treated as untyped')
            return S.Any
        if not any(attr in info.fields for info in self.reg.classes.values()):
            # an attribute NO class of this registry declares (e.g. a statistics counter added next to the mechanism): no specification can mention it. It is an
            # untyped heap field of its own, tracked inside this function, arbitrary at entry, havocked at every call (any callee may write it) and exempt from the
            # frame conditions (which are about the declared state)
            if not hasattr(self, 'unmodelled_attrs'):
                self.unmodelled_attrs = set()
            if attr not in self.unmodelled_attrs:
                self.unmodelled_attrs.add(attr)
                self.notes.append(f'attribute {ci.name}.{attr} is not declared by any contract class: unmodelled field (havocked at calls, outside the frame conditions)')
            return S.Any
        return None

    def set_item(self, o, k, v, st, desc):
        ty = self.obj_class(o, st, desc)
        a = S.addr(o.t)
        if ty.kind == 'dict':
            self.check_elem_type(st, k, ty.k, f'type:key@{desc}')
            self.check_elem_type(st, v, ty.v, f'type:value@{desc}')
            dom, val = st.field('dom'), st.field('val')
            if self.track_keys:
                keys = st.field('keys')
                had = st.sel2('dom', a, k.t)
                st.set_field('keys', z3.Store(keys, a, z3.If(had, st.sel('keys', a), z3.Concat(st.sel('keys', a), z3.Unit(k.t)))))
            st.set_field('dom', z3.Store(dom, a, z3.Store(st.sel('dom', a), k.t, True)))
            st.set_field('val', z3.Store(val, a, z3.Store(st.sel('val', a), k.t, v.t)))
            return
        if ty.kind == 'list':
            self.check_elem_type(st, v, ty.t, f'type:elem@{desc}')
            lst = st.field('list')
            seq = st.sel('list', a)
            i = self.index_term(k, seq, st, desc)
            n = z3.Length(seq)
            new = z3.Concat(z3.Extract(seq, 0, i), z3.Unit(v.t), z3.Extract(seq, i + 1, n - i - 1))
            st.set_field('list', z3.Store(lst, a, new))
            return
        if ty.kind == 'any' and self.lenient:
            # store into a container of unknown type: any list/dict/set content may have changed
            self.notes.append(f'lenient: item store on an untyped value ({desc}) havocs all container content')
            for fld in ('list', 'dom', 'val'):
                newt = S.fresh('uk_' + fld, st.field(fld).sort())
                st.set_field(fld, newt)
                for ax in self.heap_axioms(fld, newt, st.next_ref):
                    st.assume(ax)
                self.register_epoch(newt, st.next_ref)
            return
        raise Unsupported(f'item store on {ty}: {desc}')

    track_keys = False

    def check_elem_type(self, st, v, ty, name):
        if ty.kind == 'any' or repr(ty) == repr(v.ty):
            return
        self.oblige(st, name, S.has_type(v.t, ty, st.next_ref), kind='type')

    def index_term(self, k, seq, st, desc):
        if k.ty.kind not in ('int', 'any'):
            raise Unsupported(f'index of type {k.ty}')
        if k.ty.kind == 'any':
            self.safety(st, 'TypeError', 'index ' + desc, S.is_int(k.t))
        i = S.ival(k.t)
        n = z3.Length(seq)
        si = z3.simplify(i)
        if z3.is_int_value(si) and si.as_long() >= 0:
            # a non-negative literal index: only the upper bound can fail (the lower one is `|seq| >= 0`, which z3 does not always find in a large context)
            self.safety(st, 'IndexError', desc, si < n)
            return si
        self.safety(st, 'IndexError', desc, z3.And(i >= -n, i < n))
        return z3.If(i < 0, i + n, i)

    # ---- expressions -------------------------------------------------------------------------------------------
    def ev(self, e, st):
        m = getattr(self, 'ev_' + type(e).__name__, None)
        if m is None:
            raise Unsupported(f'expression {type(e).__name__}: {ast.unparse(e)[:80]}')
        return m(e, st)

    def ev_Constant(self, e, st):
        v = e.value
        if isinstance(v, float):
            return V(S.mk_flt(S.fresh('fltconst', z3.IntSort())), S.Float)
        t, ty = const_to_term(v)
        return V(t, ty)

    def ev_Name(self, e, st):
        if e.id in st.env:
            return st.env[e.id]
        if e.id in ('True', 'False', 'None'):
            return self.ev_Constant(ast.Constant({'True': True, 'False': False, 'None': None}[e.id]), st)
        # assigned somewhere in the function but not on this path -> UnboundLocalError
        if e.id in self.assigned_names():
            self.safety(st, 'UnboundLocalError', e.id, z3.BoolVal(False))
            return V(S.fresh('unbound_' + e.id), S.Any)
        cv = self.reg.const_values.get(e.id)
        if cv is not None:
            return cv(self, st)
        try:
            c = source.resolve_name(self.mod, e.id)
        except source.ConstError as x:
            raise Unsupported(f'name {e.id}: {x}')
        return self.const_value(c, st)

    def assigned_names(self):
        if not hasattr(self, '_assigned'):
            s = set()
            for n in ast.walk(self.fn):
                if isinstance(n, ast.Name) and isinstance(n.ctx, (ast.Store, ast.Del)):
                    s.add(n.id)
            self._assigned = s
        return self._assigned

    def const_value(self, c, st):
        if isinstance(c, (source.ModuleNS, source.EnumNS)):
            raise Unsupported(f'namespace {c} used as a value')
        if isinstance(c, (list, set, dict)):
            return self.alloc_const_container(c, st)
        t, ty = const_to_term(c)
        return V(t, ty)

    def alloc_const_container(self, c, st):
        if isinstance(c, list):
            parts = [const_to_term(x) for x in c]
            r = self.alloc(st, 'list')
            st.set_field('list', z3.Store(st.field('list'), S.addr(r), S.seq_of(*[p[0] for p in parts])))
            ety = parts[0][1] if parts and all(repr(p[1]) == repr(parts[0][1]) for p in parts) else S.Any
            return V(r, S.List(ety))
        raise Unsupported(f'constant container {type(c).__name__}')

    def ev_Attribute(self, e, st):
        gk = '$global:' + ast.unparse(e)
        if gk in st.ghost:
            return st.ghost[gk]
        cv = self.reg.const_values.get(ast.unparse(e))
        if cv is not None and self._is_static_chain(e, st):
            return cv(self, st)
        # module constants / enums first
        try:
            c = source.const_eval(self.mod, e) if self._is_static_chain(e, st) else None
            if c is not None or self._is_static_chain(e, st):
                return self.const_value(c, st)
        except source.ConstError as x:
            raise Unsupported(f'{ast.unparse(e)}: {x}')
        o = self.ev(e.value, st)
        return self.get_attr(o, e.attr, st, ast.unparse(e))

    def _is_static_chain(self, e, st):
        cur = e
        while isinstance(cur, ast.Attribute):
            cur = cur.value
        return isinstance(cur, ast.Name) and cur.id not in st.env and cur.id not in self.assigned_names() and (
            cur.id in self.mod.imports or cur.id in self.mod.assigns)

    def get_attr(self, o, attr, st, desc):
        ty = self.obj_class(o, st, desc)
        if ty.kind == 'obj':
            ci = self.class_info(ty.cls)
            if ci is None:
                raise Unsupported(f'class {ty.cls} has no ClassInfo ({desc})')
            fty = self.field_type(ci, attr)
            if fty is None:
                raise Unsupported(f'{ty.cls}.{attr} has no declared type ({desc})')
            t = st.sel('attr:' + attr, S.addr(o.t))
            st.assume(S.has_type(t, fty, st.next_ref))
            rv = V(t, fty)
            if attr in getattr(self, 'unmodelled_attrs', ()):
                rv.um = True
            return rv
        if ty.kind == 'val':
            ci = self.class_info(ty.cls)
            if attr not in ci.fields:
                raise Unsupported(f'{ty.cls}.{attr} unknown ({desc})')
            t = S.vfield(ty.cls, attr, o.t)
            fty = ci.fields[attr]
            st.assume(S.has_type(t, fty, st.next_ref))
            return V(t, fty)
        if ty.kind == 'opaque':
            fn = self.reg.opaque_getattr.get((ty.name, attr))
            if fn is not None:
                self.used_trusted.add(fn.trusted_name)
                return fn(self, st, V(o.t, ty))
        if ty.kind == 'any' and not any(attr in info.fields for info in self.reg.classes.values()) and not attr.startswith('__'):
            # reading an attribute no contract class declares from an untyped value (e.g. self.options.debug): an unknown value, like an unmodelled attribute
            self.notes.append(f'attribute {attr} read from an untyped value ({desc}): unknown value')
            rv = V(S.fresh('um_attr'), S.Any)
            rv.um = True
            st.assume(below(rv.t, st.next_ref))
            return rv
        raise Unsupported(f'attribute {attr} on {ty} ({desc})')

    def ev_Tuple(self, e, st):
        vs = [self.ev(x, st) for x in e.elts]
        return V(S.mk_tup(S.seq_of(*[v.t for v in vs])), S.Tuple(*[v.ty for v in vs]))

    def ev_List(self, e, st):
        vs = [self.ev(x, st) for x in e.elts]
        r = self.alloc(st, 'list')
        st.set_field('list', z3.Store(st.field('list'), S.addr(r), S.seq_of(*[v.t for v in vs])))
        ety = vs[0].ty if vs and all(repr(v.ty) == repr(vs[0].ty) for v in vs) else S.Any
        return V(r, S.List(ety))

    def ev_Dict(self, e, st):
        r = self.alloc(st, 'dict')
        a = S.addr(r)
        dom = z3.K(S.PyObj(), z3.BoolVal(False))
        val = z3.K(S.PyObj(), S.NONE())
        kt = vt = None
        keys = S.empty_seq()
        for k, v in zip(e.keys, e.values):
            if k is None:
                raise Unsupported('dict unpacking')
            kv, vv = self.ev(k, st), self.ev(v, st)
            if self.track_keys:
                keys = z3.If(z3.Select(dom, kv.t), keys, z3.Concat(keys, z3.Unit(kv.t)))
            dom = z3.Store(dom, kv.t, True)
            val = z3.Store(val, kv.t, vv.t)
            kt = kv.ty if kt is None or repr(kt) == repr(kv.ty) else S.Any
            vt = vv.ty if vt is None or repr(vt) == repr(vv.ty) else S.Any
        st.set_field('dom', z3.Store(st.field('dom'), a, dom))
        st.set_field('val', z3.Store(st.field('val'), a, val))
        if self.track_keys:
            st.set_field('keys', z3.Store(st.field('keys'), a, keys))
        return V(r, S.Dict(kt or S.Any, vt or S.Any))

    def ev_Set(self, e, st):
        r = self.alloc(st, 'set')
        dom = z3.K(S.PyObj(), z3.BoolVal(False))
        kt = None
        for k in e.elts:
            kv = self.ev(k, st)
            dom = z3.Store(dom, kv.t, True)
            kt = kv.ty if kt is None or repr(kt) == repr(kv.ty) else S.Any
        st.set_field('dom', z3.Store(st.field('dom'), S.addr(r), dom))
        return V(r, S.Set(kt or S.Any))

    def alloc(self, st, clsname):
        a = st.next_ref
        st.next_ref = a + 1
        st.assume(S.tyof(a) == S.type_id(clsname))
        return S.mk_ref(a)

    def ev_Subscript(self, e, st):
        sp = self._split_index(e, st)
        if sp is not None:
            return sp
        o = self.ev(e.value, st)
        desc = ast.unparse(e)
        ty = self.obj_class(o, st, desc)
        if ty.kind == 'opaque':
            fn = self.reg.opaque_getitem.get(ty.name)
            if fn is None:
                raise Unsupported(f'subscript on {ty}: {desc}')
            self.used_trusted.add(fn.trusted_name)
            return fn(self, st, V(o.t, ty), self.ev_key(e.slice, st))
        if isinstance(e.slice, ast.Slice):
            return self.ev_slice(o, ty, e.slice, st, desc)
        k = self.ev(e.slice, st)
        return self.get_item(o, ty, k, st, desc)

    def ev_key(self, node, st):
        """subscript key for opaque objects: a value, ('slice', lo, hi) or a tuple of those"""
        if isinstance(node, ast.Slice):
            if node.step is not None:
                raise Unsupported('slice step')
            return ('slice', self.ev(node.lower, st) if node.lower is not None else None, self.ev(node.upper, st) if node.upper is not None else None)
        if isinstance(node, ast.Tuple):
            return tuple(self.ev_key(x, st) for x in node.elts)
        return self.ev(node, st)

    def _split_index(self, e, st):
        """`s.split(sep)[0]` and `s.split(sep)[-1]` with a non-empty constant separator, without materialising the list"""
        v = e.value
        if not (isinstance(v, ast.Call) and isinstance(v.func, ast.Attribute) and v.func.attr == 'split' and len(v.args) == 1
                and not v.keywords and isinstance(e.slice, (ast.Constant, ast.UnaryOp))):
            return None
        try:
            idx = ast.literal_eval(e.slice)
        except Exception:      # noqa
            return None
        if idx not in (0, -1):
            return None
        recv = self.ev(v.func.value, st)
        sep = self.ev(v.args[0], st)
        if recv.ty.kind != 'str' or sep.ty.kind != 'str':
            return None
        s_, p_ = S.sval(recv.t), S.sval(sep.t)
        self.safety(st, 'ValueError', 'empty separator ' + ast.unparse(e), z3.Length(p_) > 0)
        if idx == 0:
            k = z3.IndexOf(s_, p_, 0)
            return V(S.mk_str(z3.If(k < 0, s_, z3.SubString(s_, 0, k))), S.Str)
        k = z3.LastIndexOf(s_, p_)
        return V(S.mk_str(z3.If(k < 0, s_, z3.SubString(s_, k + z3.Length(p_), z3.Length(s_) - k - z3.Length(p_)))), S.Str)

    def get_item(self, o, ty, k, st, desc):
        if ty.kind == 'dict':
            a = S.addr(o.t)
            self.safety(st, 'KeyError', desc, st.sel2('dom', a, k.t))
            t = st.sel2('val', a, k.t)
            st.assume(S.has_type(t, ty.v, st.next_ref))
            return V(t, ty.v)
        if ty.kind == 'list':
            seq = st.sel('list', S.addr(o.t))
            i = self.index_term(k, seq, st, desc)
            t = S.at(seq, i)
            st.assume(S.has_type(t, ty.t, st.next_ref))
            st.note_epoch(seq, t)
            return V(t, ty.t)
        if ty.kind in ('tupleof', 'tuple'):
            seq = S.items(o.t)
            if ty.kind == 'tuple' and isinstance(k.t, z3.ExprRef) and z3.is_app(k.t):
                sk = z3.simplify(k.t)
                # constant index into a fixed tuple: precise element type
                try:
                    ci = z3.simplify(S.ival(sk)).as_long()
                    if -len(ty.ts) <= ci < len(ty.ts):
                        et = ty.ts[ci]
                        t = seq[ci % len(ty.ts)]
                        st.assume(S.has_type(t, et, st.next_ref))
                        return V(t, et)
                except Exception:
                    pass
            i = self.index_term(k, seq, st, desc)
            et = ty.t if ty.kind == 'tupleof' else S.Any
            t = S.at(seq, i) if ty.kind == 'tupleof' else seq[i]
            st.assume(S.has_type(t, et, st.next_ref))
            return V(t, et)
        if ty.kind == 'str':
            s = S.sval(o.t)
            i = self.index_term(k, s, st, desc)
            return V(S.mk_str(z3.SubString(s, i, 1)), S.Str)
        if ty.kind in ('val', 'obj'):
            mc = self.find_method_contract(ty.cls, '__getitem__')
            if mc is not None:
                return self.call_contract(mc, [o, k], {}, st, desc)
        if ty.kind == 'any':
            if self.lenient:
                self.notes.append(f'lenient: subscript on an untyped value ({desc}) yields an unconstrained value')
                return V(S.fresh('uk_item'), S.Any)
            raise Unsupported(f'subscript on untyped value: {desc}')
        raise Unsupported(f'subscript on {ty}: {desc}')

    def ev_slice(self, o, ty, sl, st, desc):
        if sl.step is not None:
            raise Unsupported('slice step')
        if ty.kind == 'str':
            seq = S.sval(o.t)
        elif ty.kind == 'list':
            seq = st.sel('list', S.addr(o.t))
        elif ty.kind in ('tupleof', 'tuple'):
            seq = S.items(o.t)
        else:
            raise Unsupported(f'slice of {ty}')
        n = z3.Length(seq)

        def bound(node, default):
            if node is None:
                return default
            v = self.ev(node, st)
            if v.ty.kind != 'int':
                raise Unsupported('slice bound type')
            i = S.ival(v.t)
            i = z3.If(i < 0, i + n, i)
            return z3.If(i < 0, z3.IntVal(0), z3.If(i > n, n, i))
        lo, hi = bound(sl.lower, z3.IntVal(0)), bound(sl.upper, n)
        ln = z3.If(hi > lo, hi - lo, z3.IntVal(0))
        sub = z3.Extract(seq, lo, ln)
        if ty.kind == 'str':
            return V(S.mk_str(sub), S.Str)
        if ty.kind == 'list':
            r = self.alloc(st, 'list')
            st.set_field('list', z3.Store(st.field('list'), S.addr(r), sub))
            return V(r, ty)
        et = ty.t if ty.kind == 'tupleof' else S.Any
        return V(S.mk_tup(sub), S.TupleOf(et))

    def ev_UnaryOp(self, e, st):
        v = self.ev(e.operand, st)
        if isinstance(e.op, ast.Not):
            return V(S.mk_bool(z3.Not(self.truth(v, st))), S.Bool)
        if isinstance(e.op, ast.USub):
            if v.ty.kind != 'int':
                raise Unsupported('unary minus on ' + repr(v.ty))
            return V(S.mk_int(-S.ival(v.t)), S.Int)
        raise Unsupported('unary ' + type(e.op).__name__)

    def _guarded_eval(self, st, base, guard_idx):
        """re-add everything appended to pc since `base` as implications of the guards that preceded it"""
        tail = st.pc[base:]
        del st.pc[base:]
        cur = []
        for j, f in enumerate(tail):
            if (base + j) in guard_idx:
                cur.append(f)
            else:
                st.assume(z3.Implies(z3.And(*cur), f) if cur else f)

    @staticmethod
    def _pure_alloc_expr(node):
        return isinstance(node, (ast.List, ast.Dict, ast.Set, ast.Tuple, ast.Constant, ast.ListComp, ast.SetComp, ast.DictComp))

    def _heap_snapshot(self, st):
        return dict(st.heap)

    def _heap_changed(self, st, snap):
        for k, v in st.heap.items():
            if k in snap:
                if not (v is snap[k] or v.eq(snap[k])):
                    return True
            else:
                init = self.init_heap.get(k)
                if init is not None and not (v is init or v.eq(init)):
                    return True
        return False

    def ev_BoolOp(self, e, st):
        # short-circuit: later operands are evaluated under the guard of the earlier ones
        is_and = isinstance(e.op, ast.And)
        vals, truths = [], []
        base = len(st.pc)
        guard_idx = set()
        saved_env = dict(st.env)
        next0 = st.next_ref
        for j, x in enumerate(e.values):
            snap = self._heap_snapshot(st)
            if j > 0:
                # later operands are evaluated knowing the earlier ones were true (and) / false (or): refine static types accordingly
                self.narrow(e.values[j - 1], st, is_and)
            v = self.ev(x, st)
            if j > 0 and self._heap_changed(st, snap) and not self._pure_alloc_expr(x):
                raise Unsupported('heap effect inside a short-circuit operand: ' + ast.unparse(e)[:60])
            t = self.truth(v, st)
            vals.append(v)
            truths.append(t)
            guard_idx.add(len(st.pc))
            st.pc.append(t if is_and else z3.Not(t))
        self._guarded_eval(st, base, guard_idx)
        if st.next_ref is not next0:
            # the allocation counter only grows; when a later operand is skipped its (then unconstrained) counter symbol is chosen >= the earlier one
            st.assume(st.next_ref >= next0)
        for k_, v_ in saved_env.items():
            if k_ in st.env and st.env[k_].t is v_.t:
                st.env[k_] = v_            # undo the narrowing (the terms are unchanged; only the static types were refined)
        if all(v.ty.kind == 'bool' for v in vals):
            bs = [S.bval(v.t) for v in vals]
            return V(S.mk_bool(z3.And(*bs) if is_and else z3.Or(*bs)), S.Bool)
        res = vals[-1].t
        for v, t in zip(reversed(vals[:-1]), reversed(truths[:-1])):
            res = z3.If(t, res, v.t) if is_and else z3.If(t, v.t, res)
        tys = {repr(v.ty) for v in vals}
        return V(res, vals[0].ty if len(tys) == 1 else S.Any, truth_hint=(z3.And(*truths) if is_and else z3.Or(*truths)))

    def ev_IfExp(self, e, st):
        c = self.truth(self.ev(e.test, st), st)
        res = []
        for cond, node in ((c, e.body), (z3.Not(c), e.orelse)):
            base = len(st.pc)
            st.pc.append(cond)
            snap = self._heap_snapshot(st)
            v = self.ev(node, st)
            if self._heap_changed(st, snap) and not self._pure_alloc_expr(node):
                raise Unsupported('heap effect inside a conditional expression: ' + ast.unparse(e)[:60])
            self._guarded_eval(st, base, {base})
            res.append(v)
        a, b = res
        ty = a.ty if repr(a.ty) == repr(b.ty) else S.Any
        return V(z3.If(c, a.t, b.t), ty)

    def ev_Compare(self, e, st):
        left = self.ev(e.left, st)
        if len(e.ops) == 1 and S.strip_opt(left.ty).kind == 'opaque' and not isinstance(e.ops[0], (ast.Is, ast.IsNot)):
            fn = self.reg.opaque_compare.get(S.strip_opt(left.ty).name)
            if fn is not None:
                self.used_trusted.add(fn.trusted_name)
                return fn(self, st, left, type(e.ops[0]).__name__, self.ev(e.comparators[0], st))
        res = []
        for op, rn in zip(e.ops, e.comparators):
            right = self.ev(rn, st)
            res.append(self.compare(op, left, right, st, ast.unparse(e)))
            left = right
        return V(S.mk_bool(z3.And(*res) if len(res) > 1 else res[0]), S.Bool)

    def compare(self, op, l, r, st, desc):
        if isinstance(op, ast.Is):
            return l.t == r.t
        if isinstance(op, ast.IsNot):
            return l.t != r.t
        if isinstance(op, (ast.Eq, ast.NotEq)):
            b = self.equal(l, r, st, desc)
            return b if isinstance(op, ast.Eq) else z3.Not(b)
        if isinstance(op, (ast.In, ast.NotIn)):
            b = self.contains(r, l, st, desc)
            return b if isinstance(op, ast.In) else z3.Not(b)
        if isinstance(op, (ast.Lt, ast.LtE, ast.Gt, ast.GtE)):
            lk, rk = l.ty.kind, r.ty.kind
            if lk == 'any':
                self.safety(st, 'TypeError', 'order ' + desc, S.is_int(l.t)); lk = 'int'
            if rk == 'any':
                self.safety(st, 'TypeError', 'order ' + desc, S.is_int(r.t)); rk = 'int'
            if lk == 'int' and rk == 'int':
                a, b = S.ival(l.t), S.ival(r.t)
                return {ast.Lt: a < b, ast.LtE: a <= b, ast.Gt: a > b, ast.GtE: a >= b}[type(op)]
            raise Unsupported(f'ordering of {l.ty} and {r.ty}: {desc}')
        raise Unsupported('comparison ' + type(op).__name__)

    PRIM = ('int', 'str', 'none', 'bool', 'val', 'tuple', 'tupleof', 'float', 'fn')

    def equal(self, l, r, st, desc):
        lk, rk = S.strip_opt(l.ty).kind, S.strip_opt(r.ty).kind
        for side, k in ((l, lk), (r, rk)):
            if k in ('obj', 'val'):
                ci = self.class_info(S.strip_opt(side.ty).cls)
                if ci is not None and ci.eq == 'custom':
                    raise Unsupported(f'== on class with custom __eq__ not modelled structurally: {desc}')
        if lk in self.PRIM or rk in self.PRIM:
            return l.t == r.t
        if lk == 'obj' or rk == 'obj':
            return l.t == r.t      # identity (ClassInfo.eq is None)
        if lk == 'list' and rk == 'list':
            h = st.field('list')
            return st.sel('list', S.addr(l.t)) == st.sel('list', S.addr(r.t))
        if lk == 'set' and rk == 'set':
            return st.sel('dom', S.addr(l.t)) == st.sel('dom', S.addr(r.t))      # extensional: same members
        raise Unsupported(f'== between {l.ty} and {r.ty}: {desc}')

    def contains(self, c, x, st, desc):
        ty = self.obj_class(c, st, desc)
        k = ty.kind
        if k in ('dict', 'set'):
            return st.sel2('dom', S.addr(c.t), x.t)
        if k == 'list':
            return S.member(st.sel('list', S.addr(c.t)), x.t)
        if k in ('tupleof', 'tuple'):
            return S.member(S.items(c.t), x.t)
        if k == 'str':
            if x.ty.kind != 'str':
                self.safety(st, 'TypeError', 'in ' + desc, S.is_str(x.t))
            return z3.Contains(S.sval(c.t), S.sval(x.t))
        if k in ('val', 'obj'):
            mc = self.find_method_contract(ty.cls, '__contains__')
            if mc is not None:
                v = self.call_contract(mc, [c, x], {}, st, desc)
                return self.truth(v, st)
        if k == 'any':
            # dynamic container: str (substring), tuple/list (element), dict/set (key); anything else raises TypeError
            t = c.t
            a = S.addr(t)
            is_cls = lambda n: z3.And(S.is_ref(t), S.tyof(a) == S.type_id(n))
            self.safety(st, 'TypeError', '`in` ' + desc, z3.Or(z3.And(S.is_str(t), S.is_str(x.t)), S.is_tup(t), is_cls('list'), is_cls('dict'), is_cls('set')))
            return z3.If(S.is_str(t), z3.Contains(S.sval(t), S.sval(x.t)),
                   z3.If(S.is_tup(t), S.member(S.items(t), x.t),
                   z3.If(is_cls('list'), S.member(st.sel('list', a), x.t),
                         z3.Select(st.sel('dom', a), x.t))))
        raise Unsupported(f'`in` on {ty}: {desc}')

    def ev_BinOp(self, e, st):
        l = self.ev(e.left, st)
        r = self.ev(e.right, st)
        return self.binop(e.op, l, r, st, ast.unparse(e))

    def binop(self, op, l, r, st, desc):
        if getattr(l, 'um', False) or getattr(r, 'um', False):
            # arithmetic on an unmodelled attribute (see field_type): the result is as unknown as the operand; whether it can raise is not examined
            v = V(S.fresh('um_val'), S.Any)
            v.um = True
            st.assume(below(v.t, st.next_ref))
            return v
        lk, rk = l.ty.kind, r.ty.kind
        if lk == 'any' and rk in ('int', 'str'):
            self.safety(st, 'TypeError', desc, S.has_type(l.t, r.ty)); lk = rk
        if rk == 'any' and lk in ('int', 'str'):
            self.safety(st, 'TypeError', desc, S.has_type(r.t, l.ty)); rk = lk
        if lk == 'int' and rk == 'int':
            a, b = S.ival(l.t), S.ival(r.t)
            if isinstance(op, ast.Add): return V(S.mk_int(a + b), S.Int)
            if isinstance(op, ast.Sub): return V(S.mk_int(a - b), S.Int)
            if isinstance(op, ast.Mult): return V(S.mk_int(a * b), S.Int)
            if isinstance(op, ast.FloorDiv):
                self.safety(st, 'ZeroDivisionError', desc, b != 0)
                # python floor division == SMT div for positive divisor; general case via floor semantics
                q = z3.If(b > 0, a / b, -((-a) / (-b)) if False else z3.If(a % b == 0, a / b, (a / b) - z3.If(b < 0, 0, 0)))
                if z3.is_int_value(z3.simplify(b)) and z3.simplify(b).as_long() > 0:
                    return V(S.mk_int(a / b), S.Int)
                raise Unsupported('floor division by a non-constant or non-positive divisor')
            if isinstance(op, ast.Mod):
                self.safety(st, 'ZeroDivisionError', desc, b != 0)
                if z3.is_int_value(z3.simplify(b)) and z3.simplify(b).as_long() > 0:
                    return V(S.mk_int(a % b), S.Int)
                raise Unsupported('modulo by a non-constant or non-positive divisor')
            if isinstance(op, (ast.BitAnd, ast.BitOr, ast.BitXor)):
                lim = 2 ** BITW
                self.safety(st, 'BitRange', desc, z3.And(a >= 0, a < lim, b >= 0, b < lim))
                return V(S.mk_int(bitop(type(op), a, b)), S.Int)
            if isinstance(op, ast.Pow):
                sa, sb = z3.simplify(a), z3.simplify(b)
                if z3.is_int_value(sa) and z3.is_int_value(sb) and 0 <= sb.as_long() <= 64 and abs(sa.as_long()) <= 2 ** 32:
                    return V(S.mk_int(z3.IntVal(sa.as_long() ** sb.as_long())), S.Int)      # constant folding only
                if z3.is_int_value(sb) and 0 <= sb.as_long() <= 4:
                    r_ = z3.IntVal(1)
                    for _ in range(sb.as_long()):
                        r_ = r_ * a
                    return V(S.mk_int(r_), S.Int)
            if isinstance(op, (ast.LShift, ast.RShift)):
                sb = z3.simplify(b)
                if z3.is_int_value(sb) and 0 <= sb.as_long() <= 64:
                    self.safety(st, 'BitRange', desc, a >= 0)
                    return V(S.mk_int(a * (2 ** sb.as_long()) if isinstance(op, ast.LShift) else a / (2 ** sb.as_long())), S.Int)
            raise Unsupported('int operator ' + type(op).__name__)
        if lk == 'str' and rk == 'str' and isinstance(op, ast.Add):
            return V(S.mk_str(z3.Concat(S.sval(l.t), S.sval(r.t))), S.Str)
        if lk in ('tupleof', 'tuple') and rk in ('tupleof', 'tuple') and isinstance(op, ast.Add):
            if lk == 'tuple' and rk == 'tuple':
                ty = S.Tuple(*(l.ty.ts + r.ty.ts))
            else:
                lt = l.ty.t if lk == 'tupleof' else _join_types(l.ty.ts)
                rt = r.ty.t if rk == 'tupleof' else _join_types(r.ty.ts)
                ty = S.TupleOf(lt if repr(lt) == repr(rt) else S.Any)
            return V(S.mk_tup(z3.Concat(S.items(l.t), S.items(r.t))), ty)
        if lk == 'list' and rk == 'list' and isinstance(op, ast.Add):
            h = st.field('list')
            seq = z3.Concat(st.sel('list', S.addr(l.t)), st.sel('list', S.addr(r.t)))
            nr = self.alloc(st, 'list')
            st.set_field('list', z3.Store(st.field('list'), S.addr(nr), seq))
            return V(nr, l.ty if repr(l.ty) == repr(r.ty) else S.List(S.Any))
        if lk == 'set' and rk == 'set' and isinstance(op, (ast.BitOr, ast.BitAnd, ast.Sub)):
            h = st.field('dom')
            A, B = st.sel('dom', S.addr(l.t)), st.sel('dom', S.addr(r.t))
            x = z3.Const('sx', S.PyObj())
            f = {ast.BitOr: z3.Or, ast.BitAnd: z3.And, ast.Sub: lambda p, q: z3.And(p, z3.Not(q))}[type(op)]
            new = z3.Lambda([x], f(z3.Select(A, x), z3.Select(B, x)))
            nr = self.alloc(st, 'set')
            st.set_field('dom', z3.Store(st.field('dom'), S.addr(nr), new))
            return V(nr, l.ty if repr(l.ty) == repr(r.ty) else S.Set(S.Any))
        raise Unsupported(f'binary {type(op).__name__} on {l.ty}, {r.ty}: {desc}')

    def ev_JoinedStr(self, e, st):
        parts = []
        for p in e.values:
            if isinstance(p, ast.Constant):
                parts.append(z3.StringVal(p.value))
            elif isinstance(p, ast.FormattedValue):
                if p.format_spec is not None or p.conversion != -1:
                    raise Unsupported('f-string format spec')
                v = self.ev(p.value, st)
                parts.append(S.sval(self.to_str(v, st, ast.unparse(p.value)).t))
        if not parts:
            return V(S.mk_str(''), S.Str)
        return V(S.mk_str(z3.Concat(*parts) if len(parts) > 1 else parts[0]), S.Str)

    def to_str(self, v, st, desc):
        k = v.ty.kind
        if k == 'str':
            return v
        if k == 'int':
            i = S.ival(v.t)
            return V(S.mk_str(z3.If(i >= 0, z3.IntToStr(i), z3.Concat(z3.StringVal('-'), z3.IntToStr(-i)))), S.Str)
        self.used_trusted.add('str(x) of a non-str/int value: an uninterpreted function of the value (for containers: of the reference)')
        sf = z3.Function('py_str', S.PyObj(), z3.StringSort())
        return V(S.mk_str(z3.If(S.is_str(v.t), S.sval(v.t), sf(v.t))), S.Str)

    def ev_Call(self, e, st):
        outs = self.ev_call_multi(e, st)
        vals = [o for o in outs if o.kind == 'value']
        others = [o for o in outs if o.kind != 'value']
        if others or len(vals) != 1 or vals[0].st is not st:
            raise Unsupported('call with several outcomes in expression position: ' + ast.unparse(e)[:80])
        return vals[0].val

    def ev_ListComp(self, e, st):
        """a list comprehension allocates a fresh list; its content is left unspecified, except that a pure filter
        `[x for x in xs if ...]` only contains elements of xs (sound over-approximation; the element/condition expressions are not evaluated)"""
        r = self.alloc(st, 'list')
        out = S.fresh('listcomp', S.SeqP())
        st.set_field('list', z3.Store(st.field('list'), S.addr(r), out))
        self.notes.append(f'list comprehension {ast.unparse(e)[:50]} modelled with unspecified content')
        if len(e.generators) == 1 and isinstance(e.elt, ast.Name) and isinstance(e.generators[0].target, ast.Name) \
                and e.elt.id == e.generators[0].target.id:
            try:
                src = self.ev(e.generators[0].iter, st)
                if src.ty.kind == 'list':
                    x = z3.Const('lcx', S.PyObj())
                    seq = st.sel('list', S.addr(src.t))
                    st.assume(z3.ForAll([x], z3.Implies(S.member(out, x), S.member(seq, x)), patterns=[S.member(out, x)]))
                    gen = e.generators[0]
                    if len(gen.ifs) == 1 and not gen.is_async:
                        # exact membership of a pure filter: x in out  <=>  x in xs and cond(x); cond is evaluated once for an arbitrary element v (a fresh constant that is
                        # then universally quantified); facts the evaluation assumes about v (typing of call results, ...) are kept inside the quantifier
                        v = S.fresh('lcv')
                        saved_env, n_pc, n_vc = dict(st.env), len(st.pc), len(self.vcs)
                        snap = self._heap_snapshot(st)
                        try:
                            st.pc.append(S.member(seq, v))
                            st.pc.append(S.has_type(v, src.ty.t, st.next_ref))
                            st.env[gen.target.id] = V(v, src.ty.t)
                            c_ = self.truth(self.ev(gen.ifs[0], st), st)
                            if self._heap_changed(st, snap):
                                raise Unsupported('heap effect in a comprehension condition')
                            facts = st.pc[n_pc + 2:]
                            del st.pc[n_pc:]
                            body = z3.And(z3.Implies(S.member(seq, v), z3.And(*facts)) if facts else z3.BoolVal(True), S.member(out, v) == z3.And(S.member(seq, v), c_))
                            st.assume(S.forall([v], body, patterns=[S.member(out, v), S.member(seq, v)]))
                            self.notes[-1] = f'list comprehension {ast.unparse(e)[:50]}: pure filter, membership modelled exactly (order and multiplicity are not)'
                        except Unsupported:
                            del st.pc[n_pc:]
                            del self.vcs[n_vc:]
                        finally:
                            st.env.clear()
                            st.env.update(saved_env)
                    return V(r, src.ty)
            except Unsupported:
                pass
        return V(r, S.List(S.Any))

    def ev_Lambda(self, e, st):
        return V(S.mk_fn(S.fresh('lambda', z3.IntSort())), S.Fn)

    # ---- truthiness ------------------------------------------------------------------------------------------------
    def truth(self, v, st):
        if getattr(v, 'truth_hint', None) is not None:
            return v.truth_hint
        k = v.ty.kind
        t = v.t
        if k == 'bool': return S.bval(t)
        if k == 'none': return z3.BoolVal(False)
        if k == 'int': return S.ival(t) != 0
        if k == 'str': return z3.Length(S.sval(t)) > 0
        if k in ('tupleof', 'tuple'): return z3.Length(S.items(t)) > 0
        if k == 'list': return z3.Length(st.sel('list', S.addr(t))) > 0
        if k in ('dict', 'set'):
            x = z3.Const('tk', S.PyObj())
            return z3.Exists([x], z3.Select(st.sel('dom', S.addr(t)), x))
        if k == 'opt':
            return z3.And(z3.Not(S.is_none(t)), self.truth(V(t, v.ty.t), st))
        if k in ('obj', 'val'):
            cls = v.ty.cls
            for m in ('__bool__', '__len__'):
                mc = self.find_method_contract(cls, m)
                if mc is not None:
                    r = self.call_contract(mc, [v], {}, st, f'truth({cls})')
                    return self.truth(r, st)
            ci = self.class_info(cls)
            if ci is not None and getattr(ci, 'has_len', False):
                raise Unsupported(f'truthiness of {cls} with __len__ but no contract')
            return z3.BoolVal(True)
        if k == 'opaque':
            fn = self.reg.opaque_truth.get(v.ty.name)
            if fn is not None:
                return fn(self, st, v)
            return z3.BoolVal(True)
        if k == 'fn':
            return z3.BoolVal(True)
        if k == 'float':
            raise Unsupported('truthiness of float')
        if k == 'any':
            return z3.If(S.is_bool(t), S.bval(t),
                   z3.If(S.is_none(t), z3.BoolVal(False),
                   z3.If(S.is_int(t), S.ival(t) != 0,
                   z3.If(S.is_str(t), z3.Length(S.sval(t)) > 0,
                   z3.If(S.is_tup(t), z3.Length(S.items(t)) > 0, self.truth_dyn_ref(t, st))))))
        raise Unsupported(f'truthiness of {v.ty}')

    def truth_dyn_ref(self, t, st):
        a = S.addr(t)
        x = z3.Const('tk', S.PyObj())
        return z3.If(z3.And(S.is_ref(t), S.tyof(a) == S.type_id('list')), z3.Length(st.sel('list', a)) > 0,
               z3.If(z3.And(S.is_ref(t), z3.Or(S.tyof(a) == S.type_id('dict'), S.tyof(a) == S.type_id('set'))),
                     z3.Exists([x], z3.Select(st.sel('dom', a), x)), z3.BoolVal(True)))

    # ---- calls -----------------------------------------------------------------------------------------------------
    def ev_call_multi(self, e, st):
        """returns a list of Outcome(kind='value'|'raise', ...)"""
        from . import builtins_model as bm
        return bm.dispatch_call(self, e, st)

    def bind_args(self, callee_fn, contract, args, kwargs, st, desc):
        """bind evaluated args to the callee's parameter names (defaults from the real AST, constants only)"""
        a = callee_fn.args
        if a.vararg or a.kwarg:
            raise Unsupported(f'call of {contract.name} with *args/**kwargs signature')
        names = [x.arg for x in a.posonlyargs + a.args]
        bound = {}
        if len(args) > len(names):
            raise Unsupported(f'too many positional args for {contract.name}')
        for n, v in zip(names, args):
            bound[n] = v
        for k, v in kwargs.items():
            if k in bound or (k not in names and k not in [x.arg for x in a.kwonlyargs]):
                raise Unsupported(f'bad keyword {k} for {contract.name}')
            bound[k] = v
        defaults = dict(zip(names[len(names) - len(a.defaults):], a.defaults))
        for x, d in zip(a.kwonlyargs, a.kw_defaults):
            if d is not None:
                defaults[x.arg] = d
        cm = source.load(contract.file)
        for n in names + [x.arg for x in a.kwonlyargs]:
            if n not in bound:
                if n not in defaults:
                    raise Unsupported(f'missing argument {n} for {contract.name} at {desc}')
                try:
                    cv = source.const_eval(cm, defaults[n])
                    t, ty = const_to_term(cv)
                except (source.ConstError, Unsupported) as x:
                    if contract.opaque:
                        t, ty = S.fresh('dflt_' + n), S.Any      # default object of an opaque callee: unconstrained
                    else:
                        raise Unsupported(f'default of {n} in {contract.name}: {x}')
                bound[n] = V(t, ty)
        return bound

    def call_contract(self, contract, args, kwargs, st, desc):
        outs = self.call_contract_multi(contract, args, kwargs, st, desc)
        vals = [o for o in outs if o.kind == 'value']
        if len(outs) != 1 or len(vals) != 1:
            raise Unsupported('callee with exceptional outcomes in expression position: ' + desc)
        return vals[0].val

    def call_contract_multi(self, contract, args, kwargs, st, desc):
        cm = source.load(contract.file)
        if contract.opaque and contract.qualname not in cm.functions:
            # generated function (dataclass __init__): positional binding by the contract's parameter order
            names = list(contract.params)
            if len(args) > len(names) or any(k not in names for k in kwargs):
                raise Unsupported(f'arguments of generated {contract.name} at {desc}')
            bound = dict(zip(names, args))
            bound.update(kwargs)
            for n in names:
                if n not in bound:
                    bound[n] = V(S.fresh('dflt_' + n), S.Any)
        else:
            fn = cm.function(contract.qualname)
            bound = self.bind_args(fn, contract, args, kwargs, st, desc)
        tag = self.uniq(f'call@{contract.qualname}')
        self.called_contracts.add(contract.key)
        bh = getattr(self.c, 'before_call_hooks', {}).get(contract.qualname)
        if bh is not None:
            bh(self, st, bound)       # third argument: the bound arguments {parameter name: V} of this call
        # parameter types
        for n, ty in contract.params.items():
            v = bound[n]
            if ty.kind != 'any' and repr(ty) != repr(v.ty):
                self.oblige(st, f'{tag}:pre:type:{n}', S.has_type(v.t, ty, st.next_ref), kind='type')
        p = NS({n: v.t for n, v in bound.items()})
        old = st.view()
        cx = Ctx(p=p, old=old, pre=old, new=old, cur=old, g=NS(st.ghost), ex=self, st=st, l=NS(), env={})
        for nm, f in contract.requires:
            self.oblige(st, f'{tag}:pre:{nm}', f(cx), kind='call-pre')
            st.assume(f(cx))
        # fields no contract knows about: any callee may write them
        for ua in sorted(getattr(self, 'unmodelled_attrs', ())):
            st.set_field('attr:' + ua, S.fresh('ua_' + ua, st.field('attr:' + ua).sort()))
        # havoc the frame
        m = dict(self.modifies_map(contract, cx))
        old_next = st.next_ref
        allocates = getattr(contract, 'allocates', True)
        if allocates:
            # content of objects the callee allocates (reachable from its result) lives in cells >= old_next: those cells
            # must not keep the (arbitrary but fixed) content of the pre-call arrays
            ff = contract.fresh_fields
            for f in (self.fresh_fields_of(contract.returns) if ff is None else set(ff)):
                m.setdefault(f, [])
        if '*' in m:
            # every heap field known so far may be modified, subject to the given predicate (True: anywhere)
            star = m.pop('*')
            for f in set(st.heap) | set(self.init_heap):
                if not f.startswith('ghost:'):
                    m.setdefault(f, star)
        if allocates:
            nn = S.fresh('next_ref', z3.IntSort())
            st.assume(nn >= old_next)
            st.next_ref = nn
        for fld, spec in m.items():
            oldt = st.field(fld)
            if spec is True:
                newt = S.fresh('hv_' + fld, oldt.sort())
            elif callable(spec):
                newt = S.fresh('hv_' + fld, oldt.sort())
                a = z3.Int('fa')
                body = z3.Implies(z3.And(a > 0, a < old_next, z3.Not(spec(a))), z3.Select(newt, a) == z3.Select(oldt, a))
                st.assume(z3.ForAll([a], body, patterns=[z3.Select(newt, a)]))
            else:
                newt = oldt
                for r in spec:
                    newt = z3.Store(newt, HeapView._a(r), S.fresh('hv_' + fld, oldt.sort().range()))
                if allocates:
                    # newly allocated objects may have arbitrary content
                    nt2 = S.fresh('hv_' + fld, oldt.sort())
                    a = z3.Int('fa')
                    st.assume(z3.ForAll([a], z3.Implies(z3.And(a > 0, a < old_next), z3.Select(nt2, a) == z3.Select(newt, a)),
                                        patterns=[z3.Select(nt2, a)]))
                    newt = nt2
            st.set_field(fld, newt)
            for ax in self.heap_axioms(fld, newt, st.next_ref):
                st.assume(ax)
            if z3.is_const(newt):
                self.register_epoch(newt, st.next_ref)
        res = S.fresh('ret_' + contract.qualname.replace('.', '_'))
        st.assume(below(res, st.next_ref))
        st.assume(S.has_type(res, contract.returns, st.next_ref))
        outs = []
        if contract.raises:
            for exc, posts in contract.raises.items():
                s2 = st.copy()
                cx2 = Ctx(p=p, old=old, pre=old, new=s2.view(), cur=s2.view(), g=NS(s2.ghost), ex=self, st=s2, res=S.NONE(), l=NS(), env={})
                cond = getattr(contract, 'raise_when', {}).get(exc)
                if cond is not None:
                    s2.assume(cond(cx2))
                for nm, f in posts:
                    s2.assume(f(cx2))
                if self.feasible(s2):
                    if self.catches(exc):
                        outs.append(Outcome('raise', s2, exc=exc))
                    else:
                        outs.append(Outcome('raise', s2, exc=exc))
            for exc, cond in getattr(contract, 'raise_when', {}).items():
                st.assume(z3.Not(cond(cx)))
        cx3 = Ctx(p=p, old=old, pre=old, new=st.view(), cur=st.view(), g=NS(st.ghost), ex=self, st=st, res=res, l=NS(), env={})
        for nm, f in contract.ensures:
            st.assume(f(cx3))
        if contract.opaque or contract.trusted:
            self.assumed_contracts.add(contract.name)
        hook = self.c.ghost_hooks.get('after_call:' + contract.qualname)
        if hook is not None:
            hook(self, st, bound, V(res, contract.returns), old)
        outs.insert(0, Outcome('value', st, V(res, contract.returns)))
        return outs

    def fresh_fields_of(self, ty, depth=0, seen=None):
        """heap fields that hold the content of a value of static type `ty` (one level of class fields deep)"""
        seen = seen if seen is not None else set()
        k = ty.kind
        out = set()
        if k in ('opt',):
            return self.fresh_fields_of(ty.t, depth, seen)
        if k == 'union':
            for t in ty.ts:
                out |= self.fresh_fields_of(t, depth, seen)
            return out
        if k == 'list':
            return {'list'} | self.fresh_fields_of(ty.t, depth + 1, seen)
        if k == 'dict':
            return {'dom', 'val'} | ({'keys'} if self.track_keys else set()) | self.fresh_fields_of(ty.k, depth + 1, seen) | self.fresh_fields_of(ty.v, depth + 1, seen)
        if k == 'set':
            return {'dom'} | self.fresh_fields_of(ty.k, depth + 1, seen)
        if k in ('tuple',):
            for t in ty.ts:
                out |= self.fresh_fields_of(t, depth + 1, seen)
            return out
        if k == 'tupleof':
            return self.fresh_fields_of(ty.t, depth + 1, seen)
        if k == 'obj' and ty.cls not in seen and depth < 3:
            seen.add(ty.cls)
            ci = self.class_info(ty.cls)
            if ci is not None:
                for f, ft in ci.fields.items():
                    out.add('attr:' + f)
                    out |= self.fresh_fields_of(ft, depth + 1, seen)
        return out

    def catches(self, exc):
        for c in reversed(self.try_stack):
            if '*' in c or 'Exception' in c or exc in c:
                return True
        return False

    # ---- loops -----------------------------------------------------------------------------------------------------
    def st_For(self, s, st):
        from . import loops
        return loops.exec_for(self, s, st)

    def st_While(self, s, st):
        from . import loops
        return loops.exec_while(self, s, st)

    def list_extend(self, lst, other, st):
        a = S.addr(lst.t)
        h = st.field('list')
        k = other.ty.kind
        if k == 'list':
            add = st.sel('list', S.addr(other.t))
        elif k in ('tuple', 'tupleof'):
            add = S.items(other.t)
        else:
            raise Unsupported(f'extend with {other.ty}')
        st.set_field('list', z3.Store(h, a, z3.Concat(st.sel('list', a), add)))


def _const_int(t):
    t = z3.simplify(t)
    return t.as_long() if z3.is_int_value(t) else None


def bit(x, b):
    """bit b (a power of two) of a non-negative integer, by integer arithmetic (no bit-vector conversion)"""
    return (x / b) % 2


def bitop(op, a, b, width=None):
    """&, |, ^ on non-negative ints < 2**BITW as linear integer arithmetic over the bits; when one operand is a
    constant only its set bits are expanded"""
    width = width or BITW
    ca, cb = _const_int(a), _const_int(b)
    if ca is not None and cb is None:
        a, b, ca, cb = b, a, cb, ca
    if cb is not None:
        bits = [1 << k for k in range(width) if (cb >> k) & 1]
        if op is ast.BitAnd:
            return z3.Sum([bit(a, p) * p for p in bits]) if bits else z3.IntVal(0)
        if op is ast.BitOr:
            return a + (z3.Sum([(1 - bit(a, p)) * p for p in bits]) if bits else 0)
        return a + (z3.Sum([(1 - 2 * bit(a, p)) * p for p in bits]) if bits else 0)
    terms = []
    for k in range(width):
        p = 1 << k
        x, y = bit(a, p), bit(b, p)
        if op is ast.BitAnd:
            terms.append(z3.If(z3.And(x == 1, y == 1), p, 0))
        elif op is ast.BitOr:
            terms.append(z3.If(z3.Or(x == 1, y == 1), p, 0))
        else:
            terms.append(z3.If(x != y, p, 0))
    return z3.Sum(terms)


import itertools as _it
_sk_counter = _it.count()


def _free_consts(t, limit=200):
    """names of uninterpreted constants in a term (bounded walk)"""
    out, todo, seen = set(), [t], 0
    while todo and seen < limit:
        x = todo.pop()
        seen += 1
        if z3.is_const(x) and x.decl().kind() == z3.Z3_OP_UNINTERPRETED:
            out.add(x.decl().name())
        elif z3.is_app(x):
            todo.extend(x.children())
    return out


def split_goal(goal, depth=0):
    """split a goal into (extra hypotheses, conjunct) pairs: And, Implies(_, And), If(c, A, B) at the top"""
    if depth <= 6 and z3.is_quantifier(goal) and goal.is_forall():
        # a universal goal is proved for fresh constants (skolemisation of the negated goal), then split further
        n = goal.num_vars()
        consts = [z3.Const(f'sk!{goal.var_name(i)}!{next(_sk_counter)}', goal.var_sort(i)) for i in range(n)]
        body = z3.substitute_vars(goal.body(), *reversed(consts))
        return split_goal(body, depth + 1)
    if depth > 6 or not z3.is_app(goal):
        return [([], goal)]
    if z3.is_and(goal):
        out = []
        for ch in goal.children():
            out += split_goal(ch, depth + 1)
        return out or [([], goal)]
    if z3.is_implies(goal):
        a, b = goal.children()
        sub = split_goal(b, depth + 1)
        if len(sub) > 1:
            return [([a] + g, x) for g, x in sub]
        return [([], goal)]
    if goal.decl().kind() == z3.Z3_OP_ITE and goal.sort() == z3.BoolSort():
        c, a, b = goal.children()
        return [([c] + g, x) for g, x in split_goal(a, depth + 1)] + [([z3.Not(c)] + g, x) for g, x in split_goal(b, depth + 1)]
    return [([], goal)]


def _as_load(t):
    import copy
    t2 = copy.deepcopy(t)
    for n in ast.walk(t2):
        if hasattr(n, 'ctx'):
            n.ctx = ast.Load()
    return t2


def _join_types(ts):
    if not ts:
        return S.Any
    r = ts[0]
    for t in ts[1:]:
        if repr(t) != repr(r):
            return S.Any
    return r
