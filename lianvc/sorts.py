"""Universal value sort `PyObj`, static types (hints) and shallow typing predicates.

Every Python value handled by the engine is a term of the z3 datatype PyObj:

    none | int(ival) | bool(bval) | str(sval) | ref(addr) | tup(items: Seq PyObj)
         | flt(fid)                      -- floats are opaque tokens (no arithmetic is modelled)
         | fn(fnid)                      -- opaque callables
         | v_<Cls>(field...)             -- one constructor per registered *value class*

Mutable objects (list, dict, set, class instances) are `ref(addr)`; their content lives in heap arrays
(engine.py).  `tyof : Int -> Int` gives the dynamic class of an address.

Value classes must be registered (register_value_class) before the first call of P().
"""
import itertools
import z3

_VALUE_CLASSES = {}      # name -> [field names]
_P = None
_CTOR = {}
_TYPE_IDS = {}


def register_value_class(name, fields):
    global _P
    if name in _VALUE_CLASSES:
        assert _VALUE_CLASSES[name] == list(fields), name
        return
    assert _P is None, "register_value_class after the PyObj sort was created"
    _VALUE_CLASSES[name] = list(fields)


def value_class_fields(name):
    return _VALUE_CLASSES.get(name)


def is_value_class(name):
    return name in _VALUE_CLASSES


class _Sort:
    """Lazily created PyObj sort and its constructors/accessors."""

    def __init__(self):
        ctors = ["(none)", "(int (ival Int))", "(bool (bval Bool))", "(str (sval String))", "(ref (addr Int))",
                 "(tup (items (Seq PyObj)))", "(flt (fid Int))", "(fn (fnid Int))"]
        for cname, fields in _VALUE_CLASSES.items():
            fs = " ".join(f"(v_{cname}__{f} PyObj)" for f in fields)
            ctors.append(f"(v_{cname} {fs})" if fields else f"(v_{cname})")
        txt = "(declare-datatypes ((PyObj 0)) ((%s)))\n(declare-const x__ PyObj)\n(assert (= x__ x__))" % " ".join(ctors)
        self.decl_text = "(declare-datatypes ((PyObj 0)) ((%s)))" % " ".join(ctors)
        f = z3.parse_smt2_string(txt)
        self.sort = f[0].arg(0).sort()
        s = self.sort
        self.idx = {}
        for i in range(s.num_constructors()):
            self.idx[s.constructor(i).name()] = i

    def ctor(self, name):
        return self.sort.constructor(self.idx[name])

    def rec(self, name):
        return self.sort.recognizer(self.idx[name])

    def acc(self, name, j=0):
        return self.sort.accessor(self.idx[name], j)


def P():
    global _P
    if _P is None:
        _P = _Sort()
    return _P


def PyObj():
    return P().sort


# ---- constructors / accessors -----------------------------------------------------------------------------------
def NONE(): return P().ctor('none')()
def mk_int(e):
    if isinstance(e, int): e = z3.IntVal(e)
    return P().ctor('int')(e)
def mk_bool(e):
    if isinstance(e, bool): e = z3.BoolVal(e)
    return P().ctor('bool')(e)
def mk_str(e):
    if isinstance(e, str): e = z3.StringVal(e)
    return P().ctor('str')(e)
def mk_ref(e):
    if isinstance(e, int): e = z3.IntVal(e)
    return P().ctor('ref')(e)
def mk_tup(seq): return P().ctor('tup')(seq)
def mk_flt(e):
    if isinstance(e, int): e = z3.IntVal(e)
    return P().ctor('flt')(e)
def mk_fn(e):
    if isinstance(e, int): e = z3.IntVal(e)
    return P().ctor('fn')(e)
def mk_val(cls, *fields): return P().ctor('v_' + cls)(*fields)

def ival(x): return P().acc('int')(x)
def bval(x): return P().acc('bool')(x)
def sval(x): return P().acc('str')(x)
def addr(x): return P().acc('ref')(x)
def items(x):
    """items(tup(s)) is s: done at construction, E-matching does not look through the constructor/accessor pair"""
    if z3.is_app(x) and x.num_args() == 1 and x.decl().eq(P().ctor('tup')):
        return x.arg(0)
    return P().acc('tup')(x)
def fid(x): return P().acc('flt')(x)
def fnid(x): return P().acc('fn')(x)
def vfield(cls, fname, x):
    return P().acc('v_' + cls, _VALUE_CLASSES[cls].index(fname))(x)

def is_none(x): return P().rec('none')(x)
def is_int(x): return P().rec('int')(x)
def is_bool(x): return P().rec('bool')(x)
def is_str(x): return P().rec('str')(x)
def is_ref(x): return P().rec('ref')(x)
def is_tup(x): return P().rec('tup')(x)
def is_flt(x): return P().rec('flt')(x)
def is_fn(x): return P().rec('fn')(x)
def is_val(cls, x): return P().rec('v_' + cls)(x)


def empty_seq(): return z3.Empty(z3.SeqSort(PyObj()))
def seq_of(*terms):
    if not terms: return empty_seq()
    if len(terms) == 1: return z3.Unit(terms[0])
    return z3.Concat(*[z3.Unit(t) for t in terms])
def SeqP(): return z3.SeqSort(PyObj())


# dynamic class of an address (immutable after allocation; global uninterpreted function)
_tyof = None
def tyof(a):
    global _tyof
    if _tyof is None:
        _tyof = z3.Function('tyof', z3.IntSort(), z3.IntSort())
    return _tyof(a)


_at = None
def at(seq, i):
    """pattern-friendly element access for quantified specifications: at(s, i) == s[i] for 0 <= i < |s| (bridging axiom in
    engine.below_axioms); z3 rewrites the native seq.nth, which makes it unusable as an E-matching pattern"""
    global _at
    if _at is None:
        _at = z3.Function('at', SeqP(), z3.IntSort(), PyObj())
    if isinstance(i, int):
        i = z3.IntVal(i)
    return _at(seq, i)


def at_axiom():
    s = z3.Const('as', SeqP())
    i = z3.Int('ai')
    return z3.ForAll([s, i], z3.Implies(z3.And(i >= 0, i < z3.Length(s)), at(s, i) == s[i]), patterns=[at(s, i)])


def at_axioms(bridge=False):
    """Axioms of the uninterpreted, E-matching friendly views of sequences: at(s,i) (element) and member(s,x).

    All of them are consequences of the definitions at(s,i) == s[i] (0 <= i < |s|) and member(s,x) <=> Contains(s, Unit(x)).
    The two defining (bridging) equations themselves are only included on request: they pull z3's native sequence solver
    into every query and make verdicts unstable; the engine and the specifications use at/member exclusively for lists."""
    a, b = z3.Consts('aa ab', SeqP())
    i = z3.Int('ai')
    x = z3.Const('ax', PyObj())
    y = z3.Const('ay', PyObj())
    j, n = z3.Ints('aj an')
    return ([at_axiom(), z3.ForAll([a, x], member(a, x) == z3.Contains(a, z3.Unit(x)), patterns=[member(a, x)])] if bridge else []) + [
            z3.ForAll([a, i, j, n], z3.Implies(z3.And(i >= 0, i < n, j >= 0, j + n <= z3.Length(a)),
                                               at(z3.Extract(a, j, n), i) == at(a, j + i)), patterns=[at(z3.Extract(a, j, n), i)]),
            z3.ForAll([a, b, i], z3.Implies(z3.And(i >= 0, i < z3.Length(a) + z3.Length(b)),
                                            at(z3.Concat(a, b), i) == z3.If(i < z3.Length(a), at(a, i), at(b, i - z3.Length(a)))),
                      patterns=[at(z3.Concat(a, b), i)]),
            z3.ForAll([x, i], z3.Implies(i == 0, at(z3.Unit(x), i) == x), patterns=[at(z3.Unit(x), i)]),
            # membership as an uninterpreted predicate (z3 rewrites the native seq.contains, so it cannot serve as a pattern):
            # member(s, x) <=> Contains(s, Unit(x)); element at an index is a member; a member has an index
            z3.ForAll([a, i], z3.Implies(z3.And(i >= 0, i < z3.Length(a)), member(a, at(a, i))), patterns=[at(a, i)]),
            z3.ForAll([a, x], z3.Implies(member(a, x),
                                         z3.And(idx_of(a, x) >= 0, idx_of(a, x) < z3.Length(a), at(a, idx_of(a, x)) == x)),
                      patterns=[member(a, x)]),
            z3.ForAll([a, b, x], member(z3.Concat(a, b), x) == z3.Or(member(a, x), member(b, x)), patterns=[member(z3.Concat(a, b), x)]),
            z3.ForAll([x, y], member(z3.Unit(y), x) == (x == y), patterns=[member(z3.Unit(y), x)]),
            z3.ForAll([x], z3.Not(member(empty_seq(), x)), patterns=[member(empty_seq(), x)])]


_member = None
def member(seq, x):
    """x occurs in the sequence (uninterpreted, E-matching friendly; equivalent to the native Contains(seq, Unit(x)))"""
    global _member
    if _member is None:
        _member = z3.Function('member', SeqP(), PyObj(), z3.BoolSort())
    return _member(seq, x)


_idx_of = None
def idx_of(seq, x):
    """skolem function: some index of x in seq when seq contains x"""
    global _idx_of
    if _idx_of is None:
        _idx_of = z3.Function('idx_of', SeqP(), PyObj(), z3.IntSort())
    return _idx_of(seq, x)


def forall(vs, body, patterns=None):
    """ForAll with E-matching patterns; patterns that z3 rejects (they contain ite/connectives after a ghost update) are dropped
    one by one — in goal position the quantifier is skolemised anyway"""
    if patterns:
        good = []
        for p in patterns:
            try:
                z3.ForAll(vs, body, patterns=[p])
                good.append(p)
            except z3.Z3Exception:
                pass
        if good:
            return z3.ForAll(vs, body, patterns=good)
    return z3.ForAll(vs, body)


def exists(vs, body, patterns=None):
    """Exists with patterns; invalid patterns are dropped (see forall)"""
    if patterns:
        good = []
        for p in patterns:
            try:
                z3.Exists(vs, body, patterns=[p])
                good.append(p)
            except z3.Z3Exception:
                pass
        if good:
            return z3.Exists(vs, body, patterns=good)
    return z3.Exists(vs, body)


def type_id(name):
    """Stable small integer for a dynamic class name ('list', 'dict', 'set', or a user class)."""
    if name not in _TYPE_IDS:
        _TYPE_IDS[name] = len(_TYPE_IDS) + 1
    return _TYPE_IDS[name]


_counter = itertools.count()
def fresh(name, sort=None):
    return z3.Const(f'{name}!{next(_counter)}', sort if sort is not None else PyObj())


# ---- static types -------------------------------------------------------------------------------------------------
class Ty:
    kind = 'any'
    def __repr__(self): return self.kind
    def __eq__(self, o): return repr(self) == repr(o)
    def __hash__(self): return hash(repr(self))

class _Simple(Ty):
    def __init__(self, kind): self.kind = kind

Any = _Simple('any')
Int = _Simple('int')
Bool = _Simple('bool')
Str = _Simple('str')
NoneT = _Simple('none')
Float = _Simple('float')
Fn = _Simple('fn')          # opaque callable

class Opt(Ty):
    kind = 'opt'
    def __init__(self, t): self.t = t
    def __repr__(self): return f'Opt({self.t})'

class Union(Ty):
    kind = 'union'
    def __init__(self, *ts): self.ts = ts
    def __repr__(self): return 'Union(%s)' % ','.join(map(repr, self.ts))

class List(Ty):
    kind = 'list'
    def __init__(self, t=Any): self.t = t
    def __repr__(self): return f'List({self.t})'

class Dict(Ty):
    kind = 'dict'
    def __init__(self, k=Any, v=Any): self.k, self.v = k, v
    def __repr__(self): return f'Dict({self.k},{self.v})'

class Set(Ty):
    kind = 'set'
    def __init__(self, k=Any): self.k = k
    def __repr__(self): return f'Set({self.k})'

class TupleOf(Ty):
    """homogeneous tuple of any length"""
    kind = 'tupleof'
    def __init__(self, t=Any): self.t = t
    def __repr__(self): return f'TupleOf({self.t})'

class Tuple(Ty):
    """fixed arity tuple"""
    kind = 'tuple'
    def __init__(self, *ts): self.ts = ts
    def __repr__(self): return 'Tuple(%s)' % ','.join(map(repr, self.ts))

class Obj(Ty):
    """reference to an instance of a user class (heap object)"""
    kind = 'obj'
    def __init__(self, cls): self.cls = cls
    def __repr__(self): return f'Obj({self.cls})'

class Val(Ty):
    """instance of a registered value class (immutable, structural equality)"""
    kind = 'val'
    def __init__(self, cls): self.cls = cls
    def __repr__(self): return f'Val({self.cls})'

class Opaque(Ty):
    """library object known only through trusted observers; represented as ref with a dynamic class"""
    kind = 'opaque'
    def __init__(self, name): self.name = name
    def __repr__(self): return f'Opaque({self.name})'


def has_type(x, t, next_ref=None):
    """Shallow typing predicate: tag, and for references dynamic class + allocatedness (< next_ref)."""
    k = t.kind
    if k == 'any': return z3.BoolVal(True)
    if k == 'int': return is_int(x)
    if k == 'bool': return is_bool(x)
    if k == 'str': return is_str(x)
    if k == 'none': return is_none(x)
    if k == 'float': return is_flt(x)
    if k == 'fn': return is_fn(x)
    if k == 'opt': return z3.Or(is_none(x), has_type(x, t.t, next_ref))
    if k == 'union': return z3.Or(*[has_type(x, u, next_ref) for u in t.ts])
    if k == 'tupleof': return is_tup(x)
    if k == 'tuple': return z3.And(is_tup(x), z3.Length(items(x)) == len(t.ts))
    if k == 'val': return is_val(t.cls, x)
    if k in ('list', 'dict', 'set', 'obj', 'opaque'):
        name = {'list': 'list', 'dict': 'dict', 'set': 'set'}.get(k) or (t.cls if k == 'obj' else t.name)
        names = sorted({name} | set(SUBCLASSES.get(name, ())))
        tids = [tyof(addr(x)) == type_id(n) for n in names]
        c = [is_ref(x), addr(x) > 0, tids[0] if len(tids) == 1 else z3.Or(*tids)]
        if next_ref is not None: c.append(addr(x) < next_ref)
        return z3.And(*c)
    raise NotImplementedError(k)


SUBCLASSES = {}      # class name -> names of its (transitive) subclasses among the classes with a ClassInfo


def strip_opt(t):
    return t.t if t.kind == 'opt' else t
