"""dev: find which hypotheses make a VC slow: python3-vt dev_diag.py <module> <qualname> <vcname-substr> [n]"""
import sys, importlib, time
sys.path.insert(0, '/verif')
import z3
from lianvc.engine import Exec
mod = importlib.import_module('contracts.' + sys.argv[1]); reg = mod.build()
c = [c for c in reg.contracts.values() if sys.argv[2] in c.qualname][0]
ex = Exec(reg, c); vcs = ex.run()
sel = [v for v in vcs if sys.argv[3] in v.name]
def chk(hyps, to=3000, vc=None):
    vc = vc or VC
    s = z3.Solver(); s.set('timeout', to); s.add(*hyps); s.add(z3.Not(vc.goal)); t = time.time(); r = s.check(); return str(r), round(time.time() - t, 2)
if len(sys.argv) > 4:
    vc = sel[int(sys.argv[4])]
else:
    vc = None
    for k, v in enumerate(sel):
        if chk(v.hyps, 3000, v)[0] != 'unsat':
            vc = v; print('first failing instance:', k); break
    if vc is None: print('all instances unsat'); sys.exit()
VC = vc
na = len(ex.global_axioms)
print('full', chk(vc.hyps))
print('no global axioms', chk(vc.hyps[na:]))
for i in range(na):
    print('drop axiom', i, chk(vc.hyps[:i] + vc.hyps[i+1:]), str(vc.hyps[i])[:100].replace('\n', ' '))
for i in range(na, len(vc.hyps)):
    r = chk(vc.hyps[:i] + vc.hyps[i+1:])
    if r[0] == 'unsat': print('drop hyp', i, r, str(vc.hyps[i])[:200].replace('\n', ' '))
