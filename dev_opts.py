"""dev: try solver option sets on one VC: python3-vt dev_opts.py <module> <qualname> <vcname-substr> [n]"""
import sys, importlib, time
sys.path.insert(0, '/verif')
import z3
from lianvc.engine import Exec
mod = importlib.import_module('contracts.' + sys.argv[1]); reg = mod.build()
c = [c for c in reg.contracts.values() if sys.argv[2] in c.qualname][0]
ex = Exec(reg, c); vcs = ex.run()
sel = [v for v in vcs if sys.argv[3] in v.name]
vc = sel[int(sys.argv[4]) if len(sys.argv) > 4 else 0]
for opts in [{}, {'smt.mbqi': False}, {'smt.mbqi': False, 'smt.auto_config': False}, {'smt.ematching': True, 'smt.mbqi': False, 'smt.qi.eager_threshold': 100},
             {'smt.mbqi': False, 'smt.arith.solver': 2}, {'smt.mbqi': False, 'smt.string_solver': 'seq', 'smt.relevancy': 0}]:
    s = z3.Solver()
    for k, v in opts.items(): s.set(k, v)
    s.set('timeout', 8000)
    s.add(*vc.hyps); s.add(z3.Not(vc.goal))
    t = time.time(); r = s.check(); print(opts, r, round(time.time() - t, 2), s.reason_unknown() if r == z3.unknown else '')
