#!/bin/bash
# dev: ./dev_confirm_seed.sh <PID> <worktree> <k>  — confirm a sub-agent's seed (diff == patch.diff, demo FAIL changed / PASS unchanged, pytest count), store it as seeded/<PID>-<k>
pid=$1; wt=$2; k=$3; out=/verif/seeded/$pid-$k
git -C $wt diff | diff -q - $wt/seed_out/patch.diff >/dev/null || { echo "worktree diff != patch.diff"; }
mkdir -p $out && cp $wt/seed_out/* $out/
cd $wt/seed_out
echo "changed:   $(PYTHONPATH=$wt/src timeout 1200 /venv/bin/python demo.py 2>&1 | tail -1 | cut -c1-150) exit=$?"
git -C $wt apply -R $wt/seed_out/patch.diff
echo "unchanged: $(PYTHONPATH=$wt/src timeout 1200 /venv/bin/python demo.py 2>&1 | tail -1 | cut -c1-150)"
git -C $wt apply $wt/seed_out/patch.diff
cd $wt && echo "pytest: $(timeout 3000 /venv/bin/python -m pytest -q -p no:cacheprovider --timeout=900 --continue-on-collection-errors 2>&1 | tail -1)"
