#!/bin/bash
# usage: dev_seed.sh <PID> <worktree> <seed-name>   : import a sub-agent's seeded change, confirm it, run the check against it
set -u
PID=$1; WT=$2; NAME=$3
D=/verif/seeded/$NAME
mkdir -p $D
cp $WT/seed_out/patch.diff $WT/seed_out/demo.py $WT/seed_out/meta.json $D/
cd /repo
echo "== demo on unchanged /repo"; PYTHONPATH=/repo/src timeout 900 /venv/bin/python $D/demo.py 2>&1 | tail -2; echo "exit=$?"
git -C /repo apply $D/patch.diff || { echo "PATCH DOES NOT APPLY"; exit 1; }
echo "== demo on changed /repo"; PYTHONPATH=/repo/src timeout 900 /venv/bin/python $D/demo.py 2>&1 | tail -2
echo "== import check"; PYTHONPATH=/repo/src /venv/bin/python -c "import builtins; builtins.profile=lambda f:f; import lian.common_structs, lian.util.loader, lian.events.event_manager, lian.basics.entry_points" && echo import-ok
echo "== check $PID on changed tree"; cd /verif && timeout 3000 ./check $PID --tier quick 2>&1 | grep -v "^WARNING" | tail -6 > /tmp/seed_check_$NAME.txt; cat /tmp/seed_check_$NAME.txt
git -C /repo checkout -- .
git -C /repo status --short | head -3
