"""dev: greedy search for a small fast-unsat subset of hypotheses"""
import sys, importlib, time
sys.path.insert(0, '/verif')
import z3
from lianvc.engine import Exec
mod = importlib.import_module('contracts.' + sys.argv[1]); reg = mod.build()
c = [c for c in reg.contracts.values() if sys.argv[2] in c.qualname][0]
ex = Exec(reg, c); vcs = ex.run()
sel = [v for v in vcs if sys.argv[3] in v.name]
vc = sel[int(sys.argv[4]) if len(sys.argv) > 4 else 0]
def chk(hyps, to=1500):
    s = z3.Solver(); s.set('timeout', to); s.add(*hyps); s.add(z3.Not(vc.goal)); t = time.time(); r = s.check(); return str(r), round(time.time() - t, 2)
hy = list(vc.hyps)
# phase 1: remove hyps mentioning strings (sval/str.) until unsat appears
def has_str(h):
    s = str(h)
    return 'sval' in s or 'str.' in s or 'Contains' in s
nostr = [h for h in hy if not has_str(h)]
print('without string-mentioning hyps:', chk(nostr), len(nostr), 'of', len(hy))
cur = nostr if chk(nostr)[0] == 'unsat' else None
if cur:
    i = 0
    while i < len(cur):
        t = cur[:i] + cur[i+1:]
        if chk(t)[0] == 'unsat': cur = t
        else: i += 1
    print('core size', len(cur))
    for h in cur: print('CORE', str(h)[:300].replace('\n', ' '))
    # now add back string hyps one by one to see which makes it slow
    for h in hy:
        if has_str(h):
            r = chk(cur + [h], 3000)
            if r[0] != 'unsat' or r[1] > 0.5: print('SLOWS', r, str(h)[:200].replace('\n', ' '))

print('--- phase 2: essential-first')
ess = [h for h in hy if not z3.is_quantifier(h) and 'Exists' not in str(h)[:10]]
def pick(sub): return [h for h in hy if z3.is_quantifier(h) and sub in str(h)]
ess += pick('hv_dom!9[fa]') + pick('hv_dom!5[fa]')
ess += [h for h in hy if z3.is_quantifier(h) and str(h).startswith('ForAll(x,\n       hv_dom!9')]
print('essential', chk(ess, 5000), len(ess))
rest = [h for h in hy if not any(h is e for e in ess)]
for h in rest:
    r = chk(ess + [h], 3000)
    if r[0] != 'unsat' or r[1] > 0.5: print('SLOWS', r, str(h)[:300].replace('\n', ' '))
