"""dev: python3-vt dev_vc.py <module> <qualname> <vcname-substr> [n]  -> prints the VC"""
import sys, importlib
sys.path.insert(0, '/verif')
import z3
from lianvc.engine import Exec
mod = importlib.import_module('contracts.' + sys.argv[1]); reg = mod.build()
c = [c for c in reg.contracts.values() if sys.argv[2] in c.qualname][0]
ex = Exec(reg, c); vcs = ex.run()
sel = [v for v in vcs if sys.argv[3] in v.name]
vc = sel[int(sys.argv[4]) if len(sys.argv) > 4 else 0]
print(vc.name, len(sel))
for h in vc.hyps[len(ex.global_axioms):]: print('HYP', str(h)[:1500]); print()
print('GOAL', vc.goal)
