#!/bin/bash
# dev: run every stored harmless (behaviour-preserving) patch of benign/ against its property's quick check, each in its own scratch worktree.
# expected: exit=0 (or 2 = undecided) and NO VIOLATION line; a VIOLATION here is a false alarm of the machinery.
cd "$(dirname "$0")"
pats=("$@"); [ ${#pats[@]} -eq 0 ] && pats=($(ls benign | grep '\.diff$' | sed 's/\.diff$//'))
run_one() {
  b=$1; pid=${b%%-*}; wt=/tmp/benwt_$b; ev=/tmp/benev_$b
  rm -rf "$wt" "$ev"; git -C /repo worktree prune
  git -C /repo worktree add --detach -q "$wt" HEAD || { echo "$b worktree-failed"; return; }
  if git -C "$wt" apply /verif/benign/$b.diff 2>/dev/null; then
    out=$(LIANVC_REPO=$wt LIANVC_EVIDENCE_DIR=$ev ./check $pid --tier quick 2>&1); code=$?
    echo "$b exit=$code $(echo "$out" | grep -c '^VIOLATION') violation-lines | $(echo "$out" | grep -m2 'failed obligation\|^UNDECIDED' | tr '\n' ' ' | cut -c1-260)"
  else
    echo "$b patch-does-not-apply"
  fi
  git -C /repo worktree remove --force "$wt"; rm -rf "$ev"
}
export -f run_one
printf '%s\n' "${pats[@]}" | xargs -P ${JOBS:-3} -I{} bash -c 'run_one {}'
