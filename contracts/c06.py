"""C06 — Reaching definitions are sound and flow-sensitive: the transfer functions and the meet, proved on the real code; the schedule is a recorded finding.

Proved (all inputs, all iterations):
  common_structs.py   SymbolDefNode.{__eq__,__hash__} (value-like), BitVectorManager.{add_bit_id, find_bit_pos_by_id, explain, kill_bit_ids, gen_bit_ids}
  prelim_semantics.py update_current_symbol_bit : OUT == (IN \\ defs(symbol)) ∪ {d}, keeps DefsInv (defined_symbols[s] == {d in all_symbol_defs | d.symbol_id == s})
                      check_reachable_symbol_defs: available ∩ defs(symbol) for a locally defined symbol, one external node otherwise
                      analyze_reachable_symbols (prefix, up to the change notification): IN' == ∪ OUT(p) over the SELECTED predecessors (all of them; for a loop header
                      the non-back-edge ones in round one, the back-edge ones afterwards), OUT' == the fold of the transfer over the defined symbols
  stmt_def_use_analysis.py add_status_with_symbol_id_sync (prefix: the defined symbol): every definition of one compiler temporary gets ONE symbol id
                      (tmp_variable_to_define is only extended, never overwritten)
Recorded finding (F8): analyze_stmts peeks a statement, pushes its successors (heappush), then pop() removes work_list[0] — not necessarily the analysed statement.
"""
import ast
import z3
from lianvc import sorts as S
from lianvc.sorts import Any, Int, Bool, Str, NoneT, Opt, List, Dict, Set, Tuple, TupleOf, Obj, Val, Fn, Opaque
from lianvc.contracts import Contract, ClassInfo, LoopSpec, Registry
from lianvc.engine import V, Outcome, Unsupported, below
from contracts import shared

PROPERTY = 'C06'
REPLAY = 'c06_replay.py'
CS = 'src/lian/common_structs.py'
PS = 'src/lian/core/prelim_semantics.py'
DU = 'src/lian/basics/stmt_def_use_analysis.py'
SDN = Val('SymbolDefNode')


def sdn(n, x):
    return S.vfield('SymbolDefNode', n, x)


def build():
    reg = Registry()
    shared.register_util(reg)
    reg.add_class(ClassInfo('SymbolDefNode', CS, dict(index=Int, symbol_id=Int, stmt_id=Int), kind='value', ctor_params=['index', 'symbol_id', 'stmt_id'],
                            ctor_defaults=dict(index=-1, symbol_id=-1, stmt_id=-1)))
    reg.add_class(ClassInfo('StateDefNode', CS, dict(index=Int, state_id=Int, stmt_id=Int), kind='value', ctor_params=['index', 'state_id', 'stmt_id'],
                            ctor_defaults=dict(index=-1, state_id=-1, stmt_id=-1)))
    reg.add_class(ClassInfo('BitVectorManager', CS, dict(bit_vector_id=Int, counter=Int, id_to_bit_pos=Dict(Any, Int), bit_pos_to_id=Dict(Int, Any))))
    BVM = Obj('BitVectorManager')
    xq, yq = z3.Consts('x y', S.PyObj())
    kq = z3.Int('k')
    is_def = lambda x: z3.Or(S.is_val('SymbolDefNode', x), S.is_val('StateDefNode', x))

    # ---- the definition nodes are values ----------------------------------------------------------------------------------------------------------
    reg.add(Contract(CS, 'SymbolDefNode.__eq__', dict(self=SDN, other=Any), returns=Bool,
                     ensures=[('field-wise-equality-with-another-SymbolDefNode-only', lambda c: S.bval(c.res) == (c.p.self == c.p.other))]))
    hf = z3.Function('py_hash', S.PyObj(), z3.IntSort())
    reg.add(Contract(CS, 'SymbolDefNode.__hash__', dict(self=SDN), returns=Int,
                     ensures=[('function-of-the-three-fields', lambda c: S.ival(c.res) == hf(S.mk_tup(S.seq_of(sdn('index', c.p.self), sdn('symbol_id', c.p.self), sdn('stmt_id', c.p.self)))))]))

    # ---- BitVectorManager -----------------------------------------------------------------------------------------------------------------------------
    def bvm_inv(h, m):
        """the two tables are inverse to each other and every position handed out is below the counter"""
        fwd, bwd = h.attr(m, 'id_to_bit_pos'), h.attr(m, 'bit_pos_to_id')
        p = z3.Const('bp', S.PyObj())
        return z3.And(fwd != bwd, S.ival(h.attr(m, 'counter')) >= 1,
                      S.forall([xq], z3.Implies(z3.Select(h.dom(fwd), xq), z3.And(
                          S.is_int(z3.Select(h.val(fwd), xq)), S.ival(z3.Select(h.val(fwd), xq)) >= 1, S.ival(z3.Select(h.val(fwd), xq)) < S.ival(h.attr(m, 'counter')),
                          z3.Select(h.dom(bwd), z3.Select(h.val(fwd), xq)), z3.Select(h.val(bwd), z3.Select(h.val(fwd), xq)) == xq)),
                          patterns=[z3.Select(h.val(fwd), xq), z3.Select(h.dom(fwd), xq)]),
                      S.forall([p], z3.Implies(z3.Select(h.dom(bwd), p), z3.And(
                          S.is_int(p), S.ival(p) >= 1, S.ival(p) < S.ival(h.attr(m, 'counter')),
                          z3.Select(h.dom(fwd), z3.Select(h.val(bwd), p)), z3.Select(h.val(fwd), z3.Select(h.val(bwd), p)) == p)),
                          patterns=[z3.Select(h.val(bwd), p), z3.Select(h.dom(bwd), p)]))
    reg.bvm_inv = bvm_inv
    bvm_mod = lambda c: {'attr:counter': [c.p.self], 'dom': [c.old.attr(c.p.self, 'id_to_bit_pos'), c.old.attr(c.p.self, 'bit_pos_to_id')],
                         'val': [c.old.attr(c.p.self, 'id_to_bit_pos'), c.old.attr(c.p.self, 'bit_pos_to_id')]}
    reg.add(Contract(CS, 'BitVectorManager.add_bit_id', dict(self=BVM, bit_id=Any), returns=NoneT,
                     requires=[('tables-inverse', lambda c: bvm_inv(c.old, c.p.self))],
                     raises={'ValueError': [('only-for-a-non-definition-node', lambda c: z3.Not(is_def(c.p.bit_id))), ('nothing-changed', lambda c: z3.BoolVal(True))]},
                     ensures=[('tables-inverse', lambda c: bvm_inv(c.new, c.p.self)), ('was-a-definition-node', lambda c: is_def(c.p.bit_id)),
                              ('registered', lambda c: z3.Select(c.new.dom(c.old.attr(c.p.self, 'id_to_bit_pos')), c.p.bit_id)),
                              ('earlier-positions-kept', lambda c: S.forall([xq], z3.Implies(
                                  z3.Select(c.old.dom(c.old.attr(c.p.self, 'id_to_bit_pos')), xq),
                                  z3.And(z3.Select(c.new.dom(c.old.attr(c.p.self, 'id_to_bit_pos')), xq),
                                         z3.Select(c.new.val(c.old.attr(c.p.self, 'id_to_bit_pos')), xq) == z3.Select(c.old.val(c.old.attr(c.p.self, 'id_to_bit_pos')), xq)))))],
                     modifies=bvm_mod, fresh_fields=[]))
    reg.add(Contract(CS, 'BitVectorManager.find_bit_pos_by_id', dict(self=BVM, bit_id=Any), returns=Any,
                     ensures=[('position-or-minus-one', lambda c: c.res == z3.If(z3.Select(c.old.dom(c.old.attr(c.p.self, 'id_to_bit_pos')), c.p.bit_id),
                                                                                  z3.Select(c.old.val(c.old.attr(c.p.self, 'id_to_bit_pos')), c.p.bit_id), S.mk_int(z3.IntVal(-1))))],
                     modifies=lambda c: {}))
    reg.add(Contract(CS, 'BitVectorManager.explain', dict(self=BVM, bit_vector=Any), returns=Any,
                     ensures=[('identity', lambda c: c.res == c.p.bit_vector)], modifies=lambda c: {}))

    def all_defs(h, s_):
        return S.forall([xq], z3.Implies(z3.Select(h.dom(s_), xq), is_def(xq)), patterns=[z3.Select(h.dom(s_), xq)])

    def removed(c, x, upto):
        return z3.Exists([kq], z3.And(kq >= 0, kq < upto, S.at(c.seq, kq) == x), patterns=[S.at(c.seq, kq)])
    reg.add(Contract(CS, 'BitVectorManager.kill_bit_ids', dict(self=BVM, bit_vector=Set(Any), id_list=Set(Any)), returns=Set(Any),
                     requires=[('not-the-same-set-object', lambda c: c.p.bit_vector != c.p.id_list)],
                     raises={'ValueError': [('only-for-a-non-definition-node-in-the-list', lambda c: z3.Not(all_defs(c.old, c.p.id_list)))]},
                     loops={1: LoopSpec(invariants=[('exactly-the-ids-seen-so-far-are-removed', lambda c: S.forall([xq], z3.Select(c.cur.dom(c.p.bit_vector), xq) == z3.And(
                         z3.Select(c.pre.dom(c.p.bit_vector), xq), z3.Not(removed(c, xq, c.i))), patterns=[z3.Select(c.cur.dom(c.p.bit_vector), xq)])),
                         ('ids-seen-were-definition-nodes', lambda c: z3.ForAll([kq], z3.Implies(z3.And(kq >= 0, kq < c.i), is_def(S.at(c.seq, kq))), patterns=[S.at(c.seq, kq)]))],
                                        modifies=lambda c: {'dom': [c.p.bit_vector]})},
                     ensures=[('the-same-set-object', lambda c: c.res == c.p.bit_vector),
                              ('set-difference', lambda c: S.forall([xq], z3.Select(c.new.dom(c.p.bit_vector), xq) == z3.And(
                                  z3.Select(c.old.dom(c.p.bit_vector), xq), z3.Not(z3.Select(c.old.dom(c.p.id_list), xq))))),
                              ('all-ids-were-definition-nodes', lambda c: all_defs(c.old, c.p.id_list))],
                     modifies=lambda c: {'dom': [c.p.bit_vector]}, fresh_fields=[]))
    reg.add(Contract(CS, 'BitVectorManager.gen_bit_ids', dict(self=BVM, bit_vector=Set(Any), id_list=List(Any)), returns=Set(Any),
                     raises={'ValueError': [('only-for-a-non-definition-node-in-the-list', lambda c: z3.Exists([kq], z3.And(
                         kq >= 0, kq < z3.Length(c.old.list(c.p.id_list)), z3.Not(is_def(S.at(c.old.list(c.p.id_list), kq))))))]},
                     loops={1: LoopSpec(invariants=[('exactly-the-ids-seen-so-far-are-added', lambda c: S.forall([xq], z3.Select(c.cur.dom(c.p.bit_vector), xq) == z3.Or(
                         z3.Select(c.pre.dom(c.p.bit_vector), xq), removed(c, xq, c.i)), patterns=[z3.Select(c.cur.dom(c.p.bit_vector), xq)]))],
                                        modifies=lambda c: {'dom': [c.p.bit_vector]})},
                     ensures=[('the-same-set-object', lambda c: c.res == c.p.bit_vector),
                              ('set-union', lambda c: S.forall([xq], z3.Select(c.new.dom(c.p.bit_vector), xq) == z3.Or(
                                  z3.Select(c.old.dom(c.p.bit_vector), xq), S.member(c.old.list(c.p.id_list), xq))))],
                     modifies=lambda c: {'dom': [c.p.bit_vector]}, fresh_fields=[]))
    # ---- the transfer function of one definition -----------------------------------------------------------------------------------------------------
    reg.add_class(ClassInfo('MethodDefUseSummary', CS, dict(used_external_symbol_ids=Set(Any), local_symbol_ids=Set(Any), defined_external_symbol_ids=Set(Any), this_symbol_id=Int)))
    reg.add_class(ClassInfo('Symbol', CS, dict(name=Str, symbol_id=Int, source_unit_id=Any, stmt_id=Int, states=Any)))
    reg.add_class(ClassInfo('ComputeFrame', CS, dict(all_symbol_defs=Set(Any), defined_symbols=Dict(Any, Set(Any)), symbol_bit_vector_manager=BVM, all_local_symbol_ids=Set(Any),
                                                     method_def_use_summary=Obj('MethodDefUseSummary'), stmt_id_to_status=Dict(Any, Obj('StmtStatus')), cfg=Any,
                                                     stmt_counters=Dict(Any, Int), is_first_round=Dict(Any, Any), symbol_state_space=Opaque('SymbolStateSpace'),
                                                     symbol_graph=Opaque('SymbolGraph'), state_flow_graph=Opaque('StateFlowGraph'), call_site=Any, stmts_with_symbol_update=Opaque('SimpleSet'))))
    reg.add_class(ClassInfo('SimpleSet', CS, {}, kind='opaque'))
    reg.add_class(ClassInfo('SymbolStateSpace', CS, {}, kind='opaque'))
    reg.add_class(ClassInfo('SymbolGraph', CS, {}, kind='opaque'))
    reg.add_class(ClassInfo('StateFlowGraph', CS, {}, kind='opaque'))
    reg.add_class(ClassInfo('StmtStatus', CS, dict(stmt_id=Any, defined_symbol=Int, used_symbols=List(Int), implicitly_defined_symbols=List(Int), implicitly_used_symbols=List(Int),
                                                   in_symbol_bits=Set(Any), out_symbol_bits=Set(Any), defined_states=Any)))
    reg.add_class(ClassInfo('P2PrelimSemanticAnalysis', PS, dict(analysis_phase_id=Int)))
    P2, FR = Obj('P2PrelimSemanticAnalysis'), Obj('ComputeFrame')
    sq = z3.Const('s', S.PyObj())
    tq = z3.Const('t', S.PyObj())
    sym = lambda x: sdn('symbol_id', x)

    def defs_of(h, fr, s_):
        """the set object defined_symbols[s]"""
        return z3.Select(h.val(h.attr(fr, 'defined_symbols')), s_)

    def defs_inv(h, fr):
        """DefsInv: defined_symbols[s] == {d in all_symbol_defs | d.symbol_id == s}; every definition is a SymbolDefNode; the per-symbol sets are separate objects"""
        ds, ad = h.attr(fr, 'defined_symbols'), h.attr(fr, 'all_symbol_defs')
        return z3.And(
            S.forall([xq], z3.Implies(z3.Select(h.dom(ad), xq), z3.And(S.is_val('SymbolDefNode', xq), S.is_int(sym(xq)), z3.Select(h.dom(ds), sym(xq)),
                                                                      z3.Select(h.dom(defs_of(h, fr, sym(xq))), xq))), patterns=[z3.Select(h.dom(ad), xq)]),
            S.forall([sq, xq], z3.Implies(z3.And(z3.Select(h.dom(ds), sq), z3.Select(h.dom(defs_of(h, fr, sq)), xq)),
                                          z3.And(S.is_val('SymbolDefNode', xq), sym(xq) == sq, z3.Select(h.dom(ad), xq))),
                     patterns=[z3.Select(h.dom(defs_of(h, fr, sq)), xq)]),
            S.forall([sq], z3.Implies(z3.Select(h.dom(ds), sq), z3.And(S.has_type(defs_of(h, fr, sq), Set(Any)), defs_of(h, fr, sq) != ad, S.addr(defs_of(h, fr, sq)) < h.next)),
                     patterns=[defs_of(h, fr, sq)]),
            S.forall([sq, tq], z3.Implies(z3.And(z3.Select(h.dom(ds), sq), z3.Select(h.dom(ds), tq), sq != tq), defs_of(h, fr, sq) != defs_of(h, fr, tq)),
                     patterns=[z3.MultiPattern(defs_of(h, fr, sq), defs_of(h, fr, tq))]))
    reg.defs_inv = defs_inv

    def not_a_defs_table(h, fr, b):
        """b is neither all_symbol_defs nor one of the per-symbol definition sets"""
        return z3.And(b != h.attr(fr, 'all_symbol_defs'),
                      S.forall([sq], z3.Implies(z3.Select(h.dom(h.attr(fr, 'defined_symbols')), sq), defs_of(h, fr, sq) != b), patterns=[defs_of(h, fr, sq)]))
    reg.not_a_defs_table = not_a_defs_table

    def ucb_mod(c):
        fr = c.p.frame
        m = c.old.attr(fr, 'symbol_bit_vector_manager')
        key = sym(c.p.bit_id)
        return {'dom': (lambda a: z3.Or(a == S.addr(c.p.current_bits), a == S.addr(c.old.attr(fr, 'all_symbol_defs')), a == S.addr(c.old.attr(fr, 'defined_symbols')),
                                        z3.And(z3.Select(c.old.dom(c.old.attr(fr, 'defined_symbols')), key), a == S.addr(defs_of(c.old, fr, key))), a == S.addr(c.old.attr(m, 'id_to_bit_pos')), a == S.addr(c.old.attr(m, 'bit_pos_to_id')))),
                'val': [c.old.attr(fr, 'defined_symbols'), c.old.attr(m, 'id_to_bit_pos'), c.old.attr(m, 'bit_pos_to_id')], 'attr:counter': [m]}

    def ucb_out(c):
        IN, OUT = c.old.dom(c.p.current_bits), c.new.dom(c.p.current_bits)
        ad1 = c.new.dom(c.old.attr(c.p.frame, 'all_symbol_defs'))
        return S.forall([xq], z3.Implies(z3.Or(ad1[xq], z3.Not(IN[xq])), OUT[xq] == z3.Or(xq == c.p.bit_id, z3.And(IN[xq], sym(xq) != sym(c.p.bit_id)))))
    reg.add(Contract(PS, 'P2PrelimSemanticAnalysis.update_current_symbol_bit', dict(self=P2, bit_id=SDN, frame=FR, current_bits=Set(Any)), returns=Set(Any),
                     requires=[('definitions-table-invariant', lambda c: defs_inv(c.old, c.p.frame)),
                               ('bit-tables-inverse', lambda c: bvm_inv(c.old, c.old.attr(c.p.frame, 'symbol_bit_vector_manager'))),
                               ('the-current-bits-are-not-one-of-the-definition-tables', lambda c: not_a_defs_table(c.old, c.p.frame, c.p.current_bits)),
                               ('ids-are-ints', lambda c: z3.And(S.is_int(sym(c.p.bit_id)), S.is_int(sdn('index', c.p.bit_id)), S.is_int(sdn('stmt_id', c.p.bit_id)))),
                               ('the-definitions-table-is-not-a-bit-position-table', lambda c: z3.Distinct(
                                   c.old.attr(c.p.frame, 'defined_symbols'), c.old.attr(c.old.attr(c.p.frame, 'symbol_bit_vector_manager'), 'id_to_bit_pos'),
                                   c.old.attr(c.old.attr(c.p.frame, 'symbol_bit_vector_manager'), 'bit_pos_to_id')))],
                     ensures=[('the-same-set-object', lambda c: c.res == c.p.current_bits),
                              ('OUT-==-GEN-U-(IN---KILL):-the-definition-itself-plus-every-incoming-definition-of-a-different-symbol', ucb_out),
                              ('the-definition-is-recorded', lambda c: S.forall([xq], z3.Select(c.new.dom(c.old.attr(c.p.frame, 'all_symbol_defs')), xq) == z3.Or(
                                  z3.Select(c.old.dom(c.old.attr(c.p.frame, 'all_symbol_defs')), xq), xq == c.p.bit_id))),
                              ('definitions-table-invariant', lambda c: defs_inv(c.new, c.p.frame)),
                              ('bit-tables-inverse', lambda c: bvm_inv(c.new, c.old.attr(c.p.frame, 'symbol_bit_vector_manager'))),
                              ('per-symbol-sets-are-kept-or-freshly-allocated', lambda c: S.forall([sq], z3.Implies(
                                  z3.Select(c.new.dom(c.old.attr(c.p.frame, 'defined_symbols')), sq),
                                  z3.Or(z3.And(z3.Select(c.old.dom(c.old.attr(c.p.frame, 'defined_symbols')), sq), defs_of(c.new, c.p.frame, sq) == defs_of(c.old, c.p.frame, sq)),
                                        S.addr(defs_of(c.new, c.p.frame, sq)) >= c.old.next)), patterns=[defs_of(c.new, c.p.frame, sq)])),
                              ('tables-stay-in-place', lambda c: z3.And(c.new.attr(c.p.frame, 'all_symbol_defs') == c.old.attr(c.p.frame, 'all_symbol_defs'),
                                                                       c.new.attr(c.p.frame, 'defined_symbols') == c.old.attr(c.p.frame, 'defined_symbols')))],
                     modifies=ucb_mod, fresh_fields=['dom']))

    # ---- which definitions a use sees --------------------------------------------------------------------------------------------------------------------
    def crs_post(c):
        fr, sid = c.p.frame, c.old.attr(c.p.used_symbol, 'symbol_id')
        ds = c.old.attr(fr, 'defined_symbols')
        R = c.new.dom(c.res)
        ext = S.mk_val('SymbolDefNode', c.p.used_symbol_index, sid, c.p.stmt_id)
        local = z3.Select(c.old.dom(c.old.attr(fr, 'all_local_symbol_ids')), sid)
        return S.forall([xq], R[xq] == z3.If(z3.Select(c.old.dom(ds), sid), z3.And(z3.Select(c.old.dom(c.p.available_symbol_defs), xq), z3.Select(c.old.dom(defs_of(c.old, fr, sid)), xq)),
                                           z3.And(z3.Not(local), xq == ext)))
    reg.add(Contract(PS, 'P2PrelimSemanticAnalysis.check_reachable_symbol_defs',
                     dict(self=P2, stmt_id=Int, frame=FR, status=Any, used_symbol_index=Int, used_symbol=Obj('Symbol'), available_symbol_defs=Set(Any)), returns=Set(Any),
                     requires=[('definitions-table-invariant', lambda c: defs_inv(c.old, c.p.frame))],
                     ensures=[('available-definitions-of-that-symbol;-for-a-symbol-never-defined-here:-one-external-node-unless-it-is-a-local', crs_post),
                              ('a-fresh-set', lambda c: S.addr(c.res) >= c.old.next),
                              ('an-external-symbol-is-recorded-as-used', lambda c: S.forall([xq], z3.Select(c.new.dom(c.old.attr(c.old.attr(c.p.frame, 'method_def_use_summary'), 'used_external_symbol_ids')), xq) == z3.Or(
                                  z3.Select(c.old.dom(c.old.attr(c.old.attr(c.p.frame, 'method_def_use_summary'), 'used_external_symbol_ids')), xq),
                                  z3.And(xq == c.old.attr(c.p.used_symbol, 'symbol_id'), z3.Not(z3.Select(c.old.dom(c.old.attr(c.p.frame, 'defined_symbols')), xq)),
                                         z3.Not(z3.Select(c.old.dom(c.old.attr(c.p.frame, 'all_local_symbol_ids')), xq))))))],
                     modifies=lambda c: {'dom': [c.old.attr(c.old.attr(c.p.frame, 'method_def_use_summary'), 'used_external_symbol_ids')]}))
    # ---- symbol identity of compiler temporaries (basic phase) --------------------------------------------------------------------------------------------
    reg.add_class(ClassInfo('Loader', DU, {}, kind='opaque'))
    reg.add_class(ClassInfo('Resolver', DU, {}, kind='opaque'))
    reg.add_class(ClassInfo('GIRRow', DU, dict(operation=Any, stmt_id=Int)))
    reg.add_class(ClassInfo('SourceSymbolScopeInfo', CS, dict(source_unit_id=Any, source_symbol_id=Int)))
    reg.add_class(ClassInfo('BasicFrame', DU, dict(defined_symbols=Dict(Any, Set(Any)), used_symbols=Dict(Any, Set(Any)), method_def_use_summary=Obj('MethodDefUseSummary'))))
    reg.add_class(ClassInfo('StmtDefUseAnalysis', DU, dict(frame=Obj('BasicFrame'), stmt_id_to_status=Dict(Any, Any), symbol_state_space=Opaque('SymbolStateSpace'),
                                                           each_stmt_defined_states=Any, tmp_variable_to_define=Dict(Str, Int), unit_id=Any, loader=Opaque('Loader'),
                                                           resolver=Opaque('Resolver'), external_symbol_id_collection=Dict(Str, Int))))
    space_item = z3.Function('space_item', z3.IntSort(), S.PyObj(), S.PyObj())

    @reg.opaque('opaque_getitem', 'SymbolStateSpace', 'SymbolStateSpace[index]: the item stored at that index (a Symbol, a State or None); the space itself is not changed by this function')
    def _space_get(ex, st, recv, key):
        t = space_item(S.addr(recv.t), key.t)
        st.assume(z3.Implies(S.is_ref(t), z3.And(S.addr(t) > 0, S.addr(t) < z3.Int('next_ref0'))))
        return V(t, Any)

    @reg.extern_method('Loader', 'assign_new_unique_negative_id', 'Loader.assign_new_unique_negative_id(): a negative int')
    def _neg_id(ex, st, node, recv, args, kwargs):
        t = S.fresh('neg_id', z3.IntSort())
        st.assume(t < 0)
        return V(S.mk_int(t), Int)

    @reg.extern_method('Resolver', 'resolve_symbol_source_decl', 'Resolver.resolve_symbol_source_decl(...): None or a fresh SourceSymbolScopeInfo (scope resolution is C05)')
    def _resolve(ex, st, node, recv, args, kwargs):
        r = ex.alloc(st, 'SourceSymbolScopeInfo')
        sid = S.fresh('src_symbol_id', z3.IntSort())
        st.set_field('attr:source_symbol_id', z3.Store(st.field('attr:source_symbol_id'), S.addr(r), S.mk_int(sid)))
        st.set_field('attr:source_unit_id', z3.Store(st.field('attr:source_unit_id'), S.addr(r), S.fresh('src_unit_id')))
        t = S.fresh('source_info')
        st.assume(z3.Or(S.is_none(t), t == r))
        return V(t, Opt(Obj('SourceSymbolScopeInfo')))

    DUA = Obj('StmtDefUseAnalysis')
    nq = z3.Const('name', S.PyObj())
    tmp = lambda h, self_: h.attr(self_, 'tmp_variable_to_define')

    def tmp_kept(c, h0, h1):
        d = tmp(h0, c.p.self)
        return z3.And(tmp(h1, c.p.self) == d,
                      S.forall([nq], z3.Implies(z3.Select(h0.dom(d), nq), z3.And(z3.Select(h1.dom(d), nq), z3.Select(h1.val(d), nq) == z3.Select(h0.val(d), nq))),
                               patterns=[z3.Select(h1.val(d), nq), z3.Select(h1.dom(d), nq)]))

    def tmp_def_inv(c):
        d0 = space_item(S.addr(c.pre.attr(c.p.self, 'symbol_state_space')), c.pre.attr(c.p.status, 'defined_symbol'))
        is_sym = z3.And(S.is_ref(d0), S.tyof(S.addr(d0)) == S.type_id('Symbol'))
        name = c.pre.attr(d0, 'name')
        d = tmp(c.pre, c.p.self)
        return z3.Implies(z3.And(is_sym, z3.PrefixOf(z3.StringVal('%vv'), S.sval(name))),
                          z3.And(z3.Select(c.cur.dom(d), name), c.cur.attr(d0, 'symbol_id') == z3.Select(c.cur.val(d), name)))

    def tmp_def_post(c):
        """a defined compiler temporary carries the id recorded for its name (first definition wins)"""
        d0 = space_item(S.addr(c.old.attr(c.p.self, 'symbol_state_space')), c.old.attr(c.p.status, 'defined_symbol'))
        is_sym = z3.And(S.is_ref(d0), S.tyof(S.addr(d0)) == S.type_id('Symbol'))
        name = c.old.attr(d0, 'name')
        is_tmp = z3.PrefixOf(z3.StringVal('%vv'), S.sval(name))
        d = tmp(c.old, c.p.self)
        return z3.Implies(z3.And(is_sym, is_tmp), z3.And(
            z3.Select(c.new.dom(d), name), c.new.attr(d0, 'symbol_id') == z3.Select(c.new.val(d), name),
            z3.Select(c.new.val(d), name) == z3.If(z3.Select(c.old.dom(d), name), z3.Select(c.old.val(d), name), c.p.stmt_id)))
    reg.add(Contract(DU, 'StmtDefUseAnalysis.add_status_with_symbol_id_sync',
                     dict(self=DUA, stmt_id=Int, stmt=Obj('GIRRow'), status=Obj('StmtStatus'), is_decl_stmt=Bool, is_parameter_decl_stmt=Bool), returns=Any,
                     merge_before=['for used_symbol_index in status.used_symbols'],
                     requires=[('the-tables-are-distinct-objects', lambda c: z3.Distinct(
                         tmp(c.old, c.p.self), c.old.attr(c.p.self, 'external_symbol_id_collection'), c.old.attr(c.p.self, 'stmt_id_to_status'),
                         c.old.attr(c.old.attr(c.p.self, 'frame'), 'defined_symbols'), c.old.attr(c.old.attr(c.p.self, 'frame'), 'used_symbols')))],
                     loops={1: LoopSpec(invariants=[('the-temporaries-table-is-not-touched-by-the-uses', lambda c: z3.And(
                         tmp(c.cur, c.p.self) == tmp(c.head, c.p.self), c.cur.dom(tmp(c.head, c.p.self)) == c.head.dom(tmp(c.head, c.p.self)),
                         c.cur.val(tmp(c.head, c.p.self)) == c.head.val(tmp(c.head, c.p.self)),
                         c.cur.attr(c.p.self, 'symbol_state_space') == c.pre.attr(c.p.self, 'symbol_state_space'), c.cur.attr(c.p.self, 'frame') == c.pre.attr(c.p.self, 'frame'),
                         c.cur.attr(c.p.self, 'loader') == c.pre.attr(c.p.self, 'loader'), c.cur.attr(c.p.self, 'resolver') == c.pre.attr(c.p.self, 'resolver'),
                         c.cur.attr(c.p.self, 'external_symbol_id_collection') == c.pre.attr(c.p.self, 'external_symbol_id_collection'))),
                         ('the-defined-temporary-keeps-its-id', tmp_def_inv)])},
                     ensures=[('one-symbol-id-per-temporary:-the-name-table-is-only-extended,-never-overwritten', lambda c: tmp_kept(c, c.old, c.new)),
                              ('a-defined-temporary-gets-the-id-recorded-for-its-name-(first-definition-wins)', tmp_def_post)],
                     modifies=lambda c: {'*': True}))
    # ---- the meet and the fold: analyze_reachable_symbols (prefix, up to the change notification) ---------------------------------------------------------
    preds = z3.Function('cfg_predecessors', S.PyObj(), S.PyObj(), S.SeqP())
    edge_kind = z3.Function('cfg_edge_kind', S.PyObj(), S.PyObj(), S.PyObj(), S.PyObj())
    LOOP_OPS = ('for_stmt', 'forin_stmt', 'for_value_stmt', 'while_stmt', 'dowhile_stmt')
    reg.const_values['LOOP_OPERATIONS'] = lambda ex, st: V(S.mk_tup(S.seq_of(*[S.mk_str(z3.StringVal(o)) for o in LOOP_OPS])), TupleOf(Str))

    @reg.extern('lian.util.util.graph_predecessors', 'util.graph_predecessors(cfg, node): a fresh list of the predecessor ids (ints) of node in cfg')
    def _preds(ex, st, node, args, kwargs):
        r = ex.alloc(st, 'list')
        seq = preds(args[0].t, args[1].t)
        st.set_field('list', z3.Store(st.field('list'), S.addr(r), seq))
        st.assume(z3.ForAll([kq], z3.Implies(z3.And(kq >= 0, kq < z3.Length(seq)), S.is_int(S.at(seq, kq))), patterns=[S.at(seq, kq)]))
        return V(r, List(Int))

    @reg.extern('lian.util.util.get_graph_edge_weight', 'util.get_graph_edge_weight(cfg, src, dst): the kind stored on that CFG edge (bounded stand-in on the real function; fixed in 1e368fa)')
    def _weight(ex, st, node, args, kwargs):
        return V(edge_kind(args[0].t, args[1].t, args[2].t), Any)

    @reg.extern('lian.util.util.graph_successors', 'util.graph_successors(cfg, node): a fresh list')
    def _succ(ex, st, node, args, kwargs):
        r = ex.alloc(st, 'list')
        st.set_field('list', z3.Store(st.field('list'), S.addr(r), S.fresh('succ', S.SeqP())))
        return V(r, List(Any))
    for cls_ in ('SymbolGraph', 'StateFlowGraph'):
        @reg.extern_method(cls_, 'add_edge', f'{cls_}.add_edge: records an edge in the graph object (no effect on the definition tables)')
        def _add_edge(ex, st, node, recv, args, kwargs):
            return V(S.NONE(), NoneT)
    for cls_ in ('SFGNode', 'SFGEdge'):
        @reg.extern('lian.common_structs.' + cls_, f'{cls_}(...): a graph node/edge record')
        def _mk(ex, st, node, args, kwargs, _c=cls_):
            return V(S.fresh(_c.lower()), Any)
    reg.add(Contract(CS, 'ComputeFrame.get_context', dict(self=FR), returns=Any, ensures=[('the-call-site', lambda c: c.res == c.old.attr(c.p.self, 'call_site'))], modifies=lambda c: {}))

    pq = z3.Const('p', S.PyObj())
    LOOP_BACK = S.mk_int(z3.IntVal(6))
    FIRST_ROUND = 0

    def status_of(h, fr, p):
        return z3.Select(h.val(h.attr(fr, 'stmt_id_to_status')), p)

    def out_old(c, p):
        return c.pre.dom(c.pre.attr(status_of(c.pre, c.p.frame, p), 'out_symbol_bits'))

    def is_loop(c):
        op = c.pre.attr(c.p.stmt, 'operation')
        return z3.Or(*[op == S.mk_str(z3.StringVal(o)) for o in LOOP_OPS])

    def selected(c, p):
        """which predecessors feed the meet: all of them, except at a loop header: the non-back-edge ones in round one, the back-edge ones afterwards"""
        k_ = edge_kind(c.pre.attr(c.p.frame, 'cfg'), p, c.p.stmt_id)
        first = S.ival(z3.Select(c.pre.val(c.pre.attr(c.p.frame, 'stmt_counters')), c.p.stmt_id)) == FIRST_ROUND
        return z3.Or(z3.Not(is_loop(c)), z3.If(first, k_ != LOOP_BACK, k_ == LOOP_BACK))

    def P_(c):
        return preds(c.pre.attr(c.p.frame, 'cfg'), c.p.stmt_id)

    def in_prefix(seq, upto, p):
        return z3.Exists([kq], z3.And(kq >= 0, kq < upto, S.at(seq, kq) == p), patterns=[S.at(seq, kq)])

    def feeds(c, x, seq, upto):
        """x is in OUT (at entry) of one of the first `upto` statements of seq that have a status"""
        e = S.at(seq, kq)
        return z3.Exists([kq], z3.And(kq >= 0, kq < upto, z3.Select(c.pre.dom(c.pre.attr(c.p.frame, 'stmt_id_to_status')), e), z3.Select(out_old(c, e), x)), patterns=[S.at(seq, kq)])

    def ars_tables_stable(c, h):
        fr = c.p.frame
        return z3.And(*[h.attr(fr, n) == c.pre.attr(fr, n) for n in ('stmt_id_to_status', 'cfg', 'stmt_counters', 'is_first_round', 'symbol_state_space', 'symbol_graph', 'state_flow_graph',
                                                                   'all_symbol_defs', 'defined_symbols', 'symbol_bit_vector_manager')],
                      h.dom(c.pre.attr(fr, 'stmt_id_to_status')) == c.pre.dom(c.pre.attr(fr, 'stmt_id_to_status')),
                      h.val(c.pre.attr(fr, 'stmt_id_to_status')) == c.pre.val(c.pre.attr(fr, 'stmt_id_to_status')))

    def ars_in_post(direction):
        def f(c):
            """IN' == union of OUT(p) over the selected predecessors that have a status"""
            st_ = status_of(c.pre, c.p.frame, c.p.stmt_id)
            IN1 = c.new.dom(c.new.attr(st_, 'in_symbol_bits'))
            body = z3.Exists([pq], z3.And(S.member(P_(c), pq), selected(c, pq), z3.Select(c.pre.dom(c.pre.attr(c.p.frame, 'stmt_id_to_status')), pq), z3.Select(out_old(c, pq), xq)))
            return S.forall([xq], z3.Implies(IN1[xq], body) if direction == 'sub' else z3.Implies(body, IN1[xq]))
        return f
    ARS_STOP = 'if self.analysis_phase_id == ANALYSIS_PHASE_ID.PRELIM_SEMANTICS'
    jq, j2q = z3.Ints('j j2')

    def fold_terms(c, D):
        space = S.addr(c.pre.attr(c.p.frame, 'symbol_state_space'))
        item = lambda j: space_item(space, S.at(D, j))
        is_sym = lambda j: z3.And(S.is_ref(item(j)), S.tyof(S.addr(item(j))) == S.type_id('Symbol'))
        symj = lambda j: c.pre.attr(item(j), 'symbol_id')
        key = lambda j: S.mk_val('SymbolDefNode', S.at(D, j), symj(j), c.p.stmt_id)
        gen = lambda x, n: z3.Exists([jq], z3.And(jq >= 0, jq < n, is_sym(jq), x == key(jq)), patterns=[S.at(D, jq)])
        killed = lambda x, n: z3.Exists([jq], z3.And(jq >= 0, jq < n, is_sym(jq), symj(jq) == sym(x)), patterns=[S.at(D, jq)])
        return item, is_sym, symj, key, gen, killed

    def fold_inv(c):
        D = c.head.list(c.l.all_defined_symbols)
        item, is_sym, symj, key, gen, killed = fold_terms(c, D)
        IN = c.head.dom(c.head.attr(c.l.status, 'in_symbol_bits'))
        CB = c.cur.dom(c.l.current_bits)
        AD = c.cur.dom(c.pre.attr(c.p.frame, 'all_symbol_defs'))
        return z3.And(
            c.cur.list(c.l.all_defined_symbols) == D,
            S.forall([xq], z3.Implies(CB[xq], z3.And(AD[xq], z3.Or(gen(xq, c.i), z3.And(IN[xq], z3.Not(killed(xq, c.i)))))), patterns=[CB[xq]]),
            S.forall([xq], z3.Implies(z3.And(IN[xq], z3.Not(killed(xq, c.i))), CB[xq]), patterns=[IN[xq]]),
            S.forall([xq], z3.Implies(IN[xq], AD[xq]), patterns=[IN[xq]]),
            S.forall([jq], z3.Implies(z3.And(jq >= 0, jq < c.i, is_sym(jq)), z3.Or(CB[key(jq)], z3.Exists([j2q], z3.And(j2q > jq, j2q < c.i, is_sym(j2q), symj(j2q) == symj(jq)), patterns=[S.at(D, j2q)]))),
                     patterns=[S.at(D, jq)]))

    def fold_post(which):
        def f(c):
            if not stopped_(c):
                return z3.BoolVal(True)
            D = c.new.list(c.l.all_defined_symbols)
            item, is_sym, symj, key, gen, killed = fold_terms(c, D)
            st_ = status_of(c.pre, c.p.frame, c.p.stmt_id)
            IN = c.new.dom(c.new.attr(st_, 'in_symbol_bits'))
            OUT = c.new.dom(c.new.attr(st_, 'out_symbol_bits'))
            n = z3.Length(D)
            if which == 'kill':
                return S.forall([xq], z3.Implies(OUT[xq], z3.Or(gen(xq, n), z3.And(IN[xq], z3.Not(killed(xq, n))))))
            if which == 'pass':
                return S.forall([xq], z3.Implies(z3.And(IN[xq], z3.Not(killed(xq, n))), OUT[xq]))
            return S.forall([jq], z3.Implies(z3.And(jq >= 0, jq < n, is_sym(jq)), z3.Or(OUT[key(jq)], z3.Exists([j2q], z3.And(j2q > jq, j2q < n, is_sym(j2q), symj(j2q) == symj(jq))))))
        return f
    stopped_ = lambda c: bool(c.st.ghost.get('$stopped'))

    def cut(ex, st, name, f):
        ex.oblige(st, 'cut:' + name, f, kind='lemma')
        st.assume(f)

    def cut_after_filter(ex, st, node):
        """after the selection loop: the new list holds exactly the selected predecessors"""
        c = ex.ctx(st)
        L = c.cur.list(st.env['new_parent_stmt_ids'].t)
        cut(ex, st, 'the-filtered-list-holds-exactly-the-selected-predecessors',
            S.forall([pq], S.member(L, pq) == z3.And(S.member(P_(c), pq), selected(c, pq)), patterns=[S.member(L, pq)]))

    def cut_after_union(ex, st, node):
        """after the union loop: IN is the union over the members of the (possibly filtered) predecessor list"""
        c = ex.ctx(st)
        Q = c.cur.list(st.env['parent_stmt_ids'].t)
        A = c.cur.dom(c.cur.attr(st.env['status'].t, 'in_symbol_bits'))
        has = lambda p: z3.Select(c.pre.dom(c.pre.attr(c.p.frame, 'stmt_id_to_status')), p)
        cut(ex, st, 'IN-contains-the-OUT-of-every-listed-predecessor-with-a-status',
            S.forall([pq, xq], z3.Implies(z3.And(S.member(Q, pq), has(pq), z3.Select(out_old(c, pq), xq)), A[xq]), patterns=[z3.MultiPattern(S.member(Q, pq), z3.Select(out_old(c, pq), xq))]))
        cut(ex, st, 'IN-contains-the-OUT-of-every-selected-predecessor-with-a-status',
            S.forall([pq, xq], z3.Implies(z3.And(S.member(P_(c), pq), selected(c, pq), has(pq), z3.Select(out_old(c, pq), xq)), A[xq]),
                     patterns=[z3.MultiPattern(S.member(P_(c), pq), z3.Select(out_old(c, pq), xq))]))
    reg.add(Contract(PS, 'P2PrelimSemanticAnalysis.analyze_reachable_symbols', dict(self=P2, stmt_id=Int, stmt=Obj('GIRRow'), frame=FR), returns=Any,
                     stop_before=ARS_STOP, merge_before=['for each_parent_stmt_id in parent_stmt_ids:\n    if each_parent_stmt_id in frame.stmt_id_to_status'],
                     requires=[('the-statement-has-a-status-and-a-round-counter', lambda c: z3.And(
                         z3.Select(c.old.dom(c.old.attr(c.p.frame, 'stmt_id_to_status')), c.p.stmt_id), z3.Select(c.old.dom(c.old.attr(c.p.frame, 'stmt_counters')), c.p.stmt_id),
                         z3.Select(c.old.dom(c.old.attr(c.p.frame, 'is_first_round')), c.p.stmt_id))),
                         ('definitions-table-invariant', lambda c: defs_inv(c.old, c.p.frame)),
                         ('bit-tables-inverse', lambda c: bvm_inv(c.old, c.old.attr(c.p.frame, 'symbol_bit_vector_manager'))),
                         ('the-definitions-table-is-not-a-bit-position-table', lambda c: z3.Distinct(
                             c.old.attr(c.p.frame, 'defined_symbols'), c.old.attr(c.old.attr(c.p.frame, 'symbol_bit_vector_manager'), 'id_to_bit_pos'),
                             c.old.attr(c.old.attr(c.p.frame, 'symbol_bit_vector_manager'), 'bit_pos_to_id'), c.old.attr(c.p.frame, 'stmt_id_to_status'),
                             c.old.attr(c.p.frame, 'stmt_counters'), c.old.attr(c.p.frame, 'is_first_round'))),
                         ('every-definition-in-an-OUT-set-is-registered', lambda c: S.forall([pq, xq], z3.Implies(
                             z3.And(z3.Select(c.old.dom(c.old.attr(c.p.frame, 'stmt_id_to_status')), pq), z3.Select(c.old.dom(c.old.attr(status_of(c.old, c.p.frame, pq), 'out_symbol_bits')), xq)),
                             z3.Select(c.old.dom(c.old.attr(c.p.frame, 'all_symbol_defs')), xq)),
                             patterns=[z3.Select(c.old.dom(c.old.attr(status_of(c.old, c.p.frame, pq), 'out_symbol_bits')), xq)])),
                         ('the-bit-sets-of-the-statuses-are-not-definition-tables', lambda c: S.forall([pq], z3.Implies(
                             z3.Select(c.old.dom(c.old.attr(c.p.frame, 'stmt_id_to_status')), pq),
                             z3.And(not_a_defs_table(c.old, c.p.frame, c.old.attr(status_of(c.old, c.p.frame, pq), 'out_symbol_bits')),
                                    not_a_defs_table(c.old, c.p.frame, c.old.attr(status_of(c.old, c.p.frame, pq), 'in_symbol_bits')))),
                             patterns=[status_of(c.old, c.p.frame, pq)]))],
                     loops={1: LoopSpec(invariants=[
                         ('the-new-list-holds-exactly-the-selected-predecessors-seen-so-far', lambda c: z3.And(
                             S.addr(c.l.new_parent_stmt_ids) >= c.pre.next, ars_tables_stable(c, c.cur),
                             S.forall([pq], S.member(c.cur.list(c.l.new_parent_stmt_ids), pq) == z3.And(in_prefix(c.seq, c.i, pq), selected(c, pq)),
                                      patterns=[S.member(c.cur.list(c.l.new_parent_stmt_ids), pq)])))],
                         modifies=lambda c: {'list': [c.l.new_parent_stmt_ids]}),
                            2: LoopSpec(invariants=[
                                ('IN-is-the-union-of-the-OUT-sets-of-the-predecessors-seen-so-far', lambda c: z3.And(
                                    ars_tables_stable(c, c.cur), c.cur.attr(c.l.status, 'in_symbol_bits') == c.head.attr(c.l.status, 'in_symbol_bits'),
                                    S.forall([xq], z3.Select(c.cur.dom(c.head.attr(c.l.status, 'in_symbol_bits')), xq) == feeds(c, xq, c.seq, c.i),
                                             patterns=[z3.Select(c.cur.dom(c.head.attr(c.l.status, 'in_symbol_bits')), xq)])))],
                                modifies=lambda c: {'dom': [c.head.attr(c.l.status, 'in_symbol_bits')]}),
                            3: LoopSpec(invariants=[
                                ('tables-keep-their-invariants;-IN-is-not-touched-by-the-fold', lambda c: z3.And(
                                    ars_tables_stable(c, c.cur), defs_inv(c.cur, c.p.frame), bvm_inv(c.cur, c.pre.attr(c.p.frame, 'symbol_bit_vector_manager')),
                                    c.cur.attr(c.l.status, 'in_symbol_bits') == c.head.attr(c.l.status, 'in_symbol_bits'),
                                    c.cur.dom(c.head.attr(c.l.status, 'in_symbol_bits')) == c.head.dom(c.head.attr(c.l.status, 'in_symbol_bits')),
                                    S.addr(c.l.current_bits) >= c.pre.next, S.addr(c.head.attr(c.l.status, 'in_symbol_bits')) >= c.pre.next,
                                    c.l.current_bits != c.head.attr(c.l.status, 'in_symbol_bits'), not_a_defs_table(c.cur, c.p.frame, c.l.current_bits),
                                    not_a_defs_table(c.cur, c.p.frame, c.head.attr(c.l.status, 'in_symbol_bits')))),
                                ('the-fold:-generated-here,-or-incoming-and-of-a-symbol-not-defined-so-far', fold_inv)])},
                     ghost_hooks={'after_stmt:parent_stmt_ids = new_parent_stmt_ids': cut_after_filter,
                                  'before_stmt:if self.analysis_phase_id in [ANALYSIS_PHASE_ID.PRELIM_SEMANTICS]': cut_after_union},
                     ensures=[('IN-contains-only-definitions-leaving-a-selected-predecessor-(all;-at-a-loop-header:-non-back-edges-in-round-one,-back-edges-afterwards)', ars_in_post('sub')),
                              ('IN-contains-every-definition-leaving-a-selected-predecessor', ars_in_post('sup')),
                              ('OUT-holds-only-definitions-generated-here-or-incoming-definitions-of-symbols-NOT-defined-here-(kill)', fold_post('kill')),
                              ('OUT-holds-every-incoming-definition-of-a-symbol-not-defined-here-(pass-through)', fold_post('pass')),
                              ('OUT-holds-the-last-definition-generated-here-for-each-symbol-(gen)', fold_post('gen'))],
                     modifies=lambda c: {'*': True}))
    # ---- update_symbols_if_changed: the change notification after the transfer (uses re-bound when IN changed, successors re-queued when OUT changed) ------------------
    @reg.extern_method('SimpleSet', 'add', 'SimpleSet.add(list of statement ids): queues them for a symbol update (ghost flag; the set itself is C13)')
    def _ss_add(ex, st, node, recv, args, kwargs):
        st.ghost['requeued'] = z3.BoolVal(True)
        return V(recv.t, Opaque('SimpleSet'))

    def usic_ghost(ex, st):
        st.ghost['rebound_full'] = z3.BoolVal(False)
        st.ghost['rebound_implicit'] = z3.BoolVal(False)
        st.ghost['requeued'] = z3.BoolVal(False)

    def before_rebind(ex, st, bound):
        mode = ex.truth(bound['only_implicitly_used_symbols'], st) if hasattr(ex, 'truth') else S.bval(bound['only_implicitly_used_symbols'].t)
        st.ghost['rebound_implicit'] = z3.Or(st.ghost['rebound_implicit'], mode)
        st.ghost['rebound_full'] = z3.Or(st.ghost['rebound_full'], z3.Not(mode))
    reg.add(Contract(PS, 'P2PrelimSemanticAnalysis.update_used_symbols_to_symbol_graph', dict(self=P2, stmt_id=Any, stmt=Any, frame=FR, only_implicitly_used_symbols=Any), returns=Any,
                     opaque=True, modifies=lambda c: {}, note='binds the uses of the statement to the definitions in its IN set (edges of the symbol graph; C06 second half, not under contract)'))

    def bits(h, x):
        return h.dom(x)
    changed_in = lambda c: bits(c.old, c.old.attr(c.p.status, 'in_symbol_bits')) != bits(c.old, c.p.old_in_symbol_bits)
    changed_out = lambda c: bits(c.old, c.old.attr(c.p.status, 'out_symbol_bits')) != bits(c.old, c.p.old_out_symbol_bits)
    reg.add(Contract(PS, 'P2PrelimSemanticAnalysis.update_symbols_if_changed',
                     dict(self=P2, stmt_id=Int, stmt=Obj('GIRRow'), frame=FR, status=Obj('StmtStatus'), old_in_symbol_bits=Set(Any), old_out_symbol_bits=Set(Any), def_changed=Bool, use_changed=Bool),
                     returns=NoneT, ghost_init=usic_ghost, before_call_hooks={'P2PrelimSemanticAnalysis.update_used_symbols_to_symbol_graph': before_rebind},
                     ensures=[('the-uses-of-the-statement-are-re-bound-to-their-reaching-definitions-whenever-its-IN-set-changed',
                               lambda c: z3.Implies(z3.And(changed_in(c), z3.Not(S.bval(c.p.use_changed))), c.g.rebound_full)),
                              ('implicit-uses-are-re-bound-when-the-use-set-changed', lambda c: z3.Implies(S.bval(c.p.use_changed), c.g.rebound_implicit)),
                              ('successors-are-queued-again-whenever-the-OUT-set-or-the-definition-changed',
                               lambda c: z3.Implies(z3.Or(changed_out(c), S.bval(c.p.def_changed)), c.g.requeued)),
                              ('nothing-is-re-bound-or-queued-when-nothing-changed',
                               lambda c: z3.Implies(z3.And(z3.Not(changed_in(c)), z3.Not(changed_out(c)), z3.Not(S.bval(c.p.def_changed)), z3.Not(S.bval(c.p.use_changed))),
                                                    z3.And(z3.Not(c.g.rebound_full), z3.Not(c.g.rebound_implicit), z3.Not(c.g.requeued))))],
                     modifies=lambda c: {'list': (lambda a: a >= c.old.next)}))
    # ---- rerun_analyze_reachable_symbols (prefix up to its fold): the implicit definitions found by the state analysis are folded into the statement's CURRENT OUT set ----
    def rr_start(ex, st, node):
        cx = ex.ctx(st)
        status = z3.Select(cx.cur.val(cx.cur.attr(st.env['frame'].t, 'stmt_id_to_status')), st.env['stmt_id'].t)
        ex.oblige(st, 're-run:the-fold-of-the-implicit-definitions-starts-from-the-OUT-set-the-statement-has-(its-own-kill-and-gen-are-kept)',
                  cx.cur.dom(st.env['current_bits'].t) == cx.cur.dom(cx.cur.attr(status, 'out_symbol_bits')), kind='lemma')
        ex.oblige(st, 're-run:the-OUT-set-to-compare-with-afterwards-is-the-one-before-the-fold',
                  cx.cur.dom(st.env['old_out_symbol_bits'].t) == cx.cur.dom(cx.cur.attr(status, 'out_symbol_bits')), kind='lemma')
    reg.add(Contract(PS, 'P2PrelimSemanticAnalysis.rerun_analyze_reachable_symbols', dict(self=P2, stmt_id=Int, stmt=Obj('GIRRow'), frame=FR, result_flag=Any), returns=Any,
                     stop_before='for defined_symbol_index in all_defined_symbols', ghost_hooks={'before_stmt:for defined_symbol_index in all_defined_symbols': rr_start},
                     requires=[('the-statement-has-a-status', lambda c: z3.Select(c.old.dom(c.old.attr(c.p.frame, 'stmt_id_to_status')), c.p.stmt_id))],
                     modifies=lambda c: {}))
    return reg


def schedule_coherence(reg, tier):
    """the schedule obligation on the real analyze_stmts (own process: it uses the C13 registry, whose value classes differ from this module's)"""
    import json, os, subprocess, sys
    here = os.path.dirname(os.path.abspath(__file__))
    p = subprocess.run([sys.executable, os.path.join(here, 'c06_schedule.py'), '8000' if tier == 'quick' else '20000'], capture_output=True, text=True, timeout=1500,
                       cwd=os.path.dirname(here))
    lines = [l for l in p.stdout.splitlines() if l.startswith('{')]
    if p.returncode != 0 or not lines:
        raise RuntimeError('c06_schedule failed: ' + p.stderr[-500:])
    d = json.loads(lines[-1])
    if not d['results']:
        raise RuntimeError('c06_schedule generated no obligation')
    return d['results']


def bounded_edge_kind(tier, seed):
    """BOUNDED stand-in (never counted as proved): util.get_graph_edge_weight, trusted as `the kind stored on the edge` by the proof of analyze_reachable_symbols"""
    from lianvc import runner
    out, err = runner.run_replay(REPLAY, ['--bounded'], timeout=600)
    if out is None:
        return dict(name='util.get_graph_edge_weight vs trusted specification', failed=True, is_violation=False, detail=err, bound='16 edge shapes')
    return dict(name='util.get_graph_edge_weight returns the stored edge kind (DiGraph and MultiDiGraph)', kind='bounded', bound=out.get('bound'), cases=out.get('cases'),
                failed=bool(out.get('witnesses')), is_violation=True, detail=out.get('witnesses', [])[:2], failing_input=(out.get('witnesses') or [None])[0])


bounded_edge_kind.quick = True
BOUNDED_CHECKS = [bounded_edge_kind]
EXTRA_OBLIGATIONS = [schedule_coherence]

ASSUMPTIONS = [
    'THE FIXPOINT IS NOT PROVED: what is proved are the dataflow EQUATIONS at one statement (meet over the selected predecessors, kill/gen transfer, fold over the defined symbols, '
    'use lookup) and symbol identity of temporaries. That analyze_stmts iterates them to the classical solution is false on this tree (known finding F8) and, with the bounded '
    'round counters, not guaranteed even with a coherent worklist; the loop-free "exactly the classical solution" sentence is therefore not decided',
    'update_symbols_if_changed is under contract (WHEN uses are re-bound / successors re-queued); what update_used_symbols_to_symbol_graph writes is not', 
    'analyze_reachable_symbols is verified up to (not including) the change notification (update_symbols_if_changed / update_used_symbols_to_symbol_graph): the edges written into the '
    'symbol graph and the SFG are not under contract; SymbolGraph/StateFlowGraph.add_edge, SFGNode, SFGEdge are opaque records',
    'util.graph_predecessors returns the predecessor ids of the CFG (uninterpreted), util.get_graph_edge_weight the kind stored on the edge (bounded stand-in on the real function); '
    'the CFG itself (C04) is an input',
    'SymbolStateSpace[index] is an uninterpreted function of (space, index): the space is not modified by the functions under contract; Symbol.symbol_id values are ints',
    'SymbolDefNode/StateDefNode are immutable values (verified __eq__/__hash__ for SymbolDefNode; fields ints); every definition held in an OUT set is registered in all_symbol_defs '
    '(precondition of analyze_reachable_symbols; established by update_current_symbol_bit, the only producer)',
    'heap shape preconditions: the per-symbol definition sets, all_symbol_defs, the bit-position tables and the IN/OUT sets of the statuses are pairwise different objects',
    'Resolver.resolve_symbol_source_decl, Loader.assign_new_unique_negative_id are opaque (scope resolution is C05); add_status_with_symbol_id_sync: only the temporaries clause is '
    'stated, the ids of named variables depend on the resolver',
    'rerun_analyze_reachable_symbols is under contract only up to its fold loop (it starts from the current OUT set); the fold itself, get_used_symbol_indexes, update_used_symbols_to_symbol_graph, adjust_defined_symbols_and_init_bit_vector are not under contract',
]
EXPLANATION = ('Deductive proof on the real code of the reaching-definition equations: BitVectorManager kill/gen are set difference/union, update_current_symbol_bit is '
               'OUT = GEN U (IN - KILL) and keeps the definition tables consistent, analyze_reachable_symbols computes IN as the union of OUT over exactly the selected predecessors '
               '(loop-header round rule included) and OUT as the fold of the transfer over the defined symbols (kill, pass-through, gen), check_reachable_symbol_defs returns the '
               'available definitions of the used symbol, compiler temporaries keep one symbol id. The worklist schedule is a recorded finding (F8), the fixpoint is not claimed.')
QUICK_CANARIES = {
    'BitVectorManager.kill_bit_ids': ['delete-stmt[bit_vector.discard(bit_id)]', 'negate-condition'],
    'BitVectorManager.gen_bit_ids': ['delete-stmt[bit_vector.add(bit_id)]'],
    'BitVectorManager.add_bit_id': ['delete-stmt[self.counter += 1]', 'delete-stmt[self.bit_pos_to_id[self.counter] = bit_id]'],
    'P2PrelimSemanticAnalysis.update_current_symbol_bit': ['delete-stmt[current_bits = frame.symbol_bit_vector_manager.kill_bit_ids', 'delete-stmt[frame.all_symbol_defs.add(bit_id)]',
                                                           'delete-stmt[frame.defined_symbols[symbol_id].add(bit_id)]'],
    'P2PrelimSemanticAnalysis.check_reachable_symbol_defs': ['negate-condition', 'delete-stmt[reachable_symbol_defs = available_symbol_defs & frame.defined_symbols[used_symbol_id]]'],
    'P2PrelimSemanticAnalysis.update_symbols_if_changed': ['swap-and-or', 'flip-comparison', 'delete-stmt[frame.stmts_with_symbol_update.add('],
    'P2PrelimSemanticAnalysis.analyze_reachable_symbols': ['flip-comparison', 'delete-stmt[status.in_symbol_bits |= frame.stmt_id_to_status[each_parent_stmt_id].out_symbol_bits]',
                                                           'delete-stmt[current_bits = self.update_current_symbol_bit(key, frame, current_bits)]'],
    'StmtDefUseAnalysis.add_status_with_symbol_id_sync': ['negate-condition'],
}
MIN_CANARY_KILL_RATIO = 0.75
EQUIVALENT_MUTANTS = ('delete-stmt[return True] @L18', 'delete-stmt[return True] @L29')
