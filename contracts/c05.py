"""C05 — Names are bound to the declaration selected by lexical scoping: the selection step and the scope corrections, proved on the real code.

Proved (all summaries, all scope tables):
  core/resolver.py  Resolver.resolve_symbol_source_decl: the scope handed to organize_return_value declares the name, is visible (in the available set of the statement's scope
                    or an implicit root), and is the maximum id of all such scopes; with source_symbol_must_be_global only scope 0; otherwise the unresolved default
                    (SourceSymbolScopeInfo(unit, -1, -1)) is returned, also for an empty name and for a statement without scope
  basics/scope_hierarchy.py  UnitScopeHierarchyAnalysis.correct_scopes: a declaration is re-homed into scope S only if it was read from the block S designates for it
                    (class fields / methods / nested classes, method parameters, for/with initialisers) and, for class methods, only if it is a DIRECT child of the methods block
  lemma             on a chain of scopes in which every parent id is smaller than its child's id, the maximum id is the innermost scope
  basics/stmt_def_use_analysis.py  add_status_with_symbol_id_sync: only the name of a `global` statement is looked up in the root scope alone; `nonlocal` names, ordinary
                    definitions and every used name go through the lexical scope chain (obligations before each call of the resolver; generated in a sub-process over the C06 registry)
Recorded finding (F5): the candidate set is (implicit roots | available) & declaring, so a declaration in a sibling top-level block is selected.
"""
import ast
import z3
from lianvc import sorts as S
from lianvc.sorts import Any, Int, Bool, Str, NoneT, Opt, List, Dict, Set, Tuple, TupleOf, Obj, Val, Fn, Opaque
from lianvc.contracts import Contract, ClassInfo, LoopSpec, Registry
from lianvc.engine import V, Outcome, Unsupported, below
from contracts import shared

PROPERTY = 'C05'
REPLAY = 'c05_replay.py'
RS = 'src/lian/core/resolver.py'
SH = 'src/lian/basics/scope_hierarchy.py'
CS = 'src/lian/common_structs.py'


def build():
    reg = Registry()
    shared.register_util(reg)
    reg.add_class(ClassInfo('SourceSymbolScopeInfo', CS, dict(source_unit_id=Any, source_symbol_id=Any, decl_scope_id=Any, current_symbol_id=Any)))
    reg.add_class(ClassInfo('UnitSymbolDeclSummary', CS, dict(unit_id=Any, symbol_name_to_scope_ids=Dict(Any, Set(Int)), scope_id_to_symbol_info=Dict(Int, Dict(Any, Int)),
                                                              scope_id_to_available_scope_ids=Dict(Int, Set(Int)))))
    reg.add_class(ClassInfo('Loader', RS, {}, kind='opaque'))
    reg.add_class(ClassInfo('Resolver', RS, dict(loader=Opaque('Loader'), implicit_root_scopes_cache=Any)))
    RES, SUM = Obj('Resolver'), Obj('UnitSymbolDeclSummary')
    xq = z3.Const('x', S.PyObj())

    @reg.extern('lian.common_structs.SourceSymbolScopeInfo', 'SourceSymbolScopeInfo(unit, symbol, scope[, current]): a fresh record (dataclass; current defaults to the symbol id)')
    def _ssi(ex, st, node, args, kwargs):
        r = ex.alloc(st, 'SourceSymbolScopeInfo')
        vals = [a.t for a in args] + [S.mk_int(z3.IntVal(-1))] * (4 - len(args))
        for f, t in zip(('source_unit_id', 'source_symbol_id', 'decl_scope_id', 'current_symbol_id'), vals):
            st.set_field('attr:' + f, z3.Store(st.field('attr:' + f), S.addr(r), t))
        return V(r, Obj('SourceSymbolScopeInfo'))
    summary_of = z3.Function('unit_symbol_decl_summary', z3.IntSort(), S.PyObj(), S.PyObj())
    scope_of = z3.Function('scope_of_stmt', z3.IntSort(), S.PyObj(), z3.IntSort())

    @reg.extern_method('Loader', 'get_unit_symbol_decl_summary', 'Loader.get_unit_symbol_decl_summary(unit): the stored summary object of that unit (C15)')
    def _sum(ex, st, node, recv, args, kwargs):
        t = summary_of(S.addr(recv.t), args[0].t)
        st.assume(S.has_type(t, SUM, z3.Int('next_ref0')))
        return V(t, SUM)

    @reg.extern_method('Loader', 'convert_stmt_id_to_scope_id', 'Loader.convert_stmt_id_to_scope_id(stmt): the scope id recorded for the statement, -1 if none')
    def _scope(ex, st, node, recv, args, kwargs):
        return V(S.mk_int(scope_of(S.addr(recv.t), args[0].t)), Int)
    reg.add(Contract(RS, 'Resolver.resolve_implicit_root_scopes', dict(self=RES, unit_id=Any), returns=Set(Int), opaque=True, modifies=lambda c: {'*': (lambda a: a >= c.old.next)},
                     ensures=[('not-one-of-the-summary-tables', lambda c: z3.BoolVal(True))],
                     note='top-level blocks of the unit (scope_id 0, BLOCK kind), cached per unit; pure as far as the summary is concerned'))
    reg.add(Contract(RS, 'Resolver.organize_return_value', dict(self=RES, unit_id=Any, scope_id=Int, symbol_name=Any, summary=SUM, default_return=Obj('SourceSymbolScopeInfo')),
                     returns=Obj('SourceSymbolScopeInfo'), opaque=True, modifies=lambda c: {},
                     note='turns (scope, name) into the declaration record; import indirection (import graph) is not under contract'))

    def summ(c):
        h = (c.pre or c.old)
        return summary_of(S.addr(h.attr(c.p.self, 'loader')), c.p.unit_id)

    def declaring(c, s_):
        """scope s declares the name"""
        d = (c.pre or c.old).attr(summ(c), 'symbol_name_to_scope_ids')
        return z3.And(z3.Select((c.pre or c.old).dom(d), c.p.symbol_name), z3.Select((c.pre or c.old).dom(z3.Select((c.pre or c.old).val(d), c.p.symbol_name)), s_))

    def available(c, s_):
        cur = S.mk_int(scope_of(S.addr((c.pre or c.old).attr(c.p.self, 'loader')), c.p.stmt_id))
        a = (c.pre or c.old).attr(summ(c), 'scope_id_to_available_scope_ids')
        return z3.And(z3.Select((c.pre or c.old).dom(a), cur), z3.Select((c.pre or c.old).dom(z3.Select((c.pre or c.old).val(a), cur)), s_))

    def hook_choice(ex, st, node):
        c = ex.ctx(st)
        if 'nearest_scope_id' in st.env:
            ch = st.env['nearest_scope_id'].t
            roots = c.cur.dom(st.env['implicit_root_scope_ids'].t)
            ex.oblige(st, 'choice:the-chosen-scope-declares-the-name', declaring(c, ch), kind='lemma')
            ex.oblige(st, 'choice:the-chosen-scope-is-visible-from-the-statement-(available-set-of-its-scope,-or-an-implicit-root)', z3.Or(available(c, ch), roots[ch]), kind='lemma')
            ex.oblige(st, 'choice:no-visible-declaring-scope-has-a-larger-id-(innermost-on-a-chain)',
                      z3.ForAll([xq], z3.Implies(z3.And(declaring(c, xq), z3.Or(available(c, xq), roots[xq])), S.ival(xq) <= S.ival(ch))), kind='lemma')
            ex.oblige(st, 'enclosing:the-chosen-scope-encloses-the-statement-(is-in-the-available-set-of-its-scope)', available(c, ch), kind='lemma')
        else:
            ex.oblige(st, 'choice:a-symbol-that-must-be-global-is-looked-up-in-scope-0-only-and-scope-0-declares-it',
                      z3.And(st.env['global_scope_id'].t == S.mk_int(z3.IntVal(0)), declaring(c, S.mk_int(z3.IntVal(0)))), kind='lemma')

    def unresolved(c):
        """the result is the unresolved default record"""
        return z3.And(S.addr(c.res) >= c.old.next, c.new.attr(c.res, 'source_unit_id') == c.p.unit_id, c.new.attr(c.res, 'source_symbol_id') == S.mk_int(z3.IntVal(-1)),
                      c.new.attr(c.res, 'decl_scope_id') == S.mk_int(z3.IntVal(-1)))

    def no_candidate(c):
        g = c.p.source_symbol_must_be_global
        zero = S.mk_int(z3.IntVal(0))
        cur = scope_of(S.addr((c.pre or c.old).attr(c.p.self, 'loader')), c.p.stmt_id)
        return z3.If(S.bval(g), z3.Not(declaring(c, zero)), z3.Or(cur == -1, z3.Not(z3.Exists([xq], z3.And(declaring(c, xq), available(c, xq))))))
    reg.add(Contract(RS, 'Resolver.resolve_symbol_source_decl', dict(self=RES, unit_id=Any, stmt_id=Any, symbol_name=Any, source_symbol_must_be_global=Bool),
                     returns=Obj('SourceSymbolScopeInfo'),
                     requires=[('the-name-is-a-string-or-None', lambda c: z3.Or(S.is_none(c.p.symbol_name), S.is_str(c.p.symbol_name))),
                               ('scope-ids-in-the-summary-are-ints', lambda c: S.forall([xq], z3.Implies(declaring(c, xq), S.is_int(xq))))],
                     before_call_hooks={'Resolver.organize_return_value': hook_choice}, local_types=dict(available_scope_ids=Set(Int)),
                     ensures=[('an-empty-name-is-unresolved', lambda c: z3.Implies(shared.empty(c.p.symbol_name, c.old), unresolved(c))),
                              ('a-name-no-visible-scope-declares-is-reported-unresolved-(when-no-implicit-root-declares-it-either)', lambda c: z3.Implies(
                                  z3.And(z3.Not(shared.empty(c.p.symbol_name, c.old)), no_candidate(c), z3.Or(S.bval(c.p.source_symbol_must_be_global), c.g.no_root_declares)), unresolved(c)))],
                     ghost_init=lambda ex, st: st.ghost.__setitem__('no_root_declares', z3.BoolVal(True)),
                     ghost_hooks={'after_call:Resolver.resolve_implicit_root_scopes': (lambda ex, st, bound, res, old: st.ghost.__setitem__(
                         'no_root_declares', z3.Not(z3.Exists([xq], z3.And(z3.Select(st.sel('dom', S.addr(res.t)), xq), z3.Select(
                             st.sel('dom', S.addr(st.env['symbol_decl_scope_ids'].t)), xq))))))},
                     modifies=lambda c: {'*': (lambda a: a >= c.old.next)}))
    # ---- correct_scopes: which declarations are re-homed, and into which scope --------------------------------------------------------------------------------
    reg.add_class(ClassInfo('GIRBlockViewer', SH, {}, kind='opaque'))
    reg.add_class(ClassInfo('ScopeSpace', SH, {}, kind='opaque'))
    reg.add_class(ClassInfo('Scope', SH, dict(scope_id=Any, stmt_id=Any)))
    reg.add_class(ClassInfo('GIRRow', SH, dict(stmt_id=Int, parent_stmt_id=Int, fields=Opt(Int), methods=Opt(Int), nested=Opt(Int), parameters=Opt(Int), init_body=Opt(Int), operation=Any)))
    reg.add_class(ClassInfo('UnitScopeHierarchyAnalysis', SH, dict(unit_gir=Opaque('GIRBlockViewer'), scope_space=Opaque('ScopeSpace'), stmt_id_to_scope_id_cache=Dict(Any, Any),
                                                                   class_stmt_ids=Set(Int), method_stmt_ids=Set(Int), for_stmt_ids=Set(Int), with_stmt_ids=Set(Int),
                                                                   method_id_to_parameter_ids=Dict(Any, Any), class_id_to_class_field_ids=Dict(Any, Any),
                                                                   class_id_to_class_method_ids=Dict(Any, Any))))
    USH = Obj('UnitScopeHierarchyAnalysis')
    kq = z3.Int('k')
    stmt_row = z3.Function('gir_stmt_row', z3.IntSort(), S.PyObj(), S.PyObj())
    block_view = z3.Function('gir_block_view', z3.IntSort(), S.PyObj(), S.PyObj())
    block_rows = z3.Function('gir_block_rows_with_operation', z3.IntSort(), S.PyObj(), S.SeqP())
    scope_item = z3.Function('scope_space_first_item', z3.IntSort(), S.PyObj(), S.PyObj())
    block_id_of = z3.Function('gir_view_block_id', z3.IntSort(), S.PyObj())

    @reg.extern_method('GIRBlockViewer', 'get_stmt_by_id', 'GIRBlockViewer.get_stmt_by_id(id): the statement row with that id (rows of the unit are pre-existing objects)')
    def _row(ex, st, node, recv, args, kwargs):
        t = stmt_row(S.addr(recv.t), args[0].t)
        st.assume(S.has_type(t, Obj('GIRRow'), z3.Int('next_ref0')))
        return V(t, Obj('GIRRow'))

    @reg.extern_method('GIRBlockViewer', 'read_block', 'GIRBlockViewer.read_block(block_id): a view of the rows of that block (all rows nested anywhere inside it)')
    def _blk(ex, st, node, recv, args, kwargs):
        r = ex.alloc(st, 'GIRBlockViewer')
        st.assume(block_id_of(S.addr(r)) == args[0].t)
        return V(r, Opaque('GIRBlockViewer'))

    @reg.extern_method('GIRBlockViewer', 'query_operation', 'GIRBlockViewer.query_operation(op): the rows of the view with that operation, as a fresh list')
    def _qop(ex, st, node, recv, args, kwargs):
        r = ex.alloc(st, 'list')
        seq = block_rows(S.addr(recv.t), args[0].t)
        st.set_field('list', z3.Store(st.field('list'), S.addr(r), seq))
        st.assume(z3.ForAll([kq], z3.Implies(z3.And(kq >= 0, kq < z3.Length(seq)), S.has_type(S.at(seq, kq), Obj('GIRRow'), z3.Int('next_ref0'))), patterns=[S.at(seq, kq)]))
        return V(r, List(Obj('GIRRow')))

    @reg.extern_method('ScopeSpace', 'find_first_by_id', 'ScopeSpace.find_first_by_id(id): the scope-space item of that statement (assumed present for every declaration row)')
    def _find(ex, st, node, recv, args, kwargs):
        t = scope_item(S.addr(recv.t), args[0].t)
        st.assume(S.has_type(t, Obj('Scope'), z3.Int('next_ref0')))
        return V(t, Obj('Scope'))

    @reg.extern('lian.util.util.add_to_dict_with_default_set', 'util.add_to_dict_with_default_set(d, key, value): d[key] becomes a set containing value (only d and fresh objects change)')
    def _add(ex, st, node, args, kwargs):
        d = args[0]
        a = S.addr(d.t)
        ns = ex.alloc(st, 'set')
        st.set_field('dom', z3.Store(st.field('dom'), a, z3.Store(st.sel('dom', a), args[1].t, True)))
        st.set_field('val', z3.Store(st.field('val'), a, z3.Store(st.sel('val', a), args[1].t, S.fresh('slot'))))
        return V(S.NONE(), NoneT)
    SITES = {  # local name of the declaration row -> (attribute of the scope statement naming the block, operation queried, owner table, extra clause)
        'variable_decl': None, 'method_decl': ('methods', 'method_decl', 'class_stmt_ids'), 'class_decl': ('nested', 'class_decl', 'class_stmt_ids'),
        'parameter_decl': ('parameters', 'parameter_decl', 'method_stmt_ids')}

    def hook_rehome(ex, st, node):
        """at `item.scope_id = stmt_id`"""
        c = ex.ctx(st)
        env = st.env
        owner = env['stmt_id'].t
        stmt = env['stmt'].t
        gir = S.addr(c.cur.attr(c.p.self, 'unit_gir'))
        if 'parameter_decl' in env and 'method_parameters_block' in env:
            decl, blk_attr, op, table, view = env['parameter_decl'].t, 'parameters', 'parameter_decl', 'method_stmt_ids', env['method_parameters_block'].t
        elif 'init_body_block' in env:
            decl, blk_attr, op, view = env['variable_decl'].t, 'init_body', 'variable_decl', env['init_body_block'].t
            table = 'with_stmt_ids' if st.ghost.get('in_with') else 'for_stmt_ids'
        elif 'class_decl' in env:
            decl, blk_attr, op, table, view = env['class_decl'].t, 'nested', 'class_decl', 'class_stmt_ids', env['nested_block'].t
        elif 'method_decl' in env:
            decl, blk_attr, op, table, view = env['method_decl'].t, 'methods', 'method_decl', 'class_stmt_ids', env['methods_block'].t
        else:
            decl, blk_attr, op, table, view = env['variable_decl'].t, 'fields', 'variable_decl', 'class_stmt_ids', env['fields_block'].t
        item = env['item'].t
        clauses = [stmt == stmt_row(gir, owner),
                   block_id_of(S.addr(view)) == c.cur.attr(stmt, blk_attr),
                   S.member(block_rows(S.addr(view), sv_(op)), decl),
                   item == scope_item(S.addr(c.cur.attr(c.p.self, 'scope_space')), c.cur.attr(decl, 'stmt_id'))]
        ex.oblige(st, 'rehome:a-declaration-is-moved-into-scope-S-only-if-it-was-read-from-the-block-S-designates-for-that-kind-of-declaration', z3.And(*clauses), kind='lemma')
        if blk_attr == 'methods':
            ex.oblige(st, 'rehome:only-a-DIRECT-child-of-the-methods-block-becomes-a-member-of-the-class-scope-(not-a-function-nested-in-a-method)',
                      c.cur.attr(decl, 'parent_stmt_id') == c.cur.attr(stmt, 'methods'), kind='lemma')

    def sv_(x):
        return S.mk_str(z3.StringVal(x))
    TABLES = ('stmt_id_to_scope_id_cache', 'method_id_to_parameter_ids', 'class_id_to_class_field_ids', 'class_id_to_class_method_ids')

    def cs_mod(c):
        mine = lambda a: z3.Or(a >= c.pre.next, *[a == S.addr(c.pre.attr(c.p.self, t)) for t in TABLES])
        return {'dom': mine, 'val': mine, 'attr:scope_id': True, 'list': (lambda a: a >= c.pre.next)}

    def tables_stable(c):
        return z3.And(*[c.cur.attr(c.p.self, t) == c.pre.attr(c.p.self, t) for t in TABLES + ('unit_gir', 'scope_space', 'class_stmt_ids', 'method_stmt_ids', 'for_stmt_ids', 'with_stmt_ids')])
    reg.add(Contract(SH, 'UnitScopeHierarchyAnalysis.correct_scopes', dict(self=USH), returns=NoneT,
                     ghost_hooks={'before_stmt:item.scope_id = stmt_id': hook_rehome,
                                  'before_stmt:for stmt_id in self.with_stmt_ids': (lambda ex, st, node: st.ghost.__setitem__('in_with', True))},
                     requires=[('the-id-tables-and-the-caches-are-distinct-objects', lambda c: z3.Distinct(
                         c.old.attr(c.p.self, 'stmt_id_to_scope_id_cache'), c.old.attr(c.p.self, 'method_id_to_parameter_ids'), c.old.attr(c.p.self, 'class_id_to_class_field_ids'),
                         c.old.attr(c.p.self, 'class_id_to_class_method_ids')))],
                     loops={k: LoopSpec(invariants=[('the-tables-stay-in-place', tables_stable)], modifies=cs_mod) for k in range(1, 11)},
                     modifies=lambda c: {'*': True}))
    # ---- relative imports: how many package levels `from ...mod import x` climbs (ImportHierarchy.analyze_import_stmt, prefix up to the path search) ------------------
    IH = 'src/lian/basics/import_hierarchy.py'
    reg.add_class(ClassInfo('ModuleNode', IH, dict(scope_id=Int)))
    reg.add_class(ClassInfo('UnitInfo', IH, dict(parent_module_id=Int, original_path=Any)))
    reg.add_class(ClassInfo('ImportStmt', IH, dict(alias=Any, name=Any, source=Any, stmt_id=Any)))
    reg.add_class(ClassInfo('ImportHierarchy', IH, dict(symbol_id_to_symbol_node=Dict(Any, Opt(Obj('ModuleNode'))), is_strict_parse_mode=Any)))
    IHO = Obj('ImportHierarchy')
    reg.const_values['INVALID'] = lambda ex, st: V(S.mk_bool(z3.BoolVal(False)), Bool)
    reg.add(Contract(IH, 'ImportHierarchy.validate_import_stmt', dict(self=IHO, unit_info=Obj('UnitInfo'), stmt=Obj('ImportStmt')), returns=Bool, opaque=True, modifies=lambda c: {},
                     allow_raise=('SystemExit',), note='shape check of the import statement (messages only)'))
    reg.add(Contract(IH, 'ImportHierarchy.get_import_path_from_stmt', dict(self=IHO, stmt=Obj('ImportStmt')), returns=Str, opaque=True, modifies=lambda c: {},
                     note='source + "." + name of the statement'))
    up = z3.Function('package_levels_up', z3.IntSort(), S.PyObj(), S.PyObj())

    def climbable(h, self_, x):
        m = h.attr(self_, 'symbol_id_to_symbol_node')
        n = z3.Select(h.val(m), x)
        return z3.And(z3.Select(h.dom(m), x), z3.Not(S.is_none(n)), S.ival(h.attr(n, 'scope_id')) != -1)

    def parent_of(h, self_, x):
        return h.attr(z3.Select(h.val(h.attr(self_, 'symbol_id_to_symbol_node')), x), 'scope_id')

    def up_def(ex, st):
        """package_levels_up(k, id): the module reached from id by climbing k package levels in the ENTRY heap, stopping for good at a module that has no recorded
        parent (root, unknown id, missing node) — the recursive definition the loop must implement"""
        h = ex.ctx(st).cur
        self_ = st.env['self'].t
        k = z3.Int('lk')
        x = z3.Const('lx', S.PyObj())
        st.assume(z3.ForAll([k, x], up(k, x) == z3.If(k <= 0, x, z3.If(climbable(h, self_, x), up(k - 1, parent_of(h, self_, x)), x)), patterns=[up(k, x)]))

    def hook_search(ex, st, node):
        lv, pm = S.ival(st.env['levels_up'].t), st.env['parent_module_id'].t
        start = ex.ctx(st).cur.attr(st.env['unit_info'].t, 'parent_module_id')
        ex.oblige(st, 'relative-import:the-search-starts-levels_up-packages-above-the-importing-file-(or-at-the-last-package-that-has-a-parent)', pm == up(lv, start), kind='lemma')
        # ... and levels_up is (number of leading dots - 1), 0 for an absolute path
        sv = S.sval(st.env['import_path_str'].t)
        dot = z3.StringVal('.')
        if 'leading_dots' in st.env:
            ld = S.ival(st.env['leading_dots'].t)
            j = z3.Int('dj')
            counted = z3.And(ld >= 0, ld <= z3.Length(sv), z3.ForAll([j], z3.Implies(z3.And(j >= 0, j < ld), z3.SubString(sv, j, 1) == dot)),
                             z3.Or(ld == z3.Length(sv), z3.SubString(sv, ld, 1) != dot))
            ex.oblige(st, 'relative-import:leading_dots-is-the-number-of-leading-dots-of-the-import-path', counted, kind='lemma')
            ex.oblige(st, 'relative-import:one-package-level-per-leading-dot-after-the-first', lv == z3.If(ld > 1, ld - 1, 0), kind='lemma')
        else:
            ex.oblige(st, 'relative-import:an-import-path-without-leading-dot-climbs-no-level', z3.And(lv == 0, z3.Not(z3.PrefixOf(dot, sv))), kind='lemma')
    reg.add(Contract(IH, 'ImportHierarchy.analyze_import_stmt', dict(self=IHO, unit_id=Any, unit_info=Obj('UnitInfo'), stmt=Obj('ImportStmt'), external_symbols=List(Any)), returns=Any,
                     stop_before='import_nodes, remaining = self.parse_import_path_from_current_dir(', ghost_init=up_def,
                     ghost_hooks={'before_stmt:import_nodes, remaining = self.parse_import_path_from_current_dir(': hook_search},
                     local_types={'levels_up': Int, 'leading_dots': Int},
                     pre_assume=[('cells-of-the-import-statement-row-are-scalars', lambda c: z3.Not(S.is_ref(c.old.attr(c.p.stmt, 'alias'))))],
                     loops={1: LoopSpec(invariants=[('dots-counted-so-far', lambda c: z3.And(
                         S.is_int(c.l.leading_dots), S.ival(c.l.leading_dots) == c.i,
                         z3.ForAll([z3.Int('dk')], z3.Implies(z3.And(z3.Int('dk') >= 0, z3.Int('dk') < c.i), z3.SubString(S.sval(c.l.import_path_str), z3.Int('dk'), 1) == z3.StringVal('.')))))]),
                            2: LoopSpec(invariants=[('climbed-so-far', lambda c: z3.And(
                         S.is_int(c.l.levels_up), up(S.ival(c.l.levels_up) - c.i, c.l.parent_module_id) == up(S.ival(c.l.levels_up), c.pre.attr(c.p.unit_info, 'parent_module_id'))))])},
                     modifies=lambda c: {}))
    return reg


def chain_lemma(reg, tier):
    """on an ancestor chain in which every parent id is smaller than its child's id, the scope with the maximum id is the innermost one:
    depth is strictly monotone in the id along a chain (anc(a, b) /\\ a != b => a < b, from parent(s) < s by transitivity), so max id <=> max depth"""
    from lianvc.engine import VC
    from lianvc import solve
    Sc = z3.IntSort()
    anc = z3.Function('is_ancestor_or_self', Sc, Sc, z3.BoolSort())          # anc(a, b): a encloses b (or a == b)
    depth = z3.Function('depth', Sc, z3.IntSort())
    a, b, cur, t, u = z3.Ints('a b cur t u')
    hyps = [z3.ForAll([a, b], z3.Implies(z3.And(anc(a, b), a != b), z3.And(a < b, depth(a) < depth(b)))),          # ids and depths grow strictly inwards (scope tree invariant)
            z3.ForAll([a, b], z3.Implies(z3.And(anc(a, cur), anc(b, cur)), z3.Or(anc(a, b), anc(b, a)))),            # the ancestors of one scope form a chain
            anc(t, cur), anc(u, cur), u <= t]
    return [solve.discharge_fresh(VC(f'{PROPERTY}:lemma:on-an-ancestor-chain-the-maximum-scope-id-is-the-innermost-scope', hyps, depth(u) <= depth(t), kind='lemma'), 20000)]


def defuse_scoping(reg, tier):
    """global/nonlocal: which names are looked up in the root scope only (own process: it uses the C06 registry of the def-use analysis)"""
    import json, os, subprocess, sys
    here = os.path.dirname(os.path.abspath(__file__))
    p = subprocess.run([sys.executable, os.path.join(here, 'c05_defuse.py'), '8000' if tier == 'quick' else '20000'], capture_output=True, text=True, timeout=1500, cwd=os.path.dirname(here))
    lines = [l for l in p.stdout.splitlines() if l.startswith('{')]
    if p.returncode != 0 or not lines:
        raise RuntimeError('c05_defuse failed: ' + p.stderr[-500:])
    d = json.loads(lines[-1])
    if not d['results']:
        raise RuntimeError('c05_defuse generated no obligation (the calls of resolve_symbol_source_decl were not found)')
    return d['results']


def bounded_hoisting(tier, seed):
    """BOUNDED stand-in (never counted as proved) for a part of the chain no contract covers: the frontend's declaration-hoisting pass (events/default_event_handlers/
    add_var_decl.py) that decides which scope a local's declaration lands in. One program through the real parser, hoisting, flattening, scope hierarchy and resolver."""
    from lianvc import runner
    out, err = runner.run_replay(REPLAY, ['--bounded', '1'], timeout=900)
    if out is None:
        return dict(name='declaration hoisting + scope tables + resolver vs Python scoping (one program)', failed=True, is_violation=False, detail=err, bound='one program')
    return dict(name='declaration hoisting + scope tables + resolver vs Python scoping (one program)', kind='bounded', bound=out.get('bound'), cases=out.get('cases'),
                failed=bool(out.get('witnesses')), is_violation=True, detail=out.get('witnesses', [])[:2], failing_input=(out.get('witnesses') or [None])[0])


bounded_hoisting.quick = True
BOUNDED_CHECKS = [bounded_hoisting]
EXTRA_OBLIGATIONS = [chain_lemma, defuse_scoping]

ASSUMPTIONS = [
    'NOT DECIDED: that scope discovery matches each source language (discover_scopes, hoisting, global/nonlocal, comprehension scopes), the import graph (organize_return_value, '
    'import_hierarchy), summarize_symbol_decls (the ancestor closure with its visited shortcut), determine_scope, and the renaming-invariance sentence (a two-run relation)',
    'the lemma "maximum id == innermost" needs the scope-tree invariant parent(s) < s and that the candidates form an ancestor chain; the chain part is exactly what known finding '
    'F5 violates (implicit roots are siblings), the id-order part is an assumption about discover_scopes (ascending statement ids)',
    'Loader.get_unit_symbol_decl_summary / convert_stmt_id_to_scope_id are uninterpreted lookups; scope ids in the summary are ints; the name is a string or None',
    'resolve_implicit_root_scopes and organize_return_value are opaque (pure as far as the summary is concerned)',
    'correct_scopes: GIRBlockViewer.get_stmt_by_id / read_block / query_operation and ScopeSpace.find_first_by_id are uninterpreted functions; every declaration row is assumed to '
    'have a scope-space item (find_first_by_id never None); that read_block(b) yields ALL rows nested anywhere inside b (which is why the direct-child test matters) is a trusted '
    'reading of GIRBlockViewer; util.add_to_dict_with_default_set only changes the dict it is given',
]
EXPLANATION = ('Deductive proof on the real resolver.py / scope_hierarchy.py of the selection step (the chosen scope declares the name, is visible, has the maximum id among the '
               'visible declaring scopes; unresolved default otherwise) and of the scope corrections (which declarations are re-homed into which scope, class methods only when '
               'direct children), plus the chain lemma. That the chosen scope ENCLOSES the statement fails because of the implicit-root union: recorded finding F5.')
QUICK_CANARIES = {
    'Resolver.resolve_symbol_source_decl': ['negate-condition', 'flip-comparison', 'swap-and-or'],
    'UnitScopeHierarchyAnalysis.correct_scopes': ['negate-condition', 'flip-comparison'],
}
MIN_CANARY_KILL_RATIO = 0.5
EQUIVALENT_MUTANTS = ('delete-stmt[return True] @L18', 'delete-stmt[return True] @L29')
