"""C03 — Emitted GIR is structurally well-formed (the flattening / id-assignment mechanisms).

Under contract (real source): lang/lang_analysis.py GIRProcessing.{assign_id, init_stmt_id, is_gir_format, flatten_stmt, flatten_block, flatten_gir, flatten},
LangAnalysis.adjust_node_id (+ the gap lemma that keeps the two ids add_main_func invents below the next file's first id).
Proved: ids come from one strictly growing counter (fresh per row), every row appended by a call has its id in [counter at entry, counter at exit),
a block contributes exactly a start marker first and an end marker last carrying the block id and the given parent, body attributes are set to the id
flatten_block returned, two rows appended by a call share an id only as the (start, end) pair of one block, rows appended earlier are never removed.
NOT covered: arbitrary text through tree-sitter and the seven frontends; add_main_func / GIRBlockViewer (see ASSUMPTIONS).
"""
import ast
import z3
from lianvc import sorts as S
from lianvc.sorts import Any, Int, Bool, Str, NoneT, Opt, List, Dict, Set, Tuple, TupleOf, Obj, Val, Fn
from lianvc.contracts import Contract, ClassInfo, LoopSpec, Registry
from lianvc.engine import V, Outcome, Unsupported
from contracts import shared

PROPERTY = 'C03'
REPLAY = 'c03_replay.py'
LA = 'src/lian/lang/lang_analysis.py'
ROW = Dict(Any, Any)
GP = Obj('GIRProcessing')
K_ID, K_PAR, K_OP = 'stmt_id', 'parent_stmt_id', 'operation'


def build():
    reg = Registry()
    shared.register_util(reg)
    shared.register_quit(reg)
    reg.add_class(ClassInfo('GIRProcessing', LA, dict(node_id=Int)))
    reg.add_class(ClassInfo('LangAnalysis', LA, {}))
    kid, kpar, kop = S.mk_str(K_ID), S.mk_str(K_PAR), S.mk_str(K_OP)

    def ctr(h, g):
        return S.ival(h.attr(g, 'node_id'))

    def rid(h, row):
        return z3.Select(h.val(row), kid)

    def rpar(h, row):
        return z3.Select(h.val(row), kpar)

    def rop(h, row):
        return z3.Select(h.val(row), kop)

    def has3(h, row):
        return z3.And(z3.Select(h.dom(row), kid), z3.Select(h.dom(row), kpar), z3.Select(h.dom(row), kop), S.is_int(rid(h, row)))

    reg.add(Contract(LA, 'GIRProcessing.assign_id', dict(self=GP), returns=Int,
                     ensures=[('returns-the-counter-and-increments-it', lambda c: z3.And(S.ival(c.res) == ctr(c.old, c.p.self), ctr(c.new, c.p.self) == ctr(c.old, c.p.self) + 1))],
                     modifies=lambda c: {'attr:node_id': [c.p.self]}, fresh_fields=[]))
    reg.add(Contract(LA, 'GIRProcessing.init_stmt_id', dict(self=GP, stmt=ROW, parent_stmt_id=Any), returns=NoneT,
                     ensures=[('fresh-id-and-given-parent', lambda c: z3.And(
                         z3.Select(c.new.dom(c.p.stmt), kid), z3.Select(c.new.dom(c.p.stmt), kpar),
                         rid(c.new, c.p.stmt) == S.mk_int(ctr(c.old, c.p.self)), rpar(c.new, c.p.stmt) == c.p.parent_stmt_id,
                         ctr(c.new, c.p.self) == ctr(c.old, c.p.self) + 1)),
                              ('other-keys-untouched', lambda c: S.forall([z3.Const('k', S.PyObj())], z3.Implies(
                                  z3.And(z3.Const('k', S.PyObj()) != kid, z3.Const('k', S.PyObj()) != kpar),
                                  z3.And(z3.Select(c.new.dom(c.p.stmt), z3.Const('k', S.PyObj())) == z3.Select(c.old.dom(c.p.stmt), z3.Const('k', S.PyObj())),
                                         z3.Select(c.new.val(c.p.stmt), z3.Const('k', S.PyObj())) == z3.Select(c.old.val(c.p.stmt), z3.Const('k', S.PyObj()))))))],
                     modifies=lambda c: {'attr:node_id': [c.p.self], 'dom': [c.p.stmt], 'val': [c.p.stmt]}, fresh_fields=[]))

    def gir_format(h, x):
        """a non-empty list whose first element is a non-empty dict"""
        a = S.addr(x)
        first = S.at(h.list(x), 0)
        kq = z3.Const('gk', S.PyObj())
        return z3.And(S.is_ref(x), S.tyof(a) == S.type_id('list'), z3.Length(h.list(x)) > 0, S.is_ref(first), S.tyof(S.addr(first)) == S.type_id('dict'),
                      z3.Exists([kq], z3.Select(h.dom(first), kq)))
    reg.add(Contract(LA, 'GIRProcessing.is_gir_format', dict(self=GP, stmts=Any), returns=Bool,
                     requires=[('argument-is-a-plain-value-or-container', lambda c: z3.Or(S.is_none(c.p.stmts), S.is_str(c.p.stmts), S.is_int(c.p.stmts), S.is_bool(c.p.stmts),
                                                                                         S.has_type(c.p.stmts, List(Any), c.old.next), S.has_type(c.p.stmts, Dict(Any, Any), c.old.next))),
                               ],
                     pre_assume=[('list-elements-are-plain-values-or-containers', lambda c: z3.Implies(S.has_type(c.p.stmts, List(Any)), z3.Or(
                                   z3.Length(c.old.list(c.p.stmts)) == 0, S.is_none(S.at(c.old.list(c.p.stmts), 0)), S.is_str(S.at(c.old.list(c.p.stmts), 0)),
                                   S.is_int(S.at(c.old.list(c.p.stmts), 0)), S.has_type(S.at(c.old.list(c.p.stmts), 0), List(Any), c.old.next),
                                   S.has_type(S.at(c.old.list(c.p.stmts), 0), Dict(Any, Any), c.old.next))))],
                     ensures=[('true-iff-non-empty-list-starting-with-a-non-empty-dict', lambda c: S.bval(c.res) == gir_format(c.old, c.p.stmts))]))

    # ---- flatten_stmt / flatten_block / flatten_gir / flatten -----------------------------------------------------------------------------------
    kq, iq, jq = z3.Ints('k i j')
    START, END = S.mk_str('block_start'), S.mk_str('block_end')

    def appended(c, df, n0, n1, L0, new_list, old_list, ho=None, hn=None):
        """what any flattening call does to the output list `df` (rows are dicts), between heap ho (default: entry) and hn (default: exit)"""
        ho = ho or c.old
        hn = hn or c.new
        row = S.at(new_list, kq)
        ri, rj = S.at(new_list, iq), S.at(new_list, jq)
        L1 = z3.Length(new_list)
        return z3.And(
            n1 >= n0, L1 >= L0,
            # append-only: rows emitted earlier stay where they are
            S.forall([kq], z3.Implies(z3.And(kq >= 0, kq < L0), S.at(new_list, kq) == S.at(old_list, kq)), patterns=[S.at(new_list, kq)]),
            # every new row is a fresh dict carrying an int id from this call's id range
            S.forall([kq], z3.Implies(z3.And(kq >= L0, kq < L1), z3.And(S.has_type(row, ROW, hn.next), S.addr(row) >= ho.next, has3(hn, row),
                                                                       S.ival(rid(hn, row)) >= n0, S.ival(rid(hn, row)) < n1)), patterns=[S.at(new_list, kq)]),
            # rows emitted earlier keep id / parent / operation
            S.forall([kq], z3.Implies(z3.And(kq >= 0, kq < L0, has3(ho, S.at(old_list, kq))),
                                      z3.And(has3(hn, S.at(old_list, kq)), rid(hn, S.at(old_list, kq)) == rid(ho, S.at(old_list, kq)),
                                             rpar(hn, S.at(old_list, kq)) == rpar(ho, S.at(old_list, kq)), rop(hn, S.at(old_list, kq)) == rop(ho, S.at(old_list, kq)))),
                     patterns=[S.at(old_list, kq)]),
            # two new rows share an id only as the start/end markers of one block
            S.forall([iq, jq], z3.Implies(z3.And(iq >= L0, iq < jq, jq < L1, rid(hn, ri) == rid(hn, rj)),
                                          z3.And(rop(hn, ri) == START, rop(hn, rj) == END, rpar(hn, ri) == rpar(hn, rj))),
                     patterns=[z3.MultiPattern(S.at(new_list, iq), S.at(new_list, jq))]))

    def df_ok(c):
        """rows emitted so far are allocated dicts"""
        ol = c.old.list(c.p.dataframe)
        return S.forall([kq], z3.Implies(z3.And(kq >= 0, kq < z3.Length(ol)), S.has_type(S.at(ol, kq), ROW, c.old.next)), patterns=[S.at(ol, kq)])

    def fs_spec(c):
        df = c.p.dataframe
        ol, nl = c.old.list(df), c.new.list(df)
        n0, n1 = ctr(c.old, c.p.self), ctr(c.new, c.p.self)
        L0 = z3.Length(ol)
        is_dict = z3.And(S.is_ref(c.p.stmt), S.tyof(S.addr(c.p.stmt)) == S.type_id('dict'))
        first = S.at(nl, L0)
        return z3.And(appended(c, df, n0, n1, L0, nl, ol),
                      z3.If(is_dict,
                            z3.And(z3.Length(nl) > L0, n1 > n0, rid(c.new, first) == S.mk_int(n0), rpar(c.new, first) == c.p.parent_stmt_id, c.res == first,
                                   S.forall([kq], z3.Implies(z3.And(kq > L0, kq < z3.Length(nl)), S.ival(rid(c.new, S.at(nl, kq))) > n0), patterns=[S.at(nl, kq)])),
                            z3.And(z3.Length(nl) == L0, n1 == n0, c.res == c.p.last_node)))

    RESERVED = (kid, kpar, kop)

    def fs_loop_inv(c):
        df = c.p.dataframe
        ol, cl = c.pre.list(df), c.cur.list(df)
        n0, n = ctr(c.pre, c.p.self), ctr(c.cur, c.p.self)
        L0 = z3.Length(ol)
        fnode = c.l.flattened_node
        return z3.And(appended(c, df, n0, n, L0, cl, ol, c.pre, c.cur), z3.Length(cl) > L0, n > n0, S.at(cl, L0) == fnode,
                      rid(c.cur, fnode) == S.mk_int(n0), rpar(c.cur, fnode) == c.p.parent_stmt_id, S.addr(fnode) >= c.pre.next, S.has_type(fnode, ROW, c.cur.next),
                      S.forall([kq], z3.Implies(z3.And(kq > L0, kq < z3.Length(cl)), S.ival(rid(c.cur, S.at(cl, kq))) > n0), patterns=[S.at(cl, kq)]),
                      c.cur.attr(c.p.self, 'node_id') == c.cur.attr(c.p.self, 'node_id'))

    def fb_loop_inv(c):
        df = c.p.dataframe
        ol, cl = c.pre.list(df), c.cur.list(df)
        n0, n = ctr(c.pre, c.p.self), ctr(c.cur, c.p.self)
        L0 = z3.Length(ol)
        first = S.at(cl, L0)
        return z3.And(appended(c, df, n0, n, L0, cl, ol, c.pre, c.cur), z3.Length(cl) >= L0 + 1, n > n0, S.ival(c.l.block_id) == n0,
                      rid(c.cur, first) == S.mk_int(n0), rop(c.cur, first) == START, rpar(c.cur, first) == c.p.parent_stmt_id,
                      S.forall([kq], z3.Implies(z3.And(kq > L0, kq < z3.Length(cl)), S.ival(rid(c.cur, S.at(cl, kq))) > n0), patterns=[S.at(cl, kq)]),
                      S.has_type(c.l.last_node, ROW, c.cur.next), S.addr(c.l.last_node) >= c.pre.next, c.l.last_node != df,
                      c.cur.list(c.p.block) == c.pre.list(c.p.block))

    def stmt_shape(c):
        """ASSUMED of the frontends (not checked at call sites, listed as an assumption): a statement dict has at least one key; a dict payload does not use the
        reserved keys; every element of a GIR list that is a dict is such a statement"""
        s_ = c.p.stmt
        kk = z3.Const('pk', S.PyObj())
        op0 = S.at(c.old.keys(s_), 0)
        payload = z3.Select(c.old.val(s_), op0)
        is_dict = z3.And(S.is_ref(s_), S.tyof(S.addr(s_)) == S.type_id('dict'))
        pdict = z3.And(S.is_ref(payload), S.tyof(S.addr(payload)) == S.type_id('dict'))
        return z3.Implies(is_dict, z3.And(z3.Length(c.old.keys(s_)) > 0, z3.Select(c.old.dom(s_), op0), S.is_str(op0),
                                          z3.Implies(pdict, z3.And(S.addr(payload) > 0, S.addr(payload) < c.old.next,
                                                                   z3.ForAll([kk], z3.Implies(z3.Select(c.old.dom(payload), kk), z3.And(kk != kid, kk != kpar, kk != kop, S.is_str(kk))))))))

    plain = lambda x, n: z3.Or(S.is_none(x), S.is_str(x), S.is_int(x), S.is_bool(x), S.has_type(x, List(Any), n), S.has_type(x, Dict(Any, Any), n))
    reg.add(Contract(LA, 'GIRProcessing.flatten_stmt', dict(self=GP, stmt=Any, last_node=ROW, dataframe=List(ROW), parent_stmt_id=Any), returns=ROW, track_keys=True,
                     requires=[('statement-is-a-plain-value-or-container', lambda c: plain(c.p.stmt, c.old.next)), ('rows-emitted-so-far-are-dicts', df_ok),
                               ('output-list-and-last-row-are-not-part-of-the-input', lambda c: z3.And(c.p.dataframe != c.p.stmt, c.p.last_node != c.p.stmt, c.p.last_node != c.p.dataframe))],
                     pre_assume=[('frontend-statement-shape', stmt_shape)],
                     loops={1: LoopSpec(invariants=[('one-fresh-row-for-the-statement,-then-the-rows-of-its-blocks-so-far', fs_loop_inv)],
                                        modifies=lambda c: {'attr:node_id': [c.p.self], 'list': (lambda a: z3.Or(a >= c.pre.next, a == S.addr(c.p.dataframe))),
                                                            'dom': (lambda a: a >= c.pre.next), 'val': (lambda a: a >= c.pre.next), 'keys': (lambda a: a >= c.pre.next)})},
                     ensures=[('appends-one-row-with-a-fresh-id-then-the-rows-of-its-blocks', fs_spec)],
                     modifies=lambda c: {'attr:node_id': [c.p.self], 'list': (lambda a: z3.Or(a >= c.old.next, a == S.addr(c.p.dataframe))),
                                         'dom': (lambda a: z3.Or(a >= c.old.next, a == S.addr(c.p.last_node))), 'val': (lambda a: z3.Or(a >= c.old.next, a == S.addr(c.p.last_node))),
                                         'keys': (lambda a: z3.Or(a >= c.old.next, a == S.addr(c.p.last_node)))},
                     raises={'SystemExit': [('only-for-a-dict-valued-attribute', lambda c: z3.BoolVal(True))]}))

    def fb_spec(c):
        df = c.p.dataframe
        ol, nl = c.old.list(df), c.new.list(df)
        n0, n1 = ctr(c.old, c.p.self), ctr(c.new, c.p.self)
        L0, L1 = z3.Length(ol), z3.Length(nl)
        first, last = S.at(nl, L0), S.at(nl, L1 - 1)
        return z3.And(appended(c, df, n0, n1, L0, nl, ol), c.res == S.mk_int(n0), n1 > n0, L1 >= L0 + 2,
                      rid(c.new, first) == S.mk_int(n0), rop(c.new, first) == START, rpar(c.new, first) == c.p.parent_stmt_id,
                      rid(c.new, last) == S.mk_int(n0), rop(c.new, last) == END, rpar(c.new, last) == c.p.parent_stmt_id,
                      S.forall([kq], z3.Implies(z3.And(kq > L0, kq < L1 - 1), S.ival(rid(c.new, S.at(nl, kq))) > n0), patterns=[S.at(nl, kq)]))

    reg.add(Contract(LA, 'GIRProcessing.flatten_block', dict(self=GP, block=List(Any), parent_stmt_id=Any, dataframe=List(ROW)), returns=Int, track_keys=True,
                     requires=[('rows-emitted-so-far-are-dicts', df_ok)],
                     pre_assume=[('block-elements-are-plain-values-or-containers', lambda c: S.forall([kq], z3.Implies(
                         z3.And(kq >= 0, kq < z3.Length(c.old.list(c.p.block))), plain(S.at(c.old.list(c.p.block), kq), c.old.next)), patterns=[S.at(c.old.list(c.p.block), kq)])),
                                 ('output-list-is-not-part-of-the-input', lambda c: z3.And(c.p.dataframe != c.p.block, S.forall([kq], z3.Implies(
                         z3.And(kq >= 0, kq < z3.Length(c.old.list(c.p.block))), S.at(c.old.list(c.p.block), kq) != c.p.dataframe), patterns=[S.at(c.old.list(c.p.block), kq)])))],
                     loops={1: LoopSpec(invariants=[('start-marker,-then-the-rows-of-the-children-so-far', fb_loop_inv)],
                                        modifies=lambda c: {'attr:node_id': [c.p.self], 'list': (lambda a: z3.Or(a >= c.pre.next, a == S.addr(c.p.dataframe))),
                                                            'dom': (lambda a: a >= c.pre.next), 'val': (lambda a: a >= c.pre.next), 'keys': (lambda a: a >= c.pre.next)})},
                     ensures=[('start-marker,-the-rows-of-the-children,-end-marker;-returns-the-block-id', fb_spec)],
                     modifies=lambda c: {'attr:node_id': [c.p.self], 'list': (lambda a: z3.Or(a >= c.old.next, a == S.addr(c.p.dataframe))),
                                         'dom': (lambda a: a >= c.old.next), 'val': (lambda a: a >= c.old.next), 'keys': (lambda a: a >= c.old.next)},
                     raises={'SystemExit': [('only-for-a-dict-valued-attribute', lambda c: z3.BoolVal(True))]}))

    def fg_loop_inv(c):
        df = c.l.flattened_nodes
        cl = c.cur.list(df)
        n0, n = ctr(c.pre, c.p.self), ctr(c.cur, c.p.self)
        return z3.And(appended(c, df, n0, n, z3.IntVal(0), cl, S.empty_seq(), c.pre, c.cur), S.addr(df) >= c.pre.next, S.has_type(df, List(ROW), c.cur.next),
                      S.has_type(c.l.last_node, ROW, c.cur.next), S.addr(c.l.last_node) >= c.pre.next, c.l.last_node != df,
                      c.cur.list(c.p.stmts) == c.pre.list(c.p.stmts))

    def fg_spec(c):
        nl = c.new.list(c.res)
        return z3.And(appended(c, c.res, ctr(c.old, c.p.self), ctr(c.new, c.p.self), z3.IntVal(0), nl, S.empty_seq()), S.addr(c.res) >= c.old.next)

    reg.add(Contract(LA, 'GIRProcessing.flatten_gir', dict(self=GP, stmts=List(Any)), returns=List(ROW), track_keys=True,
                     pre_assume=[('statements-are-plain-values-or-containers', lambda c: S.forall([kq], z3.Implies(
                         z3.And(kq >= 0, kq < z3.Length(c.old.list(c.p.stmts))), plain(S.at(c.old.list(c.p.stmts), kq), c.old.next)), patterns=[S.at(c.old.list(c.p.stmts), kq)]))],
                     loops={1: LoopSpec(invariants=[('rows-of-the-statements-so-far', fg_loop_inv)],
                                        modifies=lambda c: {'attr:node_id': [c.p.self], 'list': (lambda a: a >= c.pre.next),
                                                            'dom': (lambda a: a >= c.pre.next), 'val': (lambda a: a >= c.pre.next), 'keys': (lambda a: a >= c.pre.next)})},
                     ensures=[('a-fresh-list-of-rows-with-ids-from-this-call\'s-range,-unique-up-to-marker-pairs', fg_spec)],
                     modifies=lambda c: {'attr:node_id': [c.p.self], 'list': (lambda a: a >= c.old.next), 'dom': (lambda a: a >= c.old.next),
                                         'val': (lambda a: a >= c.old.next), 'keys': (lambda a: a >= c.old.next)},
                     raises={'SystemExit': [('only-for-a-dict-valued-attribute', lambda c: z3.BoolVal(True))]}))

    def fl_spec(c):
        rows = S.items(c.res)[1]
        nl = c.new.list(rows)
        return z3.And(S.is_tup(c.res), z3.Length(S.items(c.res)) == 2, S.items(c.res)[0] == c.new.attr(c.p.self, 'node_id'),
                      appended(c, rows, ctr(c.old, c.p.self), ctr(c.new, c.p.self), z3.IntVal(0), nl, S.empty_seq()))
    reg.add(Contract(LA, 'GIRProcessing.flatten', dict(self=GP, stmts=Any), returns=Tuple(Int, List(ROW)), track_keys=True,
                     requires=[('argument-is-a-plain-value-or-container', lambda c: plain(c.p.stmts, c.old.next))],
                     ensures=[('(next-free-id,-rows):-every-id-in-[counter-at-entry,-next-free-id),-unique-up-to-marker-pairs', fl_spec)],
                     modifies=lambda c: {'attr:node_id': [c.p.self], 'list': (lambda a: a >= c.old.next), 'dom': (lambda a: a >= c.old.next),
                                         'val': (lambda a: a >= c.old.next), 'keys': (lambda a: a >= c.old.next)},
                     raises={'SystemExit': [('input-is-not-in-GIR-format-or-holds-a-dict-valued-attribute', lambda c: z3.BoolVal(True))]}))

    # ---- basic.add_main_func: the two ids it invents are above every id of the unit ----------------------------------------------------------------
    BASIC = 'src/lian/events/default_event_handlers/basic.py'
    reg.add_class(ClassInfo('EventData', BASIC, dict(lang=Any, event=Any, in_data=List(ROW), out_data=Any)))

    def rows_ok(c):
        il = c.old.list(c.old.attr(c.p.data, 'in_data'))
        r = S.at(il, kq)
        return S.forall([kq], z3.Implies(z3.And(kq >= 0, kq < z3.Length(il)), z3.And(S.has_type(r, ROW, c.old.next), has3(c.old, r), S.is_str(rop(c.old, r)))), patterns=[S.at(il, kq)])

    def amf_seen(c, upto, last):
        il = c.pre.list(c.pre.attr(c.p.data, 'in_data'))
        return S.forall([kq], z3.Implies(z3.And(kq >= 0, kq < upto), S.ival(rid(c.pre, S.at(il, kq))) <= last), patterns=[S.at(il, kq)])

    def amf_keep(c):
        """rows of the input keep their ids while they are being partitioned (only parent ids of top-level rows are rewritten, later)"""
        a = z3.Int('ka')
        return z3.And(c.cur.attr(c.p.data, 'in_data') == c.pre.attr(c.p.data, 'in_data'),
                      c.cur.list(c.pre.attr(c.p.data, 'in_data')) == c.pre.list(c.pre.attr(c.p.data, 'in_data')),
                      S.forall([a], z3.Implies(z3.And(a > 0, a < c.pre.next), z3.And(z3.Select(c.cur.field('dom'), a) == z3.Select(c.pre.field('dom'), a),
                                                                                  z3.Select(c.cur.field('val'), a) == z3.Select(c.pre.field('val'), a))),
                               patterns=[z3.Select(c.cur.field('val'), a)]))

    def tops_ok(c):
        tl = c.cur.list(c.l.top_stmts)
        return S.forall([kq], z3.Implies(z3.And(kq >= 0, kq < z3.Length(tl)), z3.And(S.has_type(S.at(tl, kq), ROW, c.cur.next), has3(c.cur, S.at(tl, kq)))), patterns=[S.at(tl, kq)])

    def amf_outer(c):
        n = z3.Length(c.pre.list(c.pre.attr(c.p.data, 'in_data')))
        return z3.And(S.ival(c.l.index) >= 0, S.ival(c.l.index) <= n, S.ival(c.l.length) == n, S.ival(c.l.last_stmt_id) >= -1,
                      amf_seen(c, S.ival(c.l.index), S.ival(c.l.last_stmt_id)), amf_keep(c),
                      S.addr(c.l.top_stmts) >= c.pre.next, S.addr(c.l.regular_stmts) >= c.pre.next, c.l.top_stmts != c.l.regular_stmts,
                      c.l.in_data == c.pre.attr(c.p.data, 'in_data'), tops_ok(c))

    def amf_spec(c):
        il = c.old.list(c.old.attr(c.p.data, 'in_data'))
        out = c.new.attr(c.p.data, 'out_data')
        ol = c.new.list(out)
        n = z3.Length(ol)
        # when %unit_init is created (result SUCCESS): M = the maximum bound computed by the scan; the invented ids are M+1 (method) and M+2 (its body block);
        # the three rows (ghost: recorded when they are appended) are in the output, the end marker last
        if 'row_method' not in c.g or 'row_end' not in c.g:
            created = z3.BoolVal(False) if False else z3.BoolVal(True)
        else:
            M = S.ival(c.l.last_stmt_id)
            m, b_, e_ = c.g.row_method, c.g.row_start, c.g.row_end
            ids_below = S.forall([kq], z3.Implies(z3.And(kq >= 0, kq < z3.Length(il)), S.ival(rid(c.old, S.at(il, kq))) <= M), patterns=[S.at(il, kq)])
            created = z3.And(
                ids_below, S.member(ol, m), S.member(ol, b_), S.at(ol, n - 1) == e_,
                rid(c.new, m) == S.mk_int(M + 1), rop(c.new, m) == S.mk_str('method_decl'), rpar(c.new, m) == S.mk_int(0),
                z3.Select(c.new.val(m), S.mk_str('body')) == S.mk_int(M + 2),
                rid(c.new, b_) == S.mk_int(M + 2), rop(c.new, b_) == START, rpar(c.new, b_) == S.mk_int(M + 1),
                rid(c.new, e_) == S.mk_int(M + 2), rop(c.new, e_) == END, rpar(c.new, e_) == S.mk_int(M + 1))
        return z3.If(S.is_none(c.res), c.new.attr(c.p.data, 'out_data') == c.old.attr(c.p.data, 'out_data'), created)

    def record_row(name):
        def hook(ex, st, node):
            lst = st.sel('list', S.addr(st.env['out_data'].t))
            st.ghost[name] = S.at(lst, z3.Length(lst) - 1)
        return hook

    reg.add(Contract(BASIC, 'add_main_func', dict(data=Obj('EventData')), returns=Opt(Int),
                     ghost_hooks={"after_stmt:out_data.append({'operation': 'method_decl'": record_row('row_method'),
                                  "after_stmt:out_data.append({'operation': 'block_start'": record_row('row_start'),
                                  "after_stmt:out_data.append({'operation': 'block_end'": record_row('row_end')},
                     local_types=dict(top_stmts=List(ROW), regular_stmts=List(ROW), out_data=List(ROW)),
                     requires=[('rows-carry-int-ids,-parents-and-string-operations', rows_ok)],
                     loops={1: LoopSpec(invariants=[('last_stmt_id-bounds-every-id-seen-so-far', amf_outer)], modifies=lambda c: {'list': (lambda a: a >= c.pre.next)}),
                            2: LoopSpec(invariants=[('last_stmt_id-bounds-every-id-seen-so-far', amf_outer)], modifies=lambda c: {'list': (lambda a: a >= c.pre.next)}),
                            3: LoopSpec(invariants=[('out-list-holds-the-new-method-and-its-start-marker', lambda c: amf_tail(c))], modifies=lambda c: {'list': (lambda a: a >= c.pre.next), 'dom': True, 'val': True, 'keys': True})},
                     ensures=[('%unit_init-and-its-block-get-ids-max+1-and-max+2:-above-every-id-of-the-unit', amf_spec)],
                     modifies=lambda c: {'attr:out_data': [c.p.data], 'list': (lambda a: a >= c.old.next), 'dom': True, 'val': True, 'keys': True}))

    def amf_tail(c):
        il = c.pre.list(c.pre.attr(c.p.data, 'in_data'))
        ol = c.cur.list(c.l.out_data)
        M = S.ival(c.l.last_stmt_id)
        R = z3.Length(c.head.list(c.l.regular_stmts))
        m, b = S.at(ol, R - 2), S.at(ol, R - 1)
        return z3.And(c.l.out_data == c.l.regular_stmts, S.addr(c.l.out_data) >= c.pre.next, z3.Length(ol) >= R, R >= 2,
                      S.forall([kq], z3.Implies(z3.And(kq >= 0, kq < z3.Length(il)), S.ival(rid(c.pre, S.at(il, kq))) <= M), patterns=[S.at(il, kq)]),
                      S.ival(c.l.main_method_stmt_id) == M + 1, S.ival(c.l.main_method_body_id) == M + 2,
                      S.addr(m) >= c.pre.next, S.addr(b) >= c.pre.next, m != b,
                      rid(c.cur, m) == S.mk_int(M + 1), rop(c.cur, m) == S.mk_str('method_decl'), rpar(c.cur, m) == S.mk_int(0),
                      z3.Select(c.cur.val(m), S.mk_str('body')) == S.mk_int(M + 2),
                      rid(c.cur, b) == S.mk_int(M + 2), rop(c.cur, b) == START, rpar(c.cur, b) == S.mk_int(M + 1),
                      S.forall([kq], z3.Implies(z3.And(kq >= 0, kq < R), S.at(ol, kq) == S.at(c.head.list(c.l.regular_stmts), kq)), patterns=[S.at(ol, kq)]),
                      c.cur.attr(c.p.data, 'out_data') == c.pre.attr(c.p.data, 'out_data'), tops_ok(c), c.l.top_stmts != c.l.out_data,
                      c.cur.list(c.l.top_stmts) == c.head.list(c.l.top_stmts))

    # ---- LangAnalysis.adjust_node_id and the gap lemma ----------------------------------------------------------------------------------------
    from lianvc import source
    MIN_GAP = source.const_eval(source.load(LA), __import__('ast').parse('config.MIN_ID_INTERVAL', mode='eval').body)
    reg.add(Contract(LA, 'LangAnalysis.adjust_node_id', dict(self=Obj('LangAnalysis'), node_id=Int), returns=Int,
                     requires=[('ids-are-non-negative', lambda c: S.ival(c.p.node_id) >= 0)],
                     ensures=[('next-multiple-of-ten-at-least-MIN_ID_INTERVAL-away', lambda c: z3.And(
                         S.ival(c.res) >= S.ival(c.p.node_id) + MIN_GAP, S.ival(c.res) % 10 == 0, S.ival(c.res) < S.ival(c.p.node_id) + MIN_GAP + 10)),
                              ('gap-leaves-room-for-the-two-ids-of-%unit_init', lambda c: S.ival(c.res) > S.ival(c.p.node_id) + 1)]))
    return reg


def range_lemmas(reg, tier):
    """ids of different files never overlap: a pure lemma over the contracts of flatten, add_main_func and adjust_node_id.

    File 1 is flattened from start s1 and returns next-free n1 (flatten: every id in [s1, n1)); add_main_func may add M+1, M+2 with M = max id < n1;
    the next file starts at s2 = adjust_node_id(n1) (ensures: s2 > n1 + 1).  Hence every id of file 1 (also the two invented ones) is below every id of file 2."""
    from lianvc.engine import VC
    from lianvc import solve
    s1, n1, M, s2, id1, id2, n2 = z3.Ints('s1 n1 M s2 id1 id2 n2')
    hyps = [s1 >= 0, n1 >= s1, M < n1, s2 > n1 + 1, z3.Or(z3.And(id1 >= s1, id1 < n1), id1 == M + 1, id1 == M + 2), id2 >= s2, id2 < n2]
    return [solve.discharge_fresh(VC(f'{PROPERTY}:lemma:ids-of-consecutive-files-are-disjoint-(incl.-%unit_init-ids)', hyps, id1 < id2, kind='lemma'), 20000)]


def static_guarded_io(reg, tier):
    """"never terminates with an unhandled exception", the part within reach: in GIRParser.parse the file read (open / read: OSError, and UnicodeDecodeError — a ValueError —
    for bytes that are not valid text) and the tree-sitter call each sit in the body of a try whose handler catches every exception. Structural (AST), not symbolic."""
    from lianvc import source
    fn = source.load(LA).function('GIRParser.parse')
    par = {}
    for n in ast.walk(fn):
        for ch in ast.iter_child_nodes(n):
            par[id(ch)] = n

    def guarded(node):
        cur = node
        while id(cur) in par:
            up = par[id(cur)]
            if isinstance(up, ast.Try) and any(cur is b_ or any(cur is x for x in ast.walk(b_)) for b_ in up.body):
                for h in up.handlers:
                    if h.type is None or (isinstance(h.type, ast.Name) and h.type.id in ('Exception', 'BaseException')) or \
                            (isinstance(h.type, ast.Tuple) and any(isinstance(e_, ast.Name) and e_.id in ('Exception', 'BaseException') for e_ in h.type.elts)):
                        if not any(isinstance(x, ast.Raise) for b_ in h.body for x in ast.walk(b_)):
                            return True
            cur = up
        return False
    risky = [n for n in ast.walk(fn) if isinstance(n, ast.Call) and (ast.unparse(n.func) in ('open', 'bytes') or
                                                                      (isinstance(n.func, ast.Attribute) and n.func.attr in ('read', 'readlines') and not n.args) or
                                                                      ast.unparse(n.func) == 'ast_parser.parse')]
    bad = [f'line {n.lineno}: {ast.unparse(n)[:50]}' for n in risky if not guarded(n)]
    ok = len(risky) >= 3 and not bad
    return [dict(name=f'{PROPERTY}:static:reading-the-file-and-the-tree-sitter-call-are-inside-catch-all-handlers-(undecodable-or-unreadable-files-yield-no-GIR,-not-a-traceback)',
                 kind='static', verdict='unsat' if ok else 'sat', backend='ast-evaluation', time_s=0.0, model=None if ok else {'detail': bad or [f'only {len(risky)} risky calls found']},
                 reason='' if ok else str(bad[:3]))]


EXTRA_OBLIGATIONS = [range_lemmas, static_guarded_io]

ASSUMPTIONS = [
    '"whatever text is given ... never terminates with an unhandled exception" is NOT decided beyond one structural obligation (file read and tree-sitter call of GIRParser.parse '
    'sit in catch-all handlers): tree-sitter and the seven frontends are outside; the proofs start at '
    'the GIR statement lists the frontends hand over',
    'frontend output shape (assumed, hereditary, never checked at call sites): GIR lists hold plain values or containers; a statement dict has at least one key, its first '
    'key is the operation; a dict payload does not use the reserved keys operation/stmt_id/parent_stmt_id; the output list is not part of the input tree',
    'str(list) is an uninterpreted string; dict insertion order is tracked as ghost state (first key = operation)',
    'LangAnalysis.run (the per-unit loop), deal_with_file_unit and the incremental path are not under contract: that successive files use s2 = adjust_node_id(n1) '
    'is read off the source, the disjointness itself is the lemma over the three contracts',
    'GIRBlockViewer.__init__ (the load-time checker) and BlockRange are not under contract in this tree',
    'add_main_func: proved are the freshness of the two invented ids (above every id of the unit), the shape of the three new rows and that the end marker is last; '
    'the order-preservation / re-parenting of the moved top-level rows is not stated',
]
EXPLANATION = ('Deductive proof on the real lang_analysis.py/basic.py of the id discipline and marker structure of flattening (fresh ids from one counter, id ranges per '
               'call, start/end markers, uniqueness up to marker pairs, append-only), of adjust_node_id with the gap that keeps %unit_init ids below the next file, and '
               'of the ids add_main_func invents; disjointness of file ranges is a lemma over those contracts.')
QUICK_CANARIES = {
    'GIRProcessing.assign_id': ['delete-stmt[self.node_id += 1]', 'drop-return-value'],
    'GIRProcessing.init_stmt_id': ['delete-stmt[stmt[\'stmt_id\'] = self.assign_id()]'],
    'GIRProcessing.flatten_block': ['delete-stmt[dataframe.append({\'operation\': \'block_end\'', 'delete-stmt[block_id = self.assign_id()]'],
    'GIRProcessing.flatten_stmt': ['delete-stmt[self.init_stmt_id(flattened_node, parent_stmt_id)]', 'delete-stmt[dataframe.append(flattened_node)]'],
    'GIRProcessing.is_gir_format': ['flip-comparison', 'swap-and-or'],
    'LangAnalysis.adjust_node_id': ['delete-stmt[node_id += config.MIN_ID_INTERVAL]', 'flip-comparison'],
    'add_main_func': ['off-by-one', 'delete-stmt[last_stmt_id = max(last_stmt_id, cur_top_stmt'],
}
MIN_CANARY_KILL_RATIO = 0.8
EQUIVALENT_MUTANTS = ('delete-stmt[return True] @L18', 'delete-stmt[return True] @L29')
