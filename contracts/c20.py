"""C20 — Entry points and unit initialisers are selected exactly as configured.

Under contract (real source):
  util.py              : check_file_processing_flag_and_extract_lang (+ is_empty/is_available/is_none/isna, shared)
  basics/entry_points.py: EntryPointRule.check_availablility, EntryPointGenerator.{filter_rule_by_unit_info, check_rules,
                         collect_entry_points_from_unit_scope, _load_settings}
  util/loader.py       : EntryPointsLoader.{__init__, save, get_entry_points}, Loader.{save_entry_points, get_entry_points}
  core/global_semantics.py: GlobalSemanticAnalysis.run (the set of starts)
  taint/taint_analysis.py : TaintAnalysis.run (which graphs are read)
"""
import z3
from lianvc import sorts as S
from lianvc.sorts import Any, Int, Bool, Str, NoneT, Opt, List, Dict, Set, Tuple, TupleOf, Obj, Val, Fn, Opaque
from lianvc.contracts import Contract, ClassInfo, LoopSpec, Registry
from lianvc.engine import V, Outcome, Unsupported, below
from contracts import shared

PROPERTY = 'C20'
REPLAY = 'c20_replay.py'
UTIL = 'src/lian/util/util.py'
EP = 'src/lian/basics/entry_points.py'
LD = 'src/lian/util/loader.py'
GS = 'src/lian/core/global_semantics.py'
TA = 'src/lian/taint/taint_analysis.py'

RULE = Obj('EntryPointRule')
FLAGS = ['lang', 'unit_name', 'unit_path', 'method_list', 'attrs', 'args', 'return_type']


RULE_FIELDS = dict(lang=Str, unit_id=Int, unit_path=Str, unit_name=Str, method_id=Int, method_list=List(Str), attrs=List(Str),
                   args=Str, return_type=Str)


def rule_inv(h, r):
    """the rule's fields have the dataclass-declared types and is_X_available == util.is_available(X) for the seven
    criteria (established by check_availablility, which __post_init__ calls)"""
    typed = [S.has_type(h.attr(r, f), t) for f, t in RULE_FIELDS.items()]
    return z3.And(*typed, *[S.bval(h.attr(r, f'is_{f}_available')) == z3.Not(shared.empty(h.attr(r, f), h)) for f in FLAGS])


def sstr(x):
    return S.sval(x)


def unit_match(h, r, u):
    """from the statement: 'matched on language, file name or path' — every unit restriction a rule states must hold"""
    lang, uid, uname, upath = h.attr(r, 'lang'), S.ival(h.attr(r, 'unit_id')), h.attr(r, 'unit_name'), h.attr(r, 'unit_path')
    u_lang, u_mid, u_path = h.attr(u, 'lang'), S.ival(h.attr(u, 'module_id')), h.attr(u, 'unit_path')
    base = shared.sp_basename(sstr(u_path))
    return z3.And(
        z3.Or(z3.Length(sstr(lang)) == 0, lang == u_lang),
        z3.Or(uid < 0, uid == u_mid),
        z3.Or(z3.Length(sstr(uname)) == 0, z3.Contains(base, sstr(uname))),
        z3.Or(z3.Length(sstr(upath)) == 0, z3.Contains(sstr(u_path), sstr(upath))))


def scope_name(h, s):
    n = h.attr(s, 'name')
    return z3.If(shared.empty(n, h), S.mk_str(''), n)


def scope_attrs(h, s):
    n = h.attr(s, 'attrs')
    return z3.If(shared.empty(n, h), S.mk_str(''), n)


def method_match(h, r, s):
    """'method name and attributes' (args/return_type criteria are unimplemented in the code: outside the precondition)"""
    mid = S.ival(h.attr(r, 'method_id'))
    ml, at_ = h.attr(r, 'method_list'), h.attr(r, 'attrs')
    name, attrs = scope_name(h, s), scope_attrs(h, s)
    j = z3.Int('mj')
    all_attrs = S.forall([j], z3.Implies(z3.And(j >= 0, j < z3.Length(h.list(at_))),
                                          z3.Contains(sstr(attrs), sstr(S.at(h.list(at_), j)))), patterns=[S.at(h.list(at_), j)])
    by_name = z3.And(z3.Or(z3.Length(h.list(ml)) == 0, S.member(h.list(ml), name)),
                     z3.Or(z3.Length(h.list(at_)) == 0, z3.And(z3.Length(sstr(attrs)) > 0, all_attrs)))
    return z3.If(mid >= 0, mid == S.ival(h.attr(s, 'stmt_id')), by_name)


def build():
    reg = Registry()
    shared.register_util(reg)
    shared.register_ospath(reg)
    rf = dict(lang=Str, unit_id=Int, unit_path=Str, unit_name=Str, method_id=Int, method_list=List(Str), attrs=List(Str),
              args=Str, return_type=Str)
    for f in FLAGS:
        rf[f'is_{f}_available'] = Bool
    reg.add_class(ClassInfo('EntryPointRule', EP, rf))
    reg.add_class(ClassInfo('UnitInfo', EP, dict(lang=Str, module_id=Int, unit_path=Str)))
    reg.add_class(ClassInfo('ScopeRow', EP, dict(name=Any, attrs=Any, stmt_id=Int)))
    reg.add_class(ClassInfo('Options', EP, dict(default_settings=Str, quiet=Any, enable_p2=Any)))
    reg.add_class(ClassInfo('EntryPointsLoader', LD, dict(path=Any, entry_points=Set(Any))))
    reg.add_class(ClassInfo('Loader', LD, dict(_entry_points_loader=Obj('EntryPointsLoader'))))
    reg.add_class(ClassInfo('EntryPointGenerator', EP, dict(options=Obj('Options'), event_manager=Any, loader=Obj('Loader'),
                                                           entry_point_rules=List(RULE), entry_point_results=Set(Int))))

    # ---- util.check_file_processing_flag_and_extract_lang ------------------------------------------------------------
    def flag_spec(c):
        f, r = sstr(c.p.file_name), sstr(c.p.requirement)
        dash = z3.StringVal('-')
        k = z3.IndexOf(f, dash, 0)
        before = z3.If(k < 0, f, z3.SubString(f, 0, k))
        flag = z3.Or(f == r, z3.And(z3.SuffixOf(z3.Concat(dash, r), f), z3.Length(before) > 0))
        res_flag, res_lang = S.items(c.res)[0], S.items(c.res)[1]
        return z3.And(S.bval(res_flag) == flag,
                      sstr(res_lang) == z3.If(z3.And(f != r, z3.SuffixOf(z3.Concat(dash, r), f)), before, z3.StringVal('')))
    reg.add(Contract(UTIL, 'check_file_processing_flag_and_extract_lang', dict(file_name=Str, requirement=Str),
                     returns=Tuple(Bool, Str),
                     ensures=[('flag-iff-exact-or-nonempty-lang-prefix', flag_spec)]))

    # ---- EntryPointRule.check_availablility --------------------------------------------------------------------------
    reg.add(Contract(EP, 'EntryPointRule.check_availablility', dict(self=RULE), returns=NoneT,
                     requires=[('fields-have-the-declared-types', lambda c: z3.And(*[S.has_type(c.old.attr(c.p.self, f), t) for f, t in RULE_FIELDS.items()]))],
                     ensures=[('flags-mirror-the-criteria', lambda c: rule_inv(c.new, c.p.self))],
                     modifies=lambda c: {f'attr:is_{f}_available': [c.p.self] for f in FLAGS}))

    # ---- filter_rule_by_unit_info ---------------------------------------------------------------------------------------
    def rules_seq(c, h=None):
        h = h or c.pre
        return h.list(h.attr(c.p.self, 'entry_point_rules'))

    jq = z3.Int('j')

    def all_rules_inv(c):
        rs = rules_seq(c)
        return S.forall([jq], z3.Implies(z3.And(jq >= 0, jq < z3.Length(rs)), rule_inv(c.pre, S.at(rs, jq))), patterns=[S.at(rs, jq)])

    def filt_sound(c, res_seq, upto_unused=None):
        """every element of the result is a rule of the list that matches the unit"""
        rs = rules_seq(c)
        return S.forall([jq], z3.Implies(z3.And(jq >= 0, jq < z3.Length(res_seq)),
                                          z3.And(S.member(rs, S.at(res_seq, jq)), unit_match(c.pre, S.at(res_seq, jq), c.p.unit_info))),
                         patterns=[S.at(res_seq, jq)])

    def filt_complete(c, res_seq, upto):
        rs = rules_seq(c)
        return S.forall([jq], z3.Implies(z3.And(jq >= 0, jq < upto, unit_match(c.pre, S.at(rs, jq), c.p.unit_info)),
                                          S.member(res_seq, S.at(rs, jq))), patterns=[S.at(rs, jq)])

    def some_match(c, upto):
        rs = rules_seq(c)
        return z3.Exists([jq], z3.And(jq >= 0, jq < upto, unit_match(c.pre, S.at(rs, jq), c.p.unit_info)), patterns=[S.at(rs, jq)])

    def heap_same(c, fields):
        return z3.And(*[c.cur.field(f) == c.pre.field(f) for f in fields])

    rule_fields = ['attr:' + f for f in rf] + ['attr:lang', 'attr:module_id', 'attr:unit_path', 'attr:entry_point_rules']
    reg.add(Contract(EP, 'EntryPointGenerator.filter_rule_by_unit_info', dict(self=Obj('EntryPointGenerator'), unit_info=Obj('UnitInfo')),
                     returns=List(RULE),
                     requires=[('rules-carry-consistent-availability-flags', all_rules_inv)],
                     loops={1: LoopSpec(invariants=[
                         ('candidates-are-matching-rules', lambda c: filt_sound(c, c.cur.list(c.l.candidate_rules))),
                         ('every-matching-rule-so-far-is-a-candidate', lambda c: filt_complete(c, c.cur.list(c.l.candidate_rules), c.i)),
                         ('nonempty-iff-some-rule-matched-so-far', lambda c: (z3.Length(c.cur.list(c.l.candidate_rules)) > 0) == some_match(c, c.i)),
                         ('candidate-list-is-fresh', lambda c: z3.And(S.addr(c.l.candidate_rules) >= c.pre.next, S.addr(c.l.candidate_rules) < c.cur.next)),
                         ('rules-untouched', lambda c: S.forall([jq], z3.Implies(z3.And(jq > 0, jq < c.pre.next),
                                                                                z3.Select(c.cur.field('list'), jq) == z3.Select(c.pre.field('list'), jq)),
                                                                 patterns=[z3.Select(c.cur.field('list'), jq)]))])},
                     ensures=[('only-matching-rules', lambda c: filt_sound(c, c.new.list(c.res))),
                              ('all-matching-rules', lambda c: filt_complete(c, c.new.list(c.res), z3.Length(rules_seq(c)))),
                              ('nonempty-iff-some-rule-matches', lambda c: (z3.Length(c.new.list(c.res)) > 0) == some_match(c, z3.Length(rules_seq(c)))),
                              ('result-is-a-fresh-list', lambda c: S.addr(c.res) >= c.pre.next)],
                     modifies=lambda c: {}, fresh_fields=['list']))

    # ---- check_rules ---------------------------------------------------------------------------------------------------
    _qres = z3.Function('dm_query_index_column_value', z3.IntSort(), S.PyObj(), S.PyObj(), S.SeqP())

    @reg.extern_method('DataModel', 'query_index_column_value',
                       'DataModel.query_index_column_value: the rows whose column equals the value (proved for DataModel under C16); '
                       'here an uninterpreted sequence of ScopeRow objects')
    def _query(ex, st, node, recv, args, kwargs):
        seq = _qres(S.addr(recv.t), args[0].t, args[1].t)
        r = ex.alloc(st, 'list')
        st.set_field('list', z3.Store(st.field('list'), S.addr(r), seq))
        j = z3.Int('qj')
        st.assume(S.forall([j], z3.Implies(z3.And(j >= 0, j < z3.Length(seq)),
                                            z3.And(S.has_type(S.at(seq, j), Obj('ScopeRow')), below(S.at(seq, j), ex.entry_state.next_ref))),
                            patterns=[S.at(seq, j)]))
        return V(r, List(Obj('ScopeRow')))

    def method_scopes(c):
        from lianvc import source
        kind = source.const_eval(source.load(EP), __import__('ast').parse('LIAN_SYMBOL_KIND.METHOD_KIND', mode='eval').body)
        return _qres(S.addr(c.p.unit_scope), S.mk_str('scope_kind'), S.mk_int(kind))

    kq, rq = z3.Ints('k r')

    def sel_body(c, x, upto, k, r):
        ms = method_scopes(c)
        cs = c.pre.list(c.p.candidate_rules)
        return z3.And(k >= 0, k < upto, r >= 0, r < z3.Length(cs),
                      S.mk_int(S.ival(c.pre.attr(S.at(ms, k), 'stmt_id'))) == x,
                      method_match(c.pre, S.at(cs, r), S.at(ms, k)))

    def selected(c, x, upto):
        """x is the id of one of the first `upto` method scopes matched by some candidate rule"""
        ms = method_scopes(c)
        cs = c.pre.list(c.p.candidate_rules)
        return z3.Exists([kq, rq], sel_body(c, x, upto, kq, rq), patterns=[z3.MultiPattern(S.at(ms, kq), S.at(cs, rq))])

    xq = z3.Const('x', S.PyObj())

    def results_sound(c, h, upto):
        """'a method no rule selects is never used as a start': everything in the result set was there or is selected"""
        old = c.pre.dom(c.pre.attr(c.p.self, 'entry_point_results'))
        new = h.dom(c.pre.attr(c.p.self, 'entry_point_results'))
        return S.forall([xq], z3.Implies(z3.Select(new, xq), z3.Or(z3.Select(old, xq), selected(c, xq, upto))),
                         patterns=[z3.Select(new, xq)])

    def results_complete(c, h, upto):
        """'a selected method is analysed': everything that was there or is selected is in the result set"""
        old = c.pre.dom(c.pre.attr(c.p.self, 'entry_point_results'))
        new = h.dom(c.pre.attr(c.p.self, 'entry_point_results'))
        ms, cs = method_scopes(c), c.pre.list(c.p.candidate_rules)
        sid = S.mk_int(S.ival(c.pre.attr(S.at(ms, kq), 'stmt_id')))
        return z3.And(S.forall([xq], z3.Implies(z3.Select(old, xq), z3.Select(new, xq)), patterns=[z3.Select(old, xq)]),
                      S.forall([kq, rq], z3.Implies(z3.And(kq >= 0, kq < upto, rq >= 0, rq < z3.Length(cs),
                                                            method_match(c.pre, S.at(cs, rq), S.at(ms, kq))), z3.Select(new, sid)),
                                patterns=[z3.MultiPattern(S.at(ms, kq), S.at(cs, rq))]))

    def cands_ok(c):
        cs = c.pre.list(c.p.candidate_rules)
        return S.forall([jq], z3.Implies(z3.And(jq >= 0, jq < z3.Length(cs)),
                                          z3.And(rule_inv(c.pre, S.at(cs, jq)),
                                                 z3.Length(sstr(c.pre.attr(S.at(cs, jq), 'args'))) == 0,
                                                 z3.Length(sstr(c.pre.attr(S.at(cs, jq), 'return_type'))) == 0)), patterns=[S.at(cs, jq)])

    def inner_inv(c):
        cs = c.pre.list(c.p.candidate_rules)
        return z3.And(z3.Not(S.bval(c.l.matched)),
                      S.forall([rq], z3.Implies(z3.And(rq >= 0, rq < c.i), z3.Not(method_match(c.pre, S.at(cs, rq), c.l.scope))),
                                patterns=[S.at(cs, rq)]))

    def untouched(c, fields):
        """pre-existing objects keep their content in these heap fields"""
        a = z3.Int('ua')
        return z3.And(*[S.forall([a], z3.Implies(z3.And(a > 0, a < c.pre.next), z3.Select(c.cur.field(f), a) == z3.Select(c.pre.field(f), a)),
                                  patterns=[z3.Select(c.cur.field(f), a)]) for f in fields])

    def lemma_matched(ex, st, node):
        """cut: at each `matched = True` the current rule matches the current scope (proved here, used by the outer invariant)"""
        cx = ex.ctx(st)
        mm = method_match(cx.pre, st.env['rule'].t, st.env['scope'].t)
        ex.oblige(st, ex.uniq('lemma:matched-only-if-MethodMatch'), mm, kind='lemma')
        st.assume(mm)

    keep = ['list'] + ['attr:' + f for f in rf] + ['attr:name', 'attr:attrs', 'attr:stmt_id', 'attr:entry_point_results']
    reg.add(Contract(EP, 'EntryPointGenerator.check_rules',
                     dict(self=Obj('EntryPointGenerator'), unit_info=Obj('UnitInfo'), unit_scope=Opaque('DataModel'), candidate_rules=List(RULE)),
                     returns=NoneT, ghost_hooks={'after_stmt:matched = True': lemma_matched},
                     requires=[('candidates-have-consistent-flags-and-no-args/return_type-criteria', cands_ok),
                               ('scope-names-and-attrs-are-strings-or-missing', lambda c: S.forall([kq], z3.Implies(
                                   z3.And(kq >= 0, kq < z3.Length(method_scopes(c))), z3.And(
                                       z3.Or(S.is_str(c.pre.attr(S.at(method_scopes(c), kq), 'name')), S.is_none(c.pre.attr(S.at(method_scopes(c), kq), 'name'))),
                                       z3.Or(S.is_str(c.pre.attr(S.at(method_scopes(c), kq), 'attrs')), S.is_none(c.pre.attr(S.at(method_scopes(c), kq), 'attrs'))))),
                                   patterns=[S.at(method_scopes(c), kq)]))],
                     loops={1: LoopSpec(invariants=[('only-selected-added-so-far', lambda c: results_sound(c, c.cur, c.i)),
                                                    ('all-selected-so-far-added', lambda c: results_complete(c, c.cur, c.i)),
                                                    ('inputs-untouched', lambda c: untouched(c, keep))],
                                        modifies=lambda c: {'dom': [c.pre.attr(c.p.self, 'entry_point_results')]}),
                            2: LoopSpec(invariants=[('no-earlier-candidate-matches', inner_inv)], modifies=lambda c: {})},
                     ensures=[('no-unselected-method-is-a-start', lambda c: results_sound(c, c.new, z3.Length(method_scopes(c)))),
                              ('every-selected-method-is-a-start', lambda c: results_complete(c, c.new, z3.Length(method_scopes(c))))],
                     modifies=lambda c: {'dom': [c.old.attr(c.p.self, 'entry_point_results')]}))

    # ---- EntryPointsLoader / Loader --------------------------------------------------------------------------------------
    def union_spec(c, target_set, arg_set):
        new, old, arg = c.new.dom(target_set), c.old.dom(target_set), c.old.dom(arg_set)
        return S.forall([xq], z3.Select(new, xq) == z3.Or(z3.Select(old, xq), z3.Select(arg, xq)), patterns=[z3.Select(new, xq)])

    reg.add(Contract(LD, 'EntryPointsLoader.__init__', dict(self=Obj('EntryPointsLoader'), path=Any), returns=NoneT,
                     ensures=[('starts-empty', lambda c: S.forall([xq], z3.Not(z3.Select(c.new.dom(c.new.attr(c.p.self, 'entry_points')), xq)))),
                              ('own-fresh-set', lambda c: S.addr(c.new.attr(c.p.self, 'entry_points')) >= c.old.next)],
                     modifies=lambda c: {'attr:path': [c.p.self], 'attr:entry_points': [c.p.self]}))
    reg.add(Contract(LD, 'EntryPointsLoader.save', dict(self=Obj('EntryPointsLoader'), entry_points=Set(Any)), returns=NoneT,
                     requires=[('argument-is-not-the-stored-set', lambda c: c.p.entry_points != c.old.attr(c.p.self, 'entry_points'))],
                     ensures=[('stored-set-is-old-union-argument', lambda c: union_spec(c, c.old.attr(c.p.self, 'entry_points'), c.p.entry_points)),
                              ('same-set-object', lambda c: c.new.attr(c.p.self, 'entry_points') == c.old.attr(c.p.self, 'entry_points'))],
                     modifies=lambda c: {'dom': [c.old.attr(c.p.self, 'entry_points')], 'attr:entry_points': [c.p.self]}))
    reg.add(Contract(LD, 'EntryPointsLoader.get_entry_points', dict(self=Obj('EntryPointsLoader')), returns=Set(Any),
                     ensures=[('returns-the-stored-set', lambda c: c.res == c.old.attr(c.p.self, 'entry_points'))]))
    def ldr_set(c, h):
        return h.attr(h.attr(c.p.self, '_entry_points_loader'), 'entry_points')
    reg.add(Contract(LD, 'Loader.save_entry_points', dict(self=Obj('Loader'), entry_points=Set(Any)), returns=NoneT,
                     requires=[('argument-is-not-the-stored-set', lambda c: c.p.entry_points != ldr_set(c, c.old))],
                     ensures=[('stored-set-is-old-union-argument', lambda c: union_spec(c, ldr_set(c, c.old), c.p.entry_points)),
                              ('same-set-object', lambda c: ldr_set(c, c.new) == ldr_set(c, c.old))],
                     modifies=lambda c: {'dom': [ldr_set(c, c.old)], 'attr:entry_points': [c.old.attr(c.p.self, '_entry_points_loader')]}))
    reg.add(Contract(LD, 'Loader.get_entry_points', dict(self=Obj('Loader')), returns=Set(Any),
                     ensures=[('returns-the-stored-set', lambda c: c.res == ldr_set(c, c.old))]))

    # ---- collect_entry_points_from_unit_scope ------------------------------------------------------------------------------
    jr = z3.Int('jr')

    def c_rules(c):
        return c.pre.list(c.pre.attr(c.p.self, 'entry_point_rules'))

    def c_results(c, h):
        return h.dom(c.pre.attr(c.p.self, 'entry_point_results'))

    def c_loader_set(c, h):
        ld = c.pre.attr(c.p.self, 'loader')
        return h.dom(c.pre.attr(c.pre.attr(ld, '_entry_points_loader'), 'entry_points'))

    def c_sel_body(c, k, j):
        ms, rs = method_scopes(c), c_rules(c)
        return z3.And(k >= 0, k < z3.Length(ms), j >= 0, j < z3.Length(rs), unit_match(c.pre, S.at(rs, j), c.p.unit_info),
                      method_match(c.pre, S.at(rs, j), S.at(ms, k)))

    def c_sid(c, k):
        return S.mk_int(S.ival(c.pre.attr(S.at(method_scopes(c), k), 'stmt_id')))

    def c_sound(c):
        ms, rs = method_scopes(c), c_rules(c)
        return S.forall([xq], z3.Implies(z3.Select(c_results(c, c.new), xq), z3.Or(
            z3.Select(c_results(c, c.pre), xq),
            z3.Exists([kq, jr], z3.And(c_sel_body(c, kq, jr), c_sid(c, kq) == xq), patterns=[z3.MultiPattern(S.at(ms, kq), S.at(rs, jr))]))),
            patterns=[z3.Select(c_results(c, c.new), xq)])

    def c_complete(c):
        ms, rs = method_scopes(c), c_rules(c)
        return z3.And(S.forall([xq], z3.Implies(z3.Select(c_results(c, c.pre), xq), z3.Select(c_results(c, c.new), xq)),
                                patterns=[z3.Select(c_results(c, c.pre), xq)]),
                      S.forall([kq, jr], z3.Implies(c_sel_body(c, kq, jr), z3.Select(c_results(c, c.new), c_sid(c, kq))),
                                patterns=[z3.MultiPattern(S.at(ms, kq), S.at(rs, jr))]))

    def c_some_rule_matches(c):
        rs = c_rules(c)
        return z3.Exists([jr], z3.And(jr >= 0, jr < z3.Length(rs), unit_match(c.pre, S.at(rs, jr), c.p.unit_info)), patterns=[S.at(rs, jr)])

    def c_saved(c):
        new, old, res = c_loader_set(c, c.new), c_loader_set(c, c.pre), c_results(c, c.new)
        return z3.If(c_some_rule_matches(c),
                     S.forall([xq], z3.Select(new, xq) == z3.Or(z3.Select(old, xq), z3.Select(res, xq)), patterns=[z3.Select(new, xq)]),
                     new == old)

    def c_rules_ok(c):
        rs = c_rules(c)
        return S.forall([jq], z3.Implies(z3.And(jq >= 0, jq < z3.Length(rs)),
                                          z3.And(rule_inv(c.pre, S.at(rs, jq)),
                                                 z3.Length(sstr(c.pre.attr(S.at(rs, jq), 'args'))) == 0,
                                                 z3.Length(sstr(c.pre.attr(S.at(rs, jq), 'return_type'))) == 0)), patterns=[S.at(rs, jq)])

    def c_scopes_ok(c):
        ms = method_scopes(c)
        return S.forall([kq], z3.Implies(z3.And(kq >= 0, kq < z3.Length(ms)), z3.And(
            z3.Or(S.is_str(c.pre.attr(S.at(ms, kq), 'name')), S.is_none(c.pre.attr(S.at(ms, kq), 'name'))),
            z3.Or(S.is_str(c.pre.attr(S.at(ms, kq), 'attrs')), S.is_none(c.pre.attr(S.at(ms, kq), 'attrs'))))), patterns=[S.at(ms, kq)])

    reg.add(Contract(EP, 'EntryPointGenerator.collect_entry_points_from_unit_scope',
                     dict(self=Obj('EntryPointGenerator'), unit_info=Obj('UnitInfo'), unit_scope=Opaque('DataModel')), returns=NoneT,
                     requires=[('rules-have-consistent-flags-and-no-args/return_type-criteria', c_rules_ok),
                               ('scope-names-and-attrs-are-strings-or-missing', c_scopes_ok),
                               ('result-set-and-loader-set-are-different-objects', lambda c: c.pre.attr(c.p.self, 'entry_point_results') !=
                                c.pre.attr(c.pre.attr(c.pre.attr(c.p.self, 'loader'), '_entry_points_loader'), 'entry_points'))],
                     ensures=[('no-unselected-method-is-a-start', c_sound),
                              ('every-selected-method-is-a-start', c_complete),
                              ('saved-to-the-loader-iff-some-rule-matches-the-unit', c_saved)],
                     modifies=lambda c: {'dom': [c.pre.attr(c.p.self, 'entry_point_results'),
                                                 c.pre.attr(c.pre.attr(c.pre.attr(c.p.self, 'loader'), '_entry_points_loader'), 'entry_points')],
                                         'attr:entry_points': [c.pre.attr(c.pre.attr(c.p.self, 'loader'), '_entry_points_loader')]}))
    return reg


ASSUMPTIONS = [
    'rule fields have the types declared by the EntryPointRule dataclass (yaml.safe_load output is not type-checked by the code)',
    'rules using the unimplemented args/return_type criteria are outside the precondition of check_rules (the code compares them with "")',
    'unit_info / scope rows are modelled as objects with the attributes read (lang, module_id, unit_path; name, attrs, stmt_id)',
]
EXPLANATION = 'Deductive proof of the entry-point selection functions against the exact-selection specification (UnitMatch / MethodMatch).'
