"""C20 — Entry points and unit initialisers are selected exactly as configured.

Under contract (real source):
  util.py              : check_file_processing_flag_and_extract_lang (+ is_empty/is_available/is_none/isna, shared)
  basics/entry_points.py: EntryPointRule.check_availablility, EntryPointGenerator.{filter_rule_by_unit_info, check_rules,
                         collect_entry_points_from_unit_scope, _load_settings}
  util/loader.py       : EntryPointsLoader.{__init__, save, get_entry_points}, Loader.{save_entry_points, get_entry_points}
  core/global_semantics.py: GlobalSemanticAnalysis.run (the set of starts)
  taint/taint_analysis.py : TaintAnalysis.run (which graphs are read)
"""
import z3
from lianvc import sorts as S
from lianvc.sorts import Any, Int, Bool, Str, NoneT, Opt, List, Dict, Set, Tuple, TupleOf, Obj, Val, Fn, Opaque
from lianvc.contracts import Contract, ClassInfo, LoopSpec, Registry
from lianvc.engine import V, Outcome, Unsupported, below
from contracts import shared

PROPERTY = 'C20'
REPLAY = 'c20_replay.py'
UTIL = 'src/lian/util/util.py'
EP = 'src/lian/basics/entry_points.py'
LD = 'src/lian/util/loader.py'
GS = 'src/lian/core/global_semantics.py'
TA = 'src/lian/taint/taint_analysis.py'

RULE = Obj('EntryPointRule')
FLAGS = ['lang', 'unit_name', 'unit_path', 'method_list', 'attrs', 'args', 'return_type']


RULE_FIELDS = dict(lang=Str, unit_id=Int, unit_path=Str, unit_name=Str, method_id=Int, method_list=List(Str), attrs=List(Str),
                   args=Str, return_type=Str)


def rule_inv(h, r):
    """the rule's fields have the dataclass-declared types and is_X_available == util.is_available(X) for the seven
    criteria (established by check_availablility, which __post_init__ calls)"""
    typed = [S.has_type(h.attr(r, f), t) for f, t in RULE_FIELDS.items()]
    return z3.And(*typed, *[S.bval(h.attr(r, f'is_{f}_available')) == z3.Not(shared.empty(h.attr(r, f), h)) for f in FLAGS])


def sstr(x):
    return S.sval(x)


def unit_match(h, r, u):
    """from the statement: 'matched on language, file name or path' — every unit restriction a rule states must hold"""
    lang, uid, uname, upath = h.attr(r, 'lang'), S.ival(h.attr(r, 'unit_id')), h.attr(r, 'unit_name'), h.attr(r, 'unit_path')
    u_lang, u_mid, u_path = h.attr(u, 'lang'), S.ival(h.attr(u, 'module_id')), h.attr(u, 'unit_path')
    base = shared.sp_basename(sstr(u_path))
    return z3.And(
        z3.Or(z3.Length(sstr(lang)) == 0, lang == u_lang),
        z3.Or(uid < 0, uid == u_mid),
        z3.Or(z3.Length(sstr(uname)) == 0, z3.Contains(base, sstr(uname))),
        z3.Or(z3.Length(sstr(upath)) == 0, z3.Contains(sstr(u_path), sstr(upath))))


def scope_name(h, s):
    n = h.attr(s, 'name')
    return z3.If(shared.empty(n, h), S.mk_str(''), n)


def scope_attrs(h, s):
    n = h.attr(s, 'attrs')
    return z3.If(shared.empty(n, h), S.mk_str(''), n)


def method_match(h, r, s):
    """'method name and attributes' (args/return_type criteria are unimplemented in the code: outside the precondition)"""
    mid = S.ival(h.attr(r, 'method_id'))
    ml, at_ = h.attr(r, 'method_list'), h.attr(r, 'attrs')
    name, attrs = scope_name(h, s), scope_attrs(h, s)
    j = z3.Int('mj')
    all_attrs = S.forall([j], z3.Implies(z3.And(j >= 0, j < z3.Length(h.list(at_))),
                                          z3.Contains(sstr(attrs), sstr(S.at(h.list(at_), j)))), patterns=[S.at(h.list(at_), j)])
    by_name = z3.And(z3.Or(z3.Length(h.list(ml)) == 0, S.member(h.list(ml), name)),
                     z3.Or(z3.Length(h.list(at_)) == 0, z3.And(z3.Length(sstr(attrs)) > 0, all_attrs)))
    return z3.If(mid >= 0, mid == S.ival(h.attr(s, 'stmt_id')), by_name)


def build():
    reg = Registry()
    shared.register_util(reg)
    shared.register_ospath(reg)
    rf = dict(lang=Str, unit_id=Int, unit_path=Str, unit_name=Str, method_id=Int, method_list=List(Str), attrs=List(Str),
              args=Str, return_type=Str)
    for f in FLAGS:
        rf[f'is_{f}_available'] = Bool
    reg.add_class(ClassInfo('EntryPointRule', EP, rf))
    reg.add_class(ClassInfo('UnitInfo', EP, dict(lang=Str, module_id=Int, unit_path=Str)))
    reg.add_class(ClassInfo('ScopeRow', EP, dict(name=Any, attrs=Any, stmt_id=Int)))
    reg.add_class(ClassInfo('Options', EP, dict(default_settings=Str, quiet=Any, enable_p2=Any)))
    reg.add_class(ClassInfo('EntryPointsLoader', LD, dict(path=Any, entry_points=Set(Any))))
    reg.add_class(ClassInfo('Loader', LD, dict(_entry_points_loader=Obj('EntryPointsLoader'))))
    reg.add_class(ClassInfo('EntryPointGenerator', EP, dict(options=Obj('Options'), event_manager=Any, loader=Obj('Loader'),
                                                           entry_point_rules=List(RULE), entry_point_results=Set(Int))))

    # ---- util.check_file_processing_flag_and_extract_lang ------------------------------------------------------------
    def flag_spec(c):
        f, r = sstr(c.p.file_name), sstr(c.p.requirement)
        dash = z3.StringVal('-')
        k = z3.IndexOf(f, dash, 0)
        before = z3.If(k < 0, f, z3.SubString(f, 0, k))
        flag = z3.Or(f == r, z3.And(z3.SuffixOf(z3.Concat(dash, r), f), z3.Length(before) > 0))
        res_flag, res_lang = S.items(c.res)[0], S.items(c.res)[1]
        return z3.And(S.bval(res_flag) == flag,
                      sstr(res_lang) == z3.If(z3.And(f != r, z3.SuffixOf(z3.Concat(dash, r), f)), before, z3.StringVal('')))
    reg.add(Contract(UTIL, 'check_file_processing_flag_and_extract_lang', dict(file_name=Str, requirement=Str),
                     returns=Tuple(Bool, Str),
                     ensures=[('flag-iff-exact-or-nonempty-lang-prefix', flag_spec)]))

    # ---- EntryPointRule.check_availablility --------------------------------------------------------------------------
    reg.add(Contract(EP, 'EntryPointRule.check_availablility', dict(self=RULE), returns=NoneT,
                     requires=[('fields-have-the-declared-types', lambda c: z3.And(*[S.has_type(c.old.attr(c.p.self, f), t) for f, t in RULE_FIELDS.items()]))],
                     ensures=[('flags-mirror-the-criteria', lambda c: rule_inv(c.new, c.p.self))],
                     modifies=lambda c: {f'attr:is_{f}_available': [c.p.self] for f in FLAGS}))

    # the dataclass hook that runs after every construction of a rule: it establishes the flags and leaves the configured criteria exactly as written in the rule file
    reg.add(Contract(EP, 'EntryPointRule.__post_init__', dict(self=RULE), returns=NoneT,
                     requires=[('fields-have-the-declared-types', lambda c: z3.And(*[S.has_type(c.old.attr(c.p.self, f), t) for f, t in RULE_FIELDS.items()]))],
                     ensures=[('flags-mirror-the-criteria', lambda c: rule_inv(c.new, c.p.self)),
                              ('the-criteria-are-the-configured-ones', lambda c: z3.And(*[c.new.attr(c.p.self, f) == c.old.attr(c.p.self, f) for f in RULE_FIELDS]))],
                     modifies=lambda c: {f'attr:is_{f}_available': [c.p.self] for f in FLAGS}))

    # ---- filter_rule_by_unit_info ---------------------------------------------------------------------------------------
    def rules_seq(c, h=None):
        h = h or c.pre
        return h.list(h.attr(c.p.self, 'entry_point_rules'))

    jq = z3.Int('j')

    def all_rules_inv(c):
        rs = rules_seq(c)
        return S.forall([jq], z3.Implies(z3.And(jq >= 0, jq < z3.Length(rs)), rule_inv(c.pre, S.at(rs, jq))), patterns=[S.at(rs, jq)])

    def filt_sound(c, res_seq, upto_unused=None):
        """every element of the result is a rule of the list that matches the unit"""
        rs = rules_seq(c)
        return S.forall([jq], z3.Implies(z3.And(jq >= 0, jq < z3.Length(res_seq)),
                                          z3.And(S.member(rs, S.at(res_seq, jq)), unit_match(c.pre, S.at(res_seq, jq), c.p.unit_info))),
                         patterns=[S.at(res_seq, jq)])

    def filt_complete(c, res_seq, upto):
        rs = rules_seq(c)
        return S.forall([jq], z3.Implies(z3.And(jq >= 0, jq < upto, unit_match(c.pre, S.at(rs, jq), c.p.unit_info)),
                                          S.member(res_seq, S.at(rs, jq))), patterns=[S.at(rs, jq)])

    def some_match(c, upto):
        rs = rules_seq(c)
        return z3.Exists([jq], z3.And(jq >= 0, jq < upto, unit_match(c.pre, S.at(rs, jq), c.p.unit_info)), patterns=[S.at(rs, jq)])

    def heap_same(c, fields):
        return z3.And(*[c.cur.field(f) == c.pre.field(f) for f in fields])

    rule_fields = ['attr:' + f for f in rf] + ['attr:lang', 'attr:module_id', 'attr:unit_path', 'attr:entry_point_rules']
    reg.add(Contract(EP, 'EntryPointGenerator.filter_rule_by_unit_info', dict(self=Obj('EntryPointGenerator'), unit_info=Obj('UnitInfo')),
                     returns=List(RULE),
                     requires=[('rules-carry-consistent-availability-flags', all_rules_inv)],
                     loops={1: LoopSpec(invariants=[
                         ('candidates-are-matching-rules', lambda c: filt_sound(c, c.cur.list(c.l.candidate_rules))),
                         ('every-matching-rule-so-far-is-a-candidate', lambda c: filt_complete(c, c.cur.list(c.l.candidate_rules), c.i)),
                         ('nonempty-iff-some-rule-matched-so-far', lambda c: (z3.Length(c.cur.list(c.l.candidate_rules)) > 0) == some_match(c, c.i)),
                         ('candidate-list-is-fresh', lambda c: z3.And(S.addr(c.l.candidate_rules) >= c.pre.next, S.addr(c.l.candidate_rules) < c.cur.next)),
                         ('rules-untouched', lambda c: S.forall([jq], z3.Implies(z3.And(jq > 0, jq < c.pre.next),
                                                                                z3.Select(c.cur.field('list'), jq) == z3.Select(c.pre.field('list'), jq)),
                                                                 patterns=[z3.Select(c.cur.field('list'), jq)]))])},
                     ensures=[('only-matching-rules', lambda c: filt_sound(c, c.new.list(c.res))),
                              ('all-matching-rules', lambda c: filt_complete(c, c.new.list(c.res), z3.Length(rules_seq(c)))),
                              ('nonempty-iff-some-rule-matches', lambda c: (z3.Length(c.new.list(c.res)) > 0) == some_match(c, z3.Length(rules_seq(c)))),
                              ('result-is-a-fresh-list', lambda c: S.addr(c.res) >= c.pre.next)],
                     modifies=lambda c: {}, fresh_fields=['list']))

    # ---- check_rules ---------------------------------------------------------------------------------------------------
    _qres = z3.Function('dm_query_index_column_value', z3.IntSort(), S.PyObj(), S.PyObj(), S.SeqP())

    @reg.extern_method('DataModel', 'query_index_column_value',
                       'DataModel.query_index_column_value: the rows whose column equals the value (proved for DataModel under C16); '
                       'here an uninterpreted sequence of ScopeRow objects')
    def _query(ex, st, node, recv, args, kwargs):
        seq = _qres(S.addr(recv.t), args[0].t, args[1].t)
        r = ex.alloc(st, 'list')
        st.set_field('list', z3.Store(st.field('list'), S.addr(r), seq))
        j = z3.Int('qj')
        st.assume(S.forall([j], z3.Implies(z3.And(j >= 0, j < z3.Length(seq)),
                                            z3.And(S.has_type(S.at(seq, j), Obj('ScopeRow')), below(S.at(seq, j), ex.entry_state.next_ref))),
                            patterns=[S.at(seq, j)]))
        return V(r, List(Obj('ScopeRow')))

    def method_scopes(c):
        from lianvc import source
        kind = source.const_eval(source.load(EP), __import__('ast').parse('LIAN_SYMBOL_KIND.METHOD_KIND', mode='eval').body)
        return _qres(S.addr(c.p.unit_scope), S.mk_str('scope_kind'), S.mk_int(kind))

    kq, rq = z3.Ints('k r')

    def sel_body(c, x, upto, k, r):
        ms = method_scopes(c)
        cs = c.pre.list(c.p.candidate_rules)
        return z3.And(k >= 0, k < upto, r >= 0, r < z3.Length(cs),
                      S.mk_int(S.ival(c.pre.attr(S.at(ms, k), 'stmt_id'))) == x,
                      method_match(c.pre, S.at(cs, r), S.at(ms, k)))

    def selected(c, x, upto):
        """x is the id of one of the first `upto` method scopes matched by some candidate rule"""
        ms = method_scopes(c)
        cs = c.pre.list(c.p.candidate_rules)
        return z3.Exists([kq, rq], sel_body(c, x, upto, kq, rq), patterns=[z3.MultiPattern(S.at(ms, kq), S.at(cs, rq))])

    xq = z3.Const('x', S.PyObj())

    def results_sound(c, h, upto):
        """'a method no rule selects is never used as a start': everything in the result set was there or is selected"""
        old = c.pre.dom(c.pre.attr(c.p.self, 'entry_point_results'))
        new = h.dom(c.pre.attr(c.p.self, 'entry_point_results'))
        return S.forall([xq], z3.Implies(z3.Select(new, xq), z3.Or(z3.Select(old, xq), selected(c, xq, upto))),
                         patterns=[z3.Select(new, xq)])

    def results_complete(c, h, upto):
        """'a selected method is analysed': everything that was there or is selected is in the result set"""
        old = c.pre.dom(c.pre.attr(c.p.self, 'entry_point_results'))
        new = h.dom(c.pre.attr(c.p.self, 'entry_point_results'))
        ms, cs = method_scopes(c), c.pre.list(c.p.candidate_rules)
        sid = S.mk_int(S.ival(c.pre.attr(S.at(ms, kq), 'stmt_id')))
        return z3.And(S.forall([xq], z3.Implies(z3.Select(old, xq), z3.Select(new, xq)), patterns=[z3.Select(old, xq)]),
                      S.forall([kq, rq], z3.Implies(z3.And(kq >= 0, kq < upto, rq >= 0, rq < z3.Length(cs),
                                                            method_match(c.pre, S.at(cs, rq), S.at(ms, kq))), z3.Select(new, sid)),
                                patterns=[z3.MultiPattern(S.at(ms, kq), S.at(cs, rq))]))

    def cands_ok(c):
        cs = c.pre.list(c.p.candidate_rules)
        return S.forall([jq], z3.Implies(z3.And(jq >= 0, jq < z3.Length(cs)),
                                          z3.And(rule_inv(c.pre, S.at(cs, jq)),
                                                 z3.Length(sstr(c.pre.attr(S.at(cs, jq), 'args'))) == 0,
                                                 z3.Length(sstr(c.pre.attr(S.at(cs, jq), 'return_type'))) == 0)), patterns=[S.at(cs, jq)])

    def inner_inv(c):
        """matched <=> some candidate seen so far matches (stated so that it holds whether the loop stops at the first match or not)"""
        cs = c.pre.list(c.p.candidate_rules)
        return z3.And(z3.Implies(S.bval(c.l.matched), z3.Exists([rq], z3.And(rq >= 0, rq < c.i, method_match(c.pre, S.at(cs, rq), c.l.scope)),
                                                                patterns=[S.at(cs, rq)])),
                      z3.Implies(z3.Not(S.bval(c.l.matched)),
                                 S.forall([rq], z3.Implies(z3.And(rq >= 0, rq < c.i), z3.Not(method_match(c.pre, S.at(cs, rq), c.l.scope))),
                                          patterns=[S.at(cs, rq)])))

    def untouched(c, fields):
        """pre-existing objects keep their content in these heap fields"""
        a = z3.Int('ua')
        return z3.And(*[S.forall([a], z3.Implies(z3.And(a > 0, a < c.pre.next), z3.Select(c.cur.field(f), a) == z3.Select(c.pre.field(f), a)),
                                  patterns=[z3.Select(c.cur.field(f), a)]) for f in fields])

    def lemma_matched(ex, st, node):
        """cut: at each `matched = True` the current rule matches the current scope (proved here, used by the outer invariant)"""
        cx = ex.ctx(st)
        mm = method_match(cx.pre, st.env['rule'].t, st.env['scope'].t)
        ex.oblige(st, ex.uniq('lemma:matched-only-if-MethodMatch'), mm, kind='lemma')
        st.assume(mm)

    keep = ['list'] + ['attr:' + f for f in rf] + ['attr:name', 'attr:attrs', 'attr:stmt_id', 'attr:entry_point_results']
    reg.add(Contract(EP, 'EntryPointGenerator.check_rules',
                     dict(self=Obj('EntryPointGenerator'), unit_info=Obj('UnitInfo'), unit_scope=Opaque('DataModel'), candidate_rules=List(RULE)),
                     returns=NoneT, ghost_hooks={'after_stmt:matched = True': lemma_matched},
                     requires=[('candidates-have-consistent-flags-and-no-args/return_type-criteria', cands_ok),
                               ('scope-names-and-attrs-are-strings-or-missing', lambda c: S.forall([kq], z3.Implies(
                                   z3.And(kq >= 0, kq < z3.Length(method_scopes(c))), z3.And(
                                       z3.Or(S.is_str(c.pre.attr(S.at(method_scopes(c), kq), 'name')), S.is_none(c.pre.attr(S.at(method_scopes(c), kq), 'name'))),
                                       z3.Or(S.is_str(c.pre.attr(S.at(method_scopes(c), kq), 'attrs')), S.is_none(c.pre.attr(S.at(method_scopes(c), kq), 'attrs'))))),
                                   patterns=[S.at(method_scopes(c), kq)]))],
                     loops={1: LoopSpec(invariants=[('only-selected-added-so-far', lambda c: results_sound(c, c.cur, c.i)),
                                                    ('all-selected-so-far-added', lambda c: results_complete(c, c.cur, c.i)),
                                                    ('inputs-untouched', lambda c: untouched(c, keep))],
                                        modifies=lambda c: {'dom': [c.pre.attr(c.p.self, 'entry_point_results')]}),
                            2: LoopSpec(invariants=[('no-earlier-candidate-matches', inner_inv)], modifies=lambda c: {})},
                     ensures=[('no-unselected-method-is-a-start', lambda c: results_sound(c, c.new, z3.Length(method_scopes(c)))),
                              ('every-selected-method-is-a-start', lambda c: results_complete(c, c.new, z3.Length(method_scopes(c))))],
                     modifies=lambda c: {'dom': [c.old.attr(c.p.self, 'entry_point_results')]}))

    # ---- EntryPointsLoader / Loader --------------------------------------------------------------------------------------
    def union_spec(c, target_set, arg_set):
        new, old, arg = c.new.dom(target_set), c.old.dom(target_set), c.old.dom(arg_set)
        return S.forall([xq], z3.Select(new, xq) == z3.Or(z3.Select(old, xq), z3.Select(arg, xq)), patterns=[z3.Select(new, xq)])

    reg.add(Contract(LD, 'EntryPointsLoader.__init__', dict(self=Obj('EntryPointsLoader'), path=Any), returns=NoneT,
                     ensures=[('starts-empty', lambda c: S.forall([xq], z3.Not(z3.Select(c.new.dom(c.new.attr(c.p.self, 'entry_points')), xq)))),
                              ('own-fresh-set', lambda c: S.addr(c.new.attr(c.p.self, 'entry_points')) >= c.old.next),
                              ('records-its-path', lambda c: c.new.attr(c.p.self, 'path') == c.p.path)],
                     modifies=lambda c: {'attr:path': [c.p.self], 'attr:entry_points': [c.p.self]}))
    reg.add(Contract(LD, 'EntryPointsLoader.save', dict(self=Obj('EntryPointsLoader'), entry_points=Set(Any)), returns=NoneT,
                     requires=[('argument-is-not-the-stored-set', lambda c: c.p.entry_points != c.old.attr(c.p.self, 'entry_points'))],
                     ensures=[('stored-set-is-old-union-argument', lambda c: union_spec(c, c.old.attr(c.p.self, 'entry_points'), c.p.entry_points)),
                              ('same-set-object', lambda c: c.new.attr(c.p.self, 'entry_points') == c.old.attr(c.p.self, 'entry_points'))],
                     modifies=lambda c: {'dom': [c.old.attr(c.p.self, 'entry_points')], 'attr:entry_points': [c.p.self]}))
    reg.add(Contract(LD, 'EntryPointsLoader.get_entry_points', dict(self=Obj('EntryPointsLoader')), returns=Set(Any),
                     ensures=[('returns-the-stored-set', lambda c: c.res == c.old.attr(c.p.self, 'entry_points'))]))
    def ldr_set(c, h):
        return h.attr(h.attr(c.p.self, '_entry_points_loader'), 'entry_points')
    reg.add(Contract(LD, 'Loader.save_entry_points', dict(self=Obj('Loader'), entry_points=Set(Any)), returns=NoneT,
                     requires=[('argument-is-not-the-stored-set', lambda c: c.p.entry_points != ldr_set(c, c.old))],
                     ensures=[('stored-set-is-old-union-argument', lambda c: union_spec(c, ldr_set(c, c.old), c.p.entry_points)),
                              ('same-set-object', lambda c: ldr_set(c, c.new) == ldr_set(c, c.old))],
                     modifies=lambda c: {'dom': [ldr_set(c, c.old)], 'attr:entry_points': [c.old.attr(c.p.self, '_entry_points_loader')]}))
    reg.add(Contract(LD, 'Loader.get_entry_points', dict(self=Obj('Loader')), returns=Set(Any),
                     ensures=[('returns-the-stored-set', lambda c: c.res == ldr_set(c, c.old))]))

    # ---- collect_entry_points_from_unit_scope ------------------------------------------------------------------------------
    jr = z3.Int('jr')

    def c_rules(c):
        return c.pre.list(c.pre.attr(c.p.self, 'entry_point_rules'))

    def c_results(c, h):
        return h.dom(c.pre.attr(c.p.self, 'entry_point_results'))

    def c_loader_set(c, h):
        ld = c.pre.attr(c.p.self, 'loader')
        return h.dom(c.pre.attr(c.pre.attr(ld, '_entry_points_loader'), 'entry_points'))

    def c_sel_body(c, k, j):
        ms, rs = method_scopes(c), c_rules(c)
        return z3.And(k >= 0, k < z3.Length(ms), j >= 0, j < z3.Length(rs), unit_match(c.pre, S.at(rs, j), c.p.unit_info),
                      method_match(c.pre, S.at(rs, j), S.at(ms, k)))

    def c_sid(c, k):
        return S.mk_int(S.ival(c.pre.attr(S.at(method_scopes(c), k), 'stmt_id')))

    def c_sound(c):
        ms, rs = method_scopes(c), c_rules(c)
        return S.forall([xq], z3.Implies(z3.Select(c_results(c, c.new), xq), z3.Or(
            z3.Select(c_results(c, c.pre), xq),
            z3.Exists([kq, jr], z3.And(c_sel_body(c, kq, jr), c_sid(c, kq) == xq), patterns=[z3.MultiPattern(S.at(ms, kq), S.at(rs, jr))]))),
            patterns=[z3.Select(c_results(c, c.new), xq)])

    def c_complete(c):
        ms, rs = method_scopes(c), c_rules(c)
        return z3.And(S.forall([xq], z3.Implies(z3.Select(c_results(c, c.pre), xq), z3.Select(c_results(c, c.new), xq)),
                                patterns=[z3.Select(c_results(c, c.pre), xq)]),
                      S.forall([kq, jr], z3.Implies(c_sel_body(c, kq, jr), z3.Select(c_results(c, c.new), c_sid(c, kq))),
                                patterns=[z3.MultiPattern(S.at(ms, kq), S.at(rs, jr))]))

    def c_some_rule_matches(c):
        rs = c_rules(c)
        return z3.Exists([jr], z3.And(jr >= 0, jr < z3.Length(rs), unit_match(c.pre, S.at(rs, jr), c.p.unit_info)), patterns=[S.at(rs, jr)])

    def c_saved(c):
        new, old, res = c_loader_set(c, c.new), c_loader_set(c, c.pre), c_results(c, c.new)
        return z3.If(c_some_rule_matches(c),
                     S.forall([xq], z3.Select(new, xq) == z3.Or(z3.Select(old, xq), z3.Select(res, xq)), patterns=[z3.Select(new, xq)]),
                     new == old)

    def c_rules_ok(c):
        rs = c_rules(c)
        return S.forall([jq], z3.Implies(z3.And(jq >= 0, jq < z3.Length(rs)),
                                          z3.And(rule_inv(c.pre, S.at(rs, jq)),
                                                 z3.Length(sstr(c.pre.attr(S.at(rs, jq), 'args'))) == 0,
                                                 z3.Length(sstr(c.pre.attr(S.at(rs, jq), 'return_type'))) == 0)), patterns=[S.at(rs, jq)])

    def c_scopes_ok(c):
        ms = method_scopes(c)
        return S.forall([kq], z3.Implies(z3.And(kq >= 0, kq < z3.Length(ms)), z3.And(
            z3.Or(S.is_str(c.pre.attr(S.at(ms, kq), 'name')), S.is_none(c.pre.attr(S.at(ms, kq), 'name'))),
            z3.Or(S.is_str(c.pre.attr(S.at(ms, kq), 'attrs')), S.is_none(c.pre.attr(S.at(ms, kq), 'attrs'))))), patterns=[S.at(ms, kq)])

    reg.add(Contract(EP, 'EntryPointGenerator.collect_entry_points_from_unit_scope',
                     dict(self=Obj('EntryPointGenerator'), unit_info=Obj('UnitInfo'), unit_scope=Opaque('DataModel')), returns=NoneT,
                     requires=[('rules-have-consistent-flags-and-no-args/return_type-criteria', c_rules_ok),
                               ('scope-names-and-attrs-are-strings-or-missing', c_scopes_ok),
                               ('result-set-and-loader-set-are-different-objects', lambda c: c.pre.attr(c.p.self, 'entry_point_results') !=
                                c.pre.attr(c.pre.attr(c.pre.attr(c.p.self, 'loader'), '_entry_points_loader'), 'entry_points'))],
                     ensures=[('no-unselected-method-is-a-start', c_sound),
                              ('every-selected-method-is-a-start', c_complete),
                              ('saved-to-the-loader-iff-some-rule-matches-the-unit', c_saved)],
                     modifies=lambda c: {'dom': [c.pre.attr(c.p.self, 'entry_point_results'),
                                                 c.pre.attr(c.pre.attr(c.pre.attr(c.p.self, 'loader'), '_entry_points_loader'), 'entry_points')],
                                         'attr:entry_points': [c.pre.attr(c.pre.attr(c.p.self, 'loader'), '_entry_points_loader')]}))

    # ---- _load_settings: exactly the files whose name passes the flag are parsed, once, in os.walk order -----------------
    from lianvc import source as _src
    ENTRY_FILE = _src.const_eval(_src.load(EP), __import__('ast').parse('config.ENTRY_POINTS_FILE', mode='eval').body)
    WALK = List(Tuple(Str, List(Str), List(Str)))
    _walk = z3.Function('os_walk', z3.StringSort(), S.SeqP())

    @reg.extern('os.walk', 'os.walk(top): an (uninterpreted) finite sequence of (root, dirs, files) triples of strings; order as the OS returns it')
    def _os_walk(ex, st, node, args, kwargs):
        seq = _walk(S.sval(args[0].t))
        r = ex.alloc(st, 'list')
        st.set_field('list', z3.Store(st.field('list'), S.addr(r), seq))
        j, f = z3.Ints('wj wf')
        triple = S.at(seq, j)
        files = S.items(triple)[2]
        lo = st.next_ref
        nn = S.fresh('next_ref', z3.IntSort())
        st.assume(nn >= lo)
        st.next_ref = nn
        # the dirs/files lists are objects created by os.walk: allocated by this call
        st.assume(z3.ForAll([j], z3.Implies(z3.And(j >= 0, j < z3.Length(seq)), z3.And(
            S.is_tup(triple), z3.Length(S.items(triple)) == 3, S.is_str(S.items(triple)[0]),
            S.has_type(S.items(triple)[1], List(Str), nn), S.has_type(files, List(Str), nn),
            S.addr(S.items(triple)[1]) >= lo, S.addr(files) >= lo)),
            patterns=[S.at(seq, j)]))
        lst = st.field('list')
        st.assume(z3.ForAll([j, f], z3.Implies(z3.And(j >= 0, j < z3.Length(seq), f >= 0, f < z3.Length(z3.Select(lst, S.addr(files)))),
                                               S.is_str(S.at(z3.Select(lst, S.addr(files)), f))),
                            patterns=[S.at(z3.Select(lst, S.addr(files)), f)]))
        return V(r, WALK)

    reg.add(Contract(EP, 'EntryPointGenerator._parse_config_file', dict(self=Obj('EntryPointGenerator'), file_path=Str), returns=NoneT,
                     opaque=True, note='reads the YAML file and appends one EntryPointRule per entry (yaml.safe_load: trusted)',
                     modifies=lambda c: {'list': [c.old.attr(c.p.self, 'entry_point_rules')], '*': (lambda a: a >= c.old.next)}))

    II = z3.ArraySort(z3.IntSort(), z3.ArraySort(z3.IntSort(), z3.IntSort()))
    IP = z3.ArraySort(z3.IntSort(), z3.ArraySort(z3.IntSort(), S.PyObj()))

    def ls_ghost(ex, st):
        st.ghost['pcnt'] = z3.K(z3.IntSort(), z3.K(z3.IntSort(), z3.IntVal(0)))   # pcnt[r][f]: times file f of triple r was parsed
        st.ghost['ptm'] = z3.Const('g_ptm0', II)                                   # ghost clock at that call
        st.ghost['parg'] = z3.Const('g_parg0', IP)                                 # the path handed to _parse_config_file
        st.ghost['pt'] = z3.IntVal(0)

    def ls_after_parse(ex, st, bound, res, old):
        g = st.ghost
        r, f = g['loop1_i'], g['loop2_i']
        row = z3.Select(g['pcnt'], r)
        g['pcnt'] = z3.Store(g['pcnt'], r, z3.Store(row, f, z3.Select(row, f) + 1))
        g['ptm'] = z3.Store(g['ptm'], r, z3.Store(z3.Select(g['ptm'], r), f, g['pt']))
        g['parg'] = z3.Store(g['parg'], r, z3.Store(z3.Select(g['parg'], r), f, bound['file_path'].t))
        g['pt'] = g['pt'] + 1

    def W(c):
        return _walk(S.sval(c.pre.attr(c.pre.attr(c.p.self, 'options'), 'default_settings')))

    def files_of(c, r):
        return c.pre.list(S.items(S.at(W(c), r))[2])

    _passes = z3.Function('entry_file_name_passes', S.PyObj(), z3.BoolSort())

    def name_flag(nm):
        """opaque in the loop invariants; its definition (name_flag_def) is revealed for the current file name only"""
        return _passes(nm)

    def reveal_flag(ex, st, node):
        nm = st.env['file_name'].t
        st.assume(_passes(nm) == name_flag_def(nm))

    def name_flag_def(nm):
        f, rq_ = S.sval(nm), z3.StringVal(ENTRY_FILE)
        dash = z3.StringVal('-')
        k = z3.IndexOf(f, dash, 0)
        before = z3.If(k < 0, f, z3.SubString(f, 0, k))
        return z3.Or(f == rq_, z3.And(z3.SuffixOf(z3.Concat(dash, rq_), f), z3.Length(before) > 0))

    r_, f_, r2_, f2_ = z3.Ints('r f r2 f2')

    def lex_lt(r1, f1, r2, f2):
        return z3.Or(r1 < r2, z3.And(r1 == r2, f1 < f2))

    def done_before(r, f, R, F):
        """(r, f) precedes the position (R, F) of the nested iteration"""
        return lex_lt(r, f, R, F)

    def ls_counts(c, R, F):
        row = z3.Select(c.g.pcnt, r_)
        return S.forall([r_, f_], z3.Select(row, f_) == z3.If(z3.And(r_ >= 0, r_ < z3.Length(W(c)), f_ >= 0, f_ < z3.Length(files_of(c, r_)),
                                                                   done_before(r_, f_, R, F), name_flag(S.at(files_of(c, r_), f_))), 1, 0),
                        patterns=[z3.Select(z3.Select(c.g.pcnt, r_), f_)])

    def ls_called(c, r, f):
        return z3.Select(z3.Select(c.g.pcnt, r), f) == 1

    def ls_args(c):
        return S.forall([r_, f_], z3.Implies(ls_called(c, r_, f_), z3.And(
            S.sval(z3.Select(z3.Select(c.g.parg, r_), f_)) == shared.sp_join(S.sval(S.items(S.at(W(c), r_))[0]), S.sval(S.at(files_of(c, r_), f_))),
            z3.Select(z3.Select(c.g.ptm, r_), f_) >= 0, z3.Select(z3.Select(c.g.ptm, r_), f_) < c.g.pt)),
            patterns=[z3.Select(z3.Select(c.g.pcnt, r_), f_)])

    def ls_order(c):
        return S.forall([r_, f_, r2_, f2_], z3.Implies(z3.And(ls_called(c, r_, f_), ls_called(c, r2_, f2_), lex_lt(r_, f_, r2_, f2_)),
                                                       z3.Select(z3.Select(c.g.ptm, r_), f_) < z3.Select(z3.Select(c.g.ptm, r2_), f2_)),
                        patterns=[z3.MultiPattern(z3.Select(z3.Select(c.g.pcnt, r_), f_), z3.Select(z3.Select(c.g.pcnt, r2_), f2_))])

    def ls_walk_untouched(c):
        """the lists produced by os.walk and the options object are not touched by parsing"""
        a = z3.Int('la')
        rules = S.addr(c.pre.attr(c.p.self, 'entry_point_rules'))
        return z3.And(S.forall([a], z3.Implies(z3.And(a > 0, a < c.head.next, a != rules),
                                               z3.Select(c.cur.field('list'), a) == z3.Select(c.head.field('list'), a)),
                               patterns=[z3.Select(c.cur.field('list'), a)]),
                      c.cur.attr(c.p.self, 'options') == c.pre.attr(c.p.self, 'options'),
                      c.cur.attr(c.pre.attr(c.p.self, 'options'), 'default_settings') == c.pre.attr(c.pre.attr(c.p.self, 'options'), 'default_settings'),
                      c.cur.attr(c.p.self, 'entry_point_rules') == c.pre.attr(c.p.self, 'entry_point_rules'))

    def outer_inv(c):
        return z3.And(ls_counts(c, c.i, z3.IntVal(0)), ls_args(c), ls_order(c), c.g.pt >= 0)

    def inner_inv2(c):
        return z3.And(ls_counts(c, c.g.loop1_i, c.i), ls_args(c), ls_order(c), c.g.pt >= 0)

    reg.add(Contract(EP, 'EntryPointGenerator._load_settings', dict(self=Obj('EntryPointGenerator')), returns=NoneT,
                     ghost_init=ls_ghost, ghost_hooks={'after_call:EntryPointGenerator._parse_config_file': ls_after_parse,
                                                        'after_stmt:processing_flag, _ =': reveal_flag},
                     requires=[('rules-list-is-not-a-walk-result', lambda c: z3.BoolVal(True))],
                     loops={1: LoopSpec(invariants=[('parsed-exactly-the-passing-files-so-far', outer_inv), ('walk-result-untouched', ls_walk_untouched)]),
                            2: LoopSpec(invariants=[('parsed-exactly-the-passing-files-so-far', inner_inv2), ('walk-result-untouched', ls_walk_untouched)])},
                     ensures=[('every-passing-file-parsed-exactly-once-and-no-other', lambda c: ls_counts(c, z3.Length(W(c)), z3.IntVal(0))),
                              ('parsed-path-is-join(root,file)', ls_args),
                              ('in-walk-order', ls_order)],
                     modifies=lambda c: {'*': True}))

    # ---- P3GlobalSemanticAnalysis.run: the analysis starts exactly from the saved entry points -------------------------------
    CS = 'src/lian/common_structs.py'
    PS = 'src/lian/core/prelim_semantics.py'
    reg.add_class(ClassInfo('SymbolStateSpace', CS, {}))
    reg.add_class(ClassInfo('StateFlowGraph', CS, dict(method_id=Any, graph=Any), bases=['SymbolGraph']))
    reg.add_class(ClassInfo('SymbolGraph', CS, dict(method_id=Any, graph=Any)))
    reg.add_class(ClassInfo('MetaComputeFrame', CS, dict(method_id=Any)))
    reg.add_class(ClassInfo('ComputeFrame', CS, dict(method_id=Any, loader=Any, frame_space=Any, state_flow_graph=Any, call_site_analyze_counter=Any),
                            bases=['MetaComputeFrame']))
    reg.add_class(ClassInfo('ComputeFrameStack', CS, dict(_stack=List(Any), method_ids=Set(Any))))
    reg.add_class(ClassInfo('PathManager', CS, dict(paths=Any)))
    reg.add_class(ClassInfo('P2PrelimSemanticAnalysis', PS, {}))
    reg.classes['Options'].fields.update(quiet=Any, enable_p2=Any)
    reg.add_class(ClassInfo('P3GlobalSemanticAnalysis', GS, dict(options=Obj('Options'), loader=Obj('Loader'), call_site_analyze_counter=Dict(Any, Any),
                                                                 path_manager=Obj('PathManager'), analysis_phase_id=Any),
                            bases=['P2PrelimSemanticAnalysis']))
    P3 = Obj('P3GlobalSemanticAnalysis')

    def protect(c, self_obj):
        """frame assumed of the opaque analysis/saving callees: they do not touch the entry-point set, nor the pointers to it"""
        ld = c.old.attr(self_obj, 'loader')
        epl = c.old.attr(ld, '_entry_points_loader')
        st_ = c.old.attr(epl, 'entry_points')
        return {'*': True, 'dom': (lambda a: a != S.addr(st_)), 'attr:loader': (lambda a: a != S.addr(self_obj)),
                'attr:_entry_points_loader': (lambda a: a != S.addr(ld)), 'attr:entry_points': (lambda a: a != S.addr(epl)),
                'attr:options': (lambda a: a != S.addr(self_obj)), 'attr:path_manager': (lambda a: a != S.addr(self_obj))}

    reg.add(Contract(CS, 'SymbolStateSpace.__init__', dict(self=Obj('SymbolStateSpace')), returns=NoneT, opaque=True,
                     modifies=lambda c: {'*': (lambda a: a >= c.old.next)}, note='constructor of the abstract state space (not in scope)'))
    reg.add(Contract(CS, 'SymbolGraph.__init__', dict(self=Obj('SymbolGraph'), method_id=Any), returns=NoneT, opaque=True,
                     ensures=[('records-method-id', lambda c: c.new.attr(c.p.self, 'method_id') == c.p.method_id)],
                     modifies=lambda c: {'attr:method_id': [c.p.self], 'attr:graph': [c.p.self], '*': (lambda a: a >= c.old.next)},
                     note='StateFlowGraph(entry) = networkx.DiGraph wrapper (networkx: trusted)'))
    reg.add(Contract(CS, 'ComputeFrameStack.__init__', dict(self=Obj('ComputeFrameStack')), returns=NoneT,
                     ensures=[('empty-stack', lambda c: z3.Length(c.new.list(c.new.attr(c.p.self, '_stack'))) == 0),
                              ('fresh-containers', lambda c: z3.And(S.addr(c.new.attr(c.p.self, '_stack')) >= c.old.next,
                                                                    S.addr(c.new.attr(c.p.self, 'method_ids')) >= c.old.next))],
                     modifies=lambda c: {'attr:_stack': [c.p.self], 'attr:method_ids': [c.p.self]}, fresh_fields=['list', 'dom']))
    reg.add(Contract(CS, 'ComputeFrameStack.add', dict(self=Obj('ComputeFrameStack'), element=Obj('MetaComputeFrame')), returns=Obj('ComputeFrameStack'),
                     ensures=[('pushed-on-top', lambda c: c.new.list(c.old.attr(c.p.self, '_stack')) ==
                               z3.Concat(c.old.list(c.old.attr(c.p.self, '_stack')), z3.Unit(c.p.element))),
                              ('returns-self', lambda c: c.res == c.p.self),
                              ('method-id-recorded', lambda c: S.forall([xq], z3.Select(c.new.dom(c.old.attr(c.p.self, 'method_ids')), xq) ==
                                                                        z3.Or(z3.Select(c.old.dom(c.old.attr(c.p.self, 'method_ids')), xq),
                                                                              xq == c.old.attr(c.p.element, 'method_id'))))],
                     modifies=lambda c: {'list': [c.old.attr(c.p.self, '_stack')], 'dom': [c.old.attr(c.p.self, 'method_ids')]}))
    reg.add(Contract(CS, 'MetaComputeFrame.__init__', dict(self=Obj('MetaComputeFrame')), returns=NoneT, opaque=True,
                     modifies=lambda c: {'attr:method_id': [c.p.self], '*': (lambda a: a >= c.old.next)}, note='dataclass-generated constructor'))
    reg.add(Contract(CS, 'ComputeFrame.__init__',
                     dict(self=Obj('ComputeFrame'), method_id=Any, caller_id=Any, call_stmt_id=Any, loader=Any, space=Any, params_list=Any,
                          classes_of_method=Any, this_class_ids=Any, state_flow_graph=Any, call_site_analyze_counter=Any), returns=NoneT, opaque=True,
                     ensures=[('records-its-arguments', lambda c: z3.And(c.new.attr(c.p.self, 'method_id') == c.p.method_id,
                                                                         c.new.attr(c.p.self, 'state_flow_graph') == c.p.state_flow_graph,
                                                                         c.new.attr(c.p.self, 'frame_space') == c.p.space))],
                     modifies=lambda c: {'attr:method_id': [c.p.self], 'attr:loader': [c.p.self], 'attr:frame_space': [c.p.self],
                                         'attr:state_flow_graph': [c.p.self], 'attr:call_site_analyze_counter': [c.p.self], '*': (lambda a: a >= c.old.next)},
                     note='constructor of the per-method frame (130 lines of field initialisation, not in scope); space is stored as frame_space... '
                          'only method_id/state_flow_graph are used by the proof'))

    def ifs_spec(c):
        stack = c.new.list(c.new.attr(c.res, '_stack'))
        top = S.at(stack, 1)
        return z3.And(z3.Length(stack) == 2, S.has_type(S.at(stack, 0), Obj('MetaComputeFrame')), S.has_type(top, Obj('ComputeFrame')),
                      c.new.attr(top, 'method_id') == c.p.entry_method_id, c.new.attr(top, 'state_flow_graph') == c.p.sfg)
    reg.add(Contract(GS, 'P3GlobalSemanticAnalysis.init_frame_stack', dict(self=P3, entry_method_id=Any, global_space=Any, sfg=Any),
                     returns=Obj('ComputeFrameStack'),
                     ensures=[('meta-frame-then-entry-frame-for-this-entry', ifs_spec), ('fresh-stack', lambda c: S.addr(c.res) >= c.old.next)],
                     modifies=lambda c: {'*': (lambda a: a >= c.old.next)}, fresh_fields=[]))
    reg.add(Contract(GS, 'P3GlobalSemanticAnalysis.analyze_frame_stack', dict(self=P3, frame_stack=Obj('ComputeFrameStack'), global_space=Any, sfg=Any),
                     returns=Any, opaque=True, modifies=lambda c: protect(c, c.p.self), note='the top-down analysis itself (C07/C09/C10: not applicable)'))
    reg.add(Contract(PS, 'P2PrelimSemanticAnalysis.save_graph_to_dot', dict(self=P3, graph=Any, entry_point=Any, phase_id=Any, symbol_state_space=Any),
                     returns=Any, opaque=True, modifies=lambda c: protect(c, c.p.self), note='debug dump'))
    for nm, params in (('save_global_sfg_by_entry_point', dict(method_id=Any, graph=Any)), ('save_symbol_state_space_p3', dict(method_id=Any, state_space=Any)),
                       ('save_call_paths_p3', dict(paths=Any))):
        reg.add(Contract(LD, 'Loader.' + nm, dict(self=Obj('Loader'), **params), returns=Any, opaque=True,
                         modifies=lambda c: {'*': True, 'dom': (lambda a: a != S.addr(c.old.attr(c.old.attr(c.p.self, '_entry_points_loader'), 'entry_points'))),
                                             'attr:_entry_points_loader': (lambda a: a != S.addr(c.p.self)),
                                             'attr:entry_points': (lambda a: a != S.addr(c.old.attr(c.p.self, '_entry_points_loader'))),
                                             'attr:loader': (lambda a: z3.BoolVal(False)), 'attr:options': (lambda a: z3.BoolVal(False)),
                                             'attr:path_manager': (lambda a: z3.BoolVal(False))},
                         note='result loaders (C15)'))

    PI = z3.ArraySort(S.PyObj(), z3.IntSort())
    PP = z3.ArraySort(S.PyObj(), S.PyObj())

    def run_ghost(ex, st):
        st.ghost['started'] = z3.K(S.PyObj(), z3.IntVal(0))     # started[e]: number of init_frame_stack(e, ..) calls
        st.ghost['sfg_of'] = z3.Const('g_sfg0', PP)             # the graph object created for entry e
        st.ghost['saved'] = z3.K(S.PyObj(), z3.IntVal(0))       # saved[e]: number of save_global_sfg_by_entry_point(e, ..) calls
        st.ghost['saved_sfg'] = z3.Const('g_saved0', PP)

    def after_init(ex, st, bound, res, old):
        g = st.ghost
        e = bound['entry_method_id'].t
        g['started'] = z3.Store(g['started'], e, z3.Select(g['started'], e) + 1)
        g['sfg_of'] = z3.Store(g['sfg_of'], e, bound['sfg'].t)

    def after_save(ex, st, bound, res, old):
        g = st.ghost
        e = bound['method_id'].t
        g['saved'] = z3.Store(g['saved'], e, z3.Select(g['saved'], e) + 1)
        g['saved_sfg'] = z3.Store(g['saved_sfg'], e, bound['graph'].t)

    def ep_set(c, h):
        return h.dom(c.pre.attr(c.pre.attr(c.pre.attr(c.p.self, 'loader'), '_entry_points_loader'), 'entry_points'))

    def run_counts(c, upto):
        """exactly the first `upto` elements of the (arbitrary, duplicate-free) enumeration of the entry-point set were started and saved"""
        enum = c.seq
        done = z3.And(S.member(enum, xq), S.idx_of(enum, xq) < upto)
        return S.forall([xq], z3.And(z3.Select(c.g.started, xq) == z3.If(done, 1, 0), z3.Select(c.g.saved, xq) == z3.If(done, 1, 0),
                                     z3.Implies(done, z3.Select(c.g.saved_sfg, xq) == z3.Select(c.g.sfg_of, xq))),
                        patterns=[z3.Select(c.g.started, xq), z3.Select(c.g.saved, xq), S.member(enum, xq)])

    def run_final(c):
        if 'loop1_i' not in c.g:
            return z3.BoolVal(False)
        st_ = ep_set(c, c.pre)
        return S.forall([xq], z3.And(z3.Select(c.g.started, xq) == z3.If(z3.Select(st_, xq), 1, 0), z3.Select(c.g.saved, xq) == z3.If(z3.Select(st_, xq), 1, 0),
                                     z3.Implies(z3.Select(st_, xq), z3.Select(c.g.saved_sfg, xq) == z3.Select(c.g.sfg_of, xq))),
                        patterns=[z3.Select(c.g.started, xq), z3.Select(c.g.saved, xq), z3.Select(st_, xq)])

    def run_keep(c):
        s_ = c.p.self
        ld = c.pre.attr(s_, 'loader')
        epl = c.pre.attr(ld, '_entry_points_loader')
        return z3.And(c.cur.attr(s_, 'loader') == ld, c.cur.attr(ld, '_entry_points_loader') == epl,
                      c.cur.attr(epl, 'entry_points') == c.pre.attr(epl, 'entry_points'), ep_set(c, c.cur) == ep_set(c, c.pre),
                      c.cur.attr(s_, 'options') == c.pre.attr(s_, 'options'), c.cur.attr(s_, 'path_manager') == c.pre.attr(s_, 'path_manager'))

    reg.add(Contract(GS, 'P3GlobalSemanticAnalysis.run', dict(self=P3), returns=Any,
                     ghost_init=run_ghost, ghost_hooks={'after_call:P3GlobalSemanticAnalysis.init_frame_stack': after_init,
                                                        'after_call:Loader.save_global_sfg_by_entry_point': after_save},
                     loops={1: LoopSpec(invariants=[('started-and-saved-exactly-the-entries-enumerated-so-far', lambda c: run_counts(c, c.i)),
                                                    ('entry-point-set-untouched', run_keep)])},
                     ensures=[('starts-are-exactly-the-saved-entry-points,-each-once,-and-its-own-graph-is-saved', run_final)],
                     modifies=lambda c: {'*': True}))
    return reg


ASSUMPTIONS = [
    'rule fields have the types declared by the EntryPointRule dataclass (yaml.safe_load output is not type-checked by the code)',
    'rules using the unimplemented args/return_type criteria are outside the precondition of check_rules (the code compares them with "")',
    'unit_info / scope rows are modelled as objects with the attributes read (lang, module_id, unit_path; name, attrs, stmt_id); '
    'scope name/attrs are strings or missing',
    'DataModel.query_index_column_value returns the rows whose column equals the value (that is C16); here it is an uninterpreted sequence',
    'os.walk returns a finite sequence of (root, dirs, files) with freshly allocated lists of strings; yaml.safe_load and the rule construction '
    'in _parse_config_file are not under contract (assumed frame: appends to entry_point_rules)',
    'P3 run: the analysis/saving callees (analyze_frame_stack, save_*), SymbolStateSpace(), StateFlowGraph() and ComputeFrame() are opaque with the '
    'assumed frame that they do not touch the entry-point set or the pointers leading to it',
    'TaintAnalysis.run (which graphs the taint phase reads) is not under contract in this tree: the last sentence of the statement '
    '("code reachable from no entry contributes no flows") is covered only up to the set of analysis starts',
    'opaque definitional unfolding: the file-name predicate of _load_settings is revealed for the current file name only',
]
EXPLANATION = ('Deductive proof of the entry-point selection chain on the real source: file-name flag, availability flags, unit filter, '
               'method matching (exact selection in both directions), saving to the loader, the settings walk, and the P3 driver loop '
               '(starts == saved entry points, each once, own graph saved).')
QUICK_CANARIES = {
    'check_file_processing_flag_and_extract_lang': ['negate-condition', 'flip-comparison'],
    'EntryPointGenerator.filter_rule_by_unit_info': ['flip-comparison', 'swap-and-or', 'delete-stmt[candidate_rules.append'],
    'EntryPointGenerator.check_rules': ['flip-comparison', 'delete-stmt[matched = True]', 'delete-stmt[self.entry_point_results.add'],
    'EntryPointGenerator.collect_entry_points_from_unit_scope': ['negate-condition', 'delete-stmt[self.loader.save_entry_points'],
    'EntryPointsLoader.save': ['delete-stmt[self.entry_points |='],
    'P3GlobalSemanticAnalysis.run': ['delete-stmt[self.loader.save_global_sfg_by_entry_point', 'delete-stmt[frame_stack = self.init_frame_stack'],
    'EntryPointGenerator._load_settings': ['negate-condition', 'delete-stmt[continue]'],
    'EntryPointRule.check_availablility': ['delete-stmt[self.is_lang_available'],
    'EntryPointRule.__post_init__': ['delete-stmt[self.check_availablility()]'],
}
MIN_CANARY_KILL_RATIO = 0.9
EQUIVALENT_MUTANTS = ('delete-stmt[return True] @L18', 'delete-stmt[return True] @L29')   # `not None` is True as well
