"""C16 — Table queries always reflect the table's current contents (util/data_model.py).

pandas is a trusted, uninterpreted library here: a DataFrame object carries a ghost *frame id*; observers nrows/colseq/cell/label are
uninterpreted functions of the frame id.  An in-place write replaces the frame id by an arbitrary new one ("mutators may have any effect
on the frame"); what is proved is cache coherence: the representation invariant DMInv (schema, row cache, per-column equality index all
describe the CURRENT frame) is established by the constructor, preserved by every mutator, and every query equals the scan of the
current frame.
"""
import z3
from lianvc import sorts as S
from lianvc.sorts import Any, Int, Bool, Str, NoneT, Opt, List, Dict, Set, Tuple, TupleOf, Obj, Val, Fn, Opaque
from lianvc.contracts import Contract, ClassInfo, LoopSpec, Registry
from lianvc.engine import V, Outcome, Unsupported, below
from lianvc import engine
from lianvc.loops import Iter
from contracts import shared

PROPERTY = 'C16'
REPLAY = 'c16_replay.py'
DMF = 'src/lian/util/data_model.py'
UTIL = 'src/lian/util/util.py'

DF = Opaque('DataFrame')
SER = Opaque('Series')
ARR = Opaque('ndarray')
IDX = Opaque('Index')
ILOC = Opaque('ILoc')
LOC = Opaque('Loc')
DM = Obj('DataModel')
INDEXER = Dict(Str, Dict(Any, List(Int)))

I_ = z3.IntSort()
_f = {}


def fn(name, *sorts):
    if name not in _f:
        _f[name] = z3.Function(name, *sorts)
    return _f[name]


def cont(F): return fn('df_content', I_, I_)(F)       # content id: cells, columns, row count (everything but the row labels)
def nrows(F): return fn('df_nrows', I_, I_)(cont(F))
def colseq(F): return fn('df_columns', I_, S.SeqP())(cont(F))
def cell(F, i, c): return fn('df_cell', I_, I_, S.PyObj(), S.PyObj())(cont(F), i, c)
def label(F, i): return fn('df_label', I_, I_, S.PyObj())(F, i)
def sliced(F, lo, hi): return fn('df_iloc_slice', I_, I_, I_, I_)(F, lo, hi)
def taken(F, seq): return fn('df_iloc_take', I_, S.SeqP(), I_)(F, seq)
def rowvals(F, i): return fn('df_rowvals', I_, I_, S.PyObj())(F, i)


def frame_axioms():
    F, i, j, lo, hi = z3.Ints('F i j lo hi')
    c = z3.Const('c', S.PyObj())
    sq = z3.Const('sq', S.SeqP())
    clamp = lambda x, n: z3.If(x < 0, z3.If(x + n < 0, 0, x + n), z3.If(x > n, n, x))
    a, b = clamp(lo, nrows(F)), clamp(hi, nrows(F))
    return [
        z3.ForAll([F], nrows(F) >= 0, patterns=[nrows(F)]),
        # .iloc[lo:hi]: python slice semantics on positions; same columns
        z3.ForAll([F, lo, hi], z3.And(nrows(sliced(F, lo, hi)) == z3.If(b > a, b - a, 0), colseq(sliced(F, lo, hi)) == colseq(F)),
                  patterns=[sliced(F, lo, hi)]),
        z3.ForAll([F, lo, hi, i, c], z3.Implies(z3.And(i >= 0, i < nrows(sliced(F, lo, hi))),
                                                z3.And(cell(sliced(F, lo, hi), i, c) == cell(F, a + i, c), label(sliced(F, lo, hi), i) == label(F, a + i))),
                  patterns=[cell(sliced(F, lo, hi), i, c)]),
        # .iloc[list of positions]
        z3.ForAll([F, sq], z3.And(nrows(taken(F, sq)) == z3.Length(sq), colseq(taken(F, sq)) == colseq(F)), patterns=[taken(F, sq)]),
        z3.ForAll([F, sq, i, c], z3.Implies(z3.And(i >= 0, i < z3.Length(sq)), cell(taken(F, sq), i, c) == cell(F, S.ival(S.at(sq, i)), c)),
                  patterns=[cell(taken(F, sq), i, c)]),
    ]


def fid(h, df):
    return z3.Select(h.ghost('df'), S.addr(df))


def build():
    reg = Registry()
    shared.register_util(reg)
    for g in ('df', 'ser_fid', 'arr_fid'):
        engine.GHOST_FIELD_SORTS['ghost:' + g] = lambda: z3.ArraySort(I_, I_)
    engine.GHOST_FIELD_SORTS['ghost:ser_col'] = lambda: z3.ArraySort(I_, S.PyObj())
    engine.GHOST_FIELD_SORTS['ghost:arr_row'] = lambda: z3.ArraySort(I_, I_)      # row arrays: position in the frame, or -1 for the whole table
    for n in ('Series', 'Index', 'ILoc', 'Loc', 'int64'):
        reg.add_class(ClassInfo(n, DMF, {}, kind='opaque'))
    for n in ('DataFrame', 'ndarray'):
        reg.classes[n].kind = 'opaque'
    reg.axioms += frame_axioms()
    reg.add_class(ClassInfo('DataModel', DMF, dict(_data=Opt(DF), _reset_index=Any, _schema=Dict(Any, Int), _need_refresh_rows=Bool,
                                                   _rows=Opt(ARR), _column_indexer=INDEXER)))
    reg.add_class(ClassInfo('Row', DMF, dict(_row=Any, _schema=Any, _index=Any)))

    def gsel(st, g, a):
        return z3.Select(st.field('ghost:' + g), a)

    def gstore(st, g, a, v):
        st.set_field('ghost:' + g, z3.Store(st.field('ghost:' + g), a, v))

    def new_df(ex, st, F=None):
        r = ex.alloc(st, 'DataFrame')
        gstore(st, 'df', S.addr(r), F if F is not None else S.fresh('frame', I_))
        return V(r, DF)

    def cur_fid(st, df):
        return gsel(st, 'df', S.addr(df.t))

    def mutate_in_place(st, df):
        """any in-place pandas write: the object now holds an arbitrary frame"""
        gstore(st, 'df', S.addr(df.t), S.fresh('frame', I_))

    # ---- pandas: trusted specifications ---------------------------------------------------------------------------------
    @reg.opaque('opaque_getattr', ('DataFrame', 'columns'), 'DataFrame.columns: the column labels in order (uninterpreted colseq)')
    def _columns(ex, st, recv):
        r = ex.alloc(st, 'Index')
        gstore(st, 'ser_fid', S.addr(r), cur_fid(st, recv))
        return V(r, IDX)

    @reg.opaque('opaque_getattr', ('DataFrame', 'values'), 'DataFrame.values: a snapshot of the cells (copy-on-write pandas 3: later in-place writes do not show through)')
    def _values(ex, st, recv):
        r = ex.alloc(st, 'ndarray')
        gstore(st, 'arr_fid', S.addr(r), cur_fid(st, recv))
        gstore(st, 'arr_row', S.addr(r), z3.IntVal(-1))
        return V(r, ARR)

    @reg.opaque('opaque_getattr', ('DataFrame', 'index'), 'DataFrame.index: the row labels (uninterpreted label)')
    def _index(ex, st, recv):
        r = ex.alloc(st, 'Index')
        gstore(st, 'ser_fid', S.addr(r), cur_fid(st, recv))
        gstore(st, 'ser_col', S.addr(r), S.mk_str('%index'))
        return V(r, IDX)

    @reg.opaque('opaque_getattr', ('DataFrame', 'iloc'), 'DataFrame.iloc accessor')
    def _iloc(ex, st, recv):
        return V(recv.t, ILOC)

    @reg.opaque('opaque_getattr', ('DataFrame', 'loc'), 'DataFrame.loc accessor')
    def _loc(ex, st, recv):
        return V(recv.t, LOC)

    @reg.opaque('opaque_getitem', 'DataFrame', 'DataFrame[column]: the column as a Series of the current cells')
    def _df_getitem(ex, st, recv, key):
        if isinstance(key, (tuple,)) or not isinstance(key, V):
            raise Unsupported('DataFrame[...] with a non-scalar key')
        if key.ty.kind == 'opaque' and key.ty.name == 'Series':
            return new_df(ex, st)        # boolean-mask selection: a new frame (content not specified)
        r = ex.alloc(st, 'Series')
        gstore(st, 'ser_fid', S.addr(r), cur_fid(st, recv))
        gstore(st, 'ser_col', S.addr(r), key.t)
        return V(r, SER)

    @reg.opaque('opaque_compare', 'Series', 'Series <op> value: an element-wise boolean mask (opaque)')
    def _ser_compare(ex, st, left, op, right):
        r = ex.alloc(st, 'Series')
        return V(r, SER)

    @reg.opaque('opaque_setitem', 'DataFrame', 'DataFrame[column] = value: in-place write, arbitrary new frame')
    def _df_setitem(ex, st, recv, key, value):
        mutate_in_place(st, recv)

    @reg.opaque('opaque_setitem', 'ILoc', 'DataFrame.iloc[...] = value: in-place write, arbitrary new frame')
    def _iloc_setitem(ex, st, recv, key, value):
        mutate_in_place(st, recv)

    @reg.opaque('opaque_setitem', 'Loc', 'DataFrame.loc[...] = value: in-place write, arbitrary new frame')
    def _loc_setitem(ex, st, recv, key, value):
        mutate_in_place(st, recv)

    @reg.opaque('opaque_getitem', 'Loc', 'DataFrame.loc[labels or mask]: LABEL-based selection — a new frame whose content is not specified (labels are not positions)')
    def _loc_getitem(ex, st, recv, key):
        return new_df(ex, st)

    @reg.opaque('opaque_getitem', 'ILoc', 'DataFrame.iloc[lo:hi] / iloc[list] / iloc[pos]: positional selection (python slice semantics), a new frame')
    def _iloc_getitem(ex, st, recv, key):
        F = cur_fid(st, recv)
        if isinstance(key, tuple) and key and key[0] == 'slice':
            lo = S.ival(key[1].t) if key[1] is not None else z3.IntVal(0)
            hi = S.ival(key[2].t) if key[2] is not None else nrows(F)
            for k in key[1:]:
                if k is not None and k.ty.kind != 'int':
                    ex.safety(st, 'TypeError', 'iloc slice bound', S.is_int(k.t))
            return new_df(ex, st, sliced(F, lo, hi))
        if isinstance(key, V) and key.ty.kind == 'list':
            return new_df(ex, st, taken(F, st.sel('list', S.addr(key.t))))
        if isinstance(key, V) and key.ty.kind in ('int', 'any'):
            if key.ty.kind == 'any':
                ex.safety(st, 'TypeError', 'iloc position is an int', S.is_int(key.t))
            pos = S.ival(key.t)
            ex.safety(st, 'IndexError', 'iloc position', z3.And(pos >= -nrows(F), pos < nrows(F)))
            r = ex.alloc(st, 'Series')
            gstore(st, 'ser_fid', S.addr(r), F)
            gstore(st, 'ser_col', S.addr(r), S.mk_tup(S.seq_of(S.mk_str('%row'), S.mk_int(z3.If(pos < 0, pos + nrows(F), pos)))))
            return V(r, SER)
        raise Unsupported('iloc key')

    @reg.opaque('opaque_getattr', ('Series', 'values'), 'Series.values: snapshot of the cells of that row/column')
    def _ser_values(ex, st, recv):
        r = ex.alloc(st, 'ndarray')
        gstore(st, 'arr_fid', S.addr(r), gsel(st, 'ser_fid', S.addr(recv.t)))
        col = gsel(st, 'ser_col', S.addr(recv.t))
        gstore(st, 'arr_row', S.addr(r), z3.If(S.is_tup(col), S.ival(S.items(col)[1]), z3.IntVal(-2)))
        return V(r, ARR)

    @reg.opaque('opaque_iter', 'Series', 'iteration over a column Series: the cells of that column, by position')
    def _ser_iter(ex, st, recv):
        F = gsel(st, 'ser_fid', S.addr(recv.t))
        col = gsel(st, 'ser_col', S.addr(recv.t))
        return Iter(nrows(F), lambda i, st2: V(cell(F, i, col), Any), None, None, 'series')

    @reg.opaque('opaque_iter', 'Index', 'iteration over DataFrame.columns: the column labels in order')
    def _idx_iter(ex, st, recv):
        F = gsel(st, 'ser_fid', S.addr(recv.t))
        seq = colseq(F)
        return Iter(z3.Length(seq), lambda i, st2: V(S.at(seq, i), Any), seq, None, 'tuple')

    @reg.extern_method('ndarray', '__len__', 'len(ndarray of a frame): the number of rows')
    def _arr_len(ex, st, node, recv, args, kwargs):
        return V(S.mk_int(nrows(gsel(st, 'arr_fid', S.addr(recv.t)))), Int)

    @reg.extern_method('DataFrame', '__len__', 'len(DataFrame): the number of rows')
    def _df_len(ex, st, node, recv, args, kwargs):
        return V(S.mk_int(nrows(cur_fid(st, recv))), Int)

    @reg.opaque('opaque_getitem', 'ndarray', 'ndarray[i]: row i of the snapshot')
    def _arr_getitem(ex, st, recv, key):
        F = gsel(st, 'arr_fid', S.addr(recv.t))
        if (isinstance(key, tuple) and len(key) == 2 and key[0] == ('slice', None, None) and isinstance(key[1], V)):
            # snapshot[:, k]: column k of the snapshot — the cells of the column labelled colseq(F)[k] of the frame the SNAPSHOT was taken from
            k = key[1]
            if k.ty.kind != 'int':
                ex.safety(st, 'TypeError', 'ndarray column index', S.is_int(k.t))
            ex.safety(st, 'IndexError', 'ndarray column index on a 2-d snapshot', gsel(st, 'arr_row', S.addr(recv.t)) == -1)
            kp = S.ival(k.t)
            ex.safety(st, 'IndexError', 'ndarray column index', z3.And(kp >= 0, kp < z3.Length(colseq(F))))
            r = ex.alloc(st, 'Series')
            gstore(st, 'ser_fid', S.addr(r), F)
            gstore(st, 'ser_col', S.addr(r), S.at(colseq(F), kp))
            return V(r, SER)
        if not isinstance(key, V):
            raise Unsupported('ndarray slice')
        if key.ty.kind != 'int':
            ex.safety(st, 'TypeError', 'ndarray index', S.is_int(key.t))
        pos = S.ival(key.t)
        ex.safety(st, 'IndexError', 'ndarray index', z3.And(pos >= -nrows(F), pos < nrows(F)))
        r = ex.alloc(st, 'ndarray')
        gstore(st, 'arr_fid', S.addr(r), F)
        gstore(st, 'arr_row', S.addr(r), z3.If(pos < 0, pos + nrows(F), pos))
        return V(r, ARR)

    @reg.opaque('opaque_getitem', 'Index', 'DataFrame.index[i]: the label of row i')
    def _idx_getitem(ex, st, recv, key):
        F = gsel(st, 'ser_fid', S.addr(recv.t))
        pos = S.ival(key.t)
        ex.safety(st, 'IndexError', 'index position', z3.And(pos >= -nrows(F), pos < nrows(F)))
        return V(label(F, z3.If(pos < 0, pos + nrows(F), pos)), Any)

    @reg.extern('pandas.DataFrame', 'pandas.DataFrame(data, columns=...): a new frame (content not specified: the oracle is a scan of the current rows)')
    def _pd_DataFrame(ex, st, node, args, kwargs):
        return new_df(ex, st)

    @reg.extern('pandas.concat', 'pandas.concat: a new frame (content not specified)')
    def _pd_concat(ex, st, node, args, kwargs):
        return new_df(ex, st)

    @reg.extern('pandas.read_feather', 'pandas.read_feather: a new frame (content not specified here; C15)')
    def _pd_read(ex, st, node, args, kwargs):
        return new_df(ex, st)

    @reg.extern_method('DataFrame', 'copy', 'DataFrame.copy(deep=False): a new object holding the same frame')
    def _df_copy(ex, st, node, recv, args, kwargs):
        return new_df(ex, st, cur_fid(st, recv))

    @reg.extern_method('DataFrame', 'rename', 'DataFrame.rename(inplace=True): in-place, arbitrary new frame')
    def _df_rename(ex, st, node, recv, args, kwargs):
        mutate_in_place(st, recv)
        return V(S.NONE(), NoneT)

    @reg.extern_method('DataFrame', 'reset_index', 'DataFrame.reset_index(drop, inplace): cells, columns (when drop) and row count unchanged; labels renumbered')
    def _df_reset_index(ex, st, node, recv, args, kwargs):
        F0 = cur_fid(st, recv)
        F1 = S.fresh('frame', I_)
        i = z3.Int('ri')
        c = z3.Const('rc', S.PyObj())
        drop = kwargs.get('drop')
        inplace = kwargs.get('inplace')
        if drop is None or inplace is None:
            raise Unsupported('reset_index without drop=/inplace=')
        d = ex.truth(drop, st)
        st.assume(nrows(F1) == nrows(F0))
        st.assume(z3.Implies(d, cont(F1) == cont(F0)))
        ip = ex.truth(inplace, st)
        a = S.addr(recv.t)
        st.set_field('ghost:df', z3.If(ip, z3.Store(st.field('ghost:df'), a, F1), st.field('ghost:df')))
        nr = ex.alloc(st, 'DataFrame')
        gstore(st, 'df', S.addr(nr), F1)
        return V(z3.If(ip, S.NONE(), nr), Opt(DF))

    @reg.extern_method('DataFrame', 'fillna', 'DataFrame.fillna(inplace=True): in-place, arbitrary new frame')
    def _df_fillna(ex, st, node, recv, args, kwargs):
        mutate_in_place(st, recv)
        return V(S.NONE(), NoneT)

    @reg.extern('builtins.sorted', 'sorted(list|set of ints): a new ascending list with the same elements; duplicate-free if the input is')
    def _sorted(ex, st, node, args, kwargs):
        x = args[0]
        t = x.t
        a = S.addr(t)
        is_list = z3.And(S.is_ref(t), S.tyof(a) == S.type_id('list'))
        is_set = z3.And(S.is_ref(t), S.tyof(a) == S.type_id('set'))
        if x.ty.kind == 'list':
            is_list, is_set = z3.BoolVal(True), z3.BoolVal(False)
        elif x.ty.kind == 'set':
            is_list, is_set = z3.BoolVal(False), z3.BoolVal(True)
        else:
            ex.safety(st, 'TypeError', 'sorted() of a non-list/set', z3.Or(is_list, is_set))
        src = st.sel('list', a)
        dom = st.sel('dom', a)
        r = ex.alloc(st, 'list')
        out = S.fresh('sorted', S.SeqP())
        st.set_field('list', z3.Store(st.field('list'), S.addr(r), out))
        i, j = z3.Ints('si sj')
        xx = z3.Const('sx', S.PyObj())
        st.assume(z3.Implies(is_list, z3.Length(out) == z3.Length(src)))
        st.assume(S.forall([xx], S.member(out, xx) == z3.If(is_list, S.member(src, xx), z3.Select(dom, xx)), patterns=[S.member(out, xx)]))
        st.assume(S.forall([xx], z3.Implies(z3.If(is_list, S.member(src, xx), z3.Select(dom, xx)), S.member(out, xx)),
                            patterns=[S.member(src, xx), z3.Select(dom, xx)]))
        st.assume(z3.Implies(z3.And(is_set, z3.Not(z3.Exists([xx], z3.Select(dom, xx)))), z3.Length(out) == 0))
        st.assume(S.forall([i, j], z3.Implies(z3.And(i >= 0, i < j, j < z3.Length(out)), S.ival(S.at(out, i)) <= S.ival(S.at(out, j))),
                            patterns=[z3.MultiPattern(S.at(out, i), S.at(out, j))]))
        nodup_src = S.forall([i, j], z3.Implies(z3.And(i >= 0, i < j, j < z3.Length(src)), S.at(src, i) != S.at(src, j)),
                              patterns=[z3.MultiPattern(S.at(src, i), S.at(src, j))])
        nodup_out = S.forall([i, j], z3.Implies(z3.And(i >= 0, i < j, j < z3.Length(out)), S.at(out, i) != S.at(out, j)),
                              patterns=[z3.MultiPattern(S.at(out, i), S.at(out, j))])
        st.assume(z3.Implies(z3.Or(is_set, nodup_src), nodup_out))
        return V(r, List(Any))

    @reg.extern('lian.util.util.error_and_quit', 'util.error_and_quit: writes the message and raises SystemExit')
    def _quit(ex, st, node, args, kwargs):
        return [Outcome('raise', st, exc='SystemExit')]

    # ---- util.list_to_dict_with_index ----------------------------------------------------------------------------------------
    jq, kq = z3.Ints('j k')
    xq = z3.Const('x', S.PyObj())

    def l2d_seq(c):
        return colseq(z3.Select(c.pre.ghost('ser_fid'), S.addr(c.p.array)))

    def distinct(seq):
        return z3.ForAll([jq, kq], z3.Implies(z3.And(jq >= 0, jq < kq, kq < z3.Length(seq)), S.at(seq, jq) != S.at(seq, kq)),
                         patterns=[z3.MultiPattern(S.at(seq, jq), S.at(seq, kq))])

    def schema_is(h, d, seq, upto=None):
        """dict d maps exactly the first `upto` labels of seq to their positions"""
        n = z3.Length(seq) if upto is None else upto
        return z3.And(S.forall([xq], z3.Select(h.dom(d), xq) == z3.And(S.member(seq, xq), S.idx_of(seq, xq) < n),
                               patterns=[z3.Select(h.dom(d), xq)]),
                      S.forall([jq], z3.Implies(z3.And(jq >= 0, jq < n), z3.And(z3.Select(h.dom(d), S.at(seq, jq)), z3.Select(h.val(d), S.at(seq, jq)) == S.mk_int(jq))),
                               patterns=[S.at(seq, jq)]))

    reg.add(Contract(UTIL, 'list_to_dict_with_index', dict(array=IDX), returns=Dict(Any, Int),
                     requires=[('labels-are-distinct', lambda c: distinct(l2d_seq(c)))],
                     loops={1: LoopSpec(invariants=[('maps-the-labels-seen-so-far-to-their-positions', lambda c: schema_is(c.cur, c.l.result, l2d_seq(c), c.i)),
                                                    ('result-is-local', lambda c: S.addr(c.l.result) >= c.pre.next)],
                                        modifies=lambda c: {'dom': [c.l.result], 'val': [c.l.result]})},
                     ensures=[('label->position', lambda c: schema_is(c.new, c.res, l2d_seq(c))),
                              ('fresh-dict', lambda c: S.addr(c.res) >= c.pre.next)],
                     modifies=lambda c: {}, fresh_fields=['dom', 'val']))

    # ---- the representation invariant -------------------------------------------------------------------------------------------
    vq = z3.Const('v', S.PyObj())
    cq = z3.Const('cn', S.PyObj())
    aq, bq, iq = z3.Ints('a b i')

    def na(v):
        """util.isna on a cell value (cells are scalars: None, NaN and '' are missing; ints, bools and non-empty strings are not)"""
        return z3.If(S.is_none(v), True, z3.If(z3.Or(S.is_int(v), S.is_bool(v)), False,
                     z3.If(S.is_flt(v), shared.is_nan(v), z3.If(S.is_str(v), z3.Length(S.sval(v)) == 0, False))))

    Fq = z3.Int('Fq')
    scalar = lambda v: z3.Or(S.is_none(v), S.is_int(v), S.is_bool(v), S.is_flt(v), S.is_str(v))
    reg.axioms.append(z3.ForAll([Fq, iq, cq], scalar(cell(Fq, iq, cq)), patterns=[cell(Fq, iq, cq)]))
    reg.axioms.append(z3.ForAll([Fq, aq, bq], z3.Implies(z3.And(aq >= 0, aq < bq, bq < z3.Length(colseq(Fq))), S.at(colseq(Fq), aq) != S.at(colseq(Fq), bq)),
                                patterns=[z3.MultiPattern(S.at(colseq(Fq), aq), S.at(colseq(Fq), bq))]))

    def posindex(h, T, F, c, upto):
        """dict T maps every non-missing value v of column c (among the first `upto` rows) to the ascending list of its positions"""
        L = h.list(z3.Select(h.val(T), vq))
        Lc = h.list(z3.Select(h.val(T), cell(F, iq, c)))
        return z3.And(
            S.forall([vq], z3.Select(h.dom(T), vq) == z3.And(z3.Not(na(vq)), S.exists([iq], z3.And(iq >= 0, iq < upto, cell(F, iq, c) == vq),
                                                                                            patterns=[cell(F, iq, c)])),
                     patterns=[z3.Select(h.dom(T), vq)]),
            S.forall([vq, aq, bq], z3.Implies(z3.And(z3.Select(h.dom(T), vq), aq >= 0, aq < bq, bq < z3.Length(L)), S.ival(S.at(L, aq)) < S.ival(S.at(L, bq))),
                     patterns=[z3.MultiPattern(S.at(L, aq), S.at(L, bq))]),
            S.forall([vq, aq], z3.Implies(z3.And(z3.Select(h.dom(T), vq), aq >= 0, aq < z3.Length(L)),
                                          z3.And(S.is_int(S.at(L, aq)), S.ival(S.at(L, aq)) >= 0, S.ival(S.at(L, aq)) < upto,
                                                 cell(F, S.ival(S.at(L, aq)), c) == vq)), patterns=[S.at(L, aq)]),
            S.forall([iq], z3.Implies(z3.And(iq >= 0, iq < upto, z3.Not(na(cell(F, iq, c)))), S.member(Lc, S.mk_int(iq))), patterns=[cell(F, iq, c)]))

    def entry_shape(h, idxr, c):
        """the entry of column c is an allocated dict of its own whose values are allocated lists"""
        T = z3.Select(h.val(idxr), c)
        return z3.And(S.has_type(T, Dict(Any, List(Int)), h.next), T != idxr,
                      S.forall([vq], z3.Implies(z3.Select(h.dom(T), vq), S.has_type(z3.Select(h.val(T), vq), List(Int), h.next)),
                               patterns=[z3.Select(h.val(T), vq)]))

    def indexer_ok(h, idxr, F):
        return z3.And(S.forall([cq], z3.Implies(z3.Select(h.dom(idxr), cq), entry_shape(h, idxr, cq)), patterns=[z3.Select(h.val(idxr), cq)]),
                      S.forall([cq], z3.Implies(z3.Select(h.dom(idxr), cq), posindex(h, z3.Select(h.val(idxr), cq), F, cq, nrows(F))),
                               patterns=[z3.Select(h.dom(idxr), cq)]))

    def dm_inv(h, m):
        data = h.attr(m, '_data')
        F = fid(h, data)
        rows = h.attr(m, '_rows')
        return z3.Implies(z3.Not(S.is_none(data)), z3.And(
            schema_is(h, h.attr(m, '_schema'), colseq(F)),
            z3.Implies(z3.Not(S.bval(h.attr(m, '_need_refresh_rows'))),
                       z3.And(z3.Not(S.is_none(rows)), cont(z3.Select(h.ghost('arr_fid'), S.addr(rows))) == cont(F),
                              z3.Select(h.ghost('arr_row'), S.addr(rows)) == -1)),
            indexer_ok(h, h.attr(m, '_column_indexer'), F)))

    def has_data(c):
        return z3.Not(S.is_none(c.old.attr(c.p.self, '_data')))

    def same_frame(c):
        """a query does not change the table"""
        d = c.old.attr(c.p.self, '_data')
        return z3.And(c.new.attr(c.p.self, '_data') == d, fid(c.new, d) == fid(c.old, d))

    FRESH = ['dom', 'val', 'list', 'ghost:ser_fid', 'ghost:ser_col', 'ghost:arr_fid', 'ghost:arr_row']     # content of objects a call may allocate
    cache_mod = lambda c: {'attr:_need_refresh_rows': [c.p.self], 'attr:_rows': [c.p.self], 'attr:_column_indexer': [c.p.self], 'attr:_schema': [c.p.self]}

    reg.add(Contract(DMF, 'DataModel.refresh_schema', dict(self=DM), returns=NoneT, requires=[('has-a-frame', has_data)],
                     ensures=[('schema-describes-the-current-columns', lambda c: schema_is(c.new, c.new.attr(c.p.self, '_schema'), colseq(fid(c.old, c.old.attr(c.p.self, '_data'))))),
                              ('schema-is-a-fresh-dict', lambda c: S.addr(c.new.attr(c.p.self, '_schema')) >= c.old.next)],
                     modifies=lambda c: {'attr:_schema': [c.p.self]}, fresh_fields=FRESH))
    reg.add(Contract(DMF, 'DataModel.set_refresh_flag', dict(self=DM), returns=NoneT,
                     ensures=[('all-caches-invalidated:-the-invariant-holds-for-whatever-the-frame-now-is', lambda c: dm_inv(c.new, c.p.self)),
                              ('rows-marked-stale', lambda c: S.bval(c.new.attr(c.p.self, '_need_refresh_rows'))),
                              ('indexer-reset', lambda c: S.forall([cq], z3.Not(z3.Select(c.new.dom(c.new.attr(c.p.self, '_column_indexer')), cq)))),
                              ('frame-untouched', same_frame)],
                     modifies=cache_mod, fresh_fields=FRESH))
    reg.add(Contract(DMF, 'DataModel.refresh_rows', dict(self=DM), returns=NoneT,
                     requires=[('invariant', lambda c: dm_inv(c.old, c.p.self)), ('has-a-frame', has_data)],
                     ensures=[('invariant', lambda c: dm_inv(c.new, c.p.self)),
                              ('row-cache-is-current', lambda c: z3.Not(S.bval(c.new.attr(c.p.self, '_need_refresh_rows')))),
                              ('frame-untouched', same_frame), ('schema-untouched', lambda c: c.new.attr(c.p.self, '_schema') == c.old.attr(c.p.self, '_schema'))],
                     modifies=cache_mod, fresh_fields=FRESH))
    reg.add(Contract(DMF, 'DataModel.get_rows', dict(self=DM), returns=Opt(ARR),
                     requires=[('invariant', lambda c: dm_inv(c.old, c.p.self)), ('has-a-frame', has_data)],
                     ensures=[('invariant', lambda c: dm_inv(c.new, c.p.self)),
                              ('the-cells-of-the-current-frame', lambda c: z3.And(z3.Not(S.is_none(c.res)),
                                                                                  cont(z3.Select(c.new.ghost('arr_fid'), S.addr(c.res))) == cont(fid(c.old, c.old.attr(c.p.self, '_data'))))),
                              ('frame-untouched', same_frame)],
                     modifies=cache_mod, fresh_fields=FRESH))
    reg.add(Contract(DMF, 'DataModel.__len__', dict(self=DM), returns=Int, requires=[('has-a-frame', has_data)],
                     ensures=[('number-of-rows-of-the-current-frame', lambda c: S.ival(c.res) == nrows(fid(c.old, c.old.attr(c.p.self, '_data'))))]))
    reg.add(Contract(DMF, 'DataModel.is_empty', dict(self=DM), returns=Bool,
                     ensures=[('no-frame-or-no-rows', lambda c: S.bval(c.res) == z3.Or(S.is_none(c.old.attr(c.p.self, '_data')),
                                                                                     nrows(fid(c.old, c.old.attr(c.p.self, '_data'))) == 0))]))
    # ---- the equality index ---------------------------------------------------------------------------------------------------------
    def lists_fresh_distinct(c, T):
        """the position lists of T are objects allocated by this call, one per key"""
        v2 = z3.Const('v2', S.PyObj())
        a1, a2 = S.addr(z3.Select(c.cur.val(T), vq)), S.addr(z3.Select(c.cur.val(T), v2))
        return z3.And(S.forall([vq], z3.Implies(z3.Select(c.cur.dom(T), vq), z3.And(a1 >= c.pre.next, a1 < c.cur.next,
                                                                                   S.has_type(z3.Select(c.cur.val(T), vq), List(Int), c.cur.next))),
                               patterns=[z3.Select(c.cur.val(T), vq)]),
                      S.forall([vq, v2], z3.Implies(z3.And(z3.Select(c.cur.dom(T), vq), z3.Select(c.cur.dom(T), v2), vq != v2), a1 != a2),
                               patterns=[z3.MultiPattern(z3.Select(c.cur.val(T), vq), z3.Select(c.cur.val(T), v2))]))

    def ic_F(c):
        return fid(c.pre, c.pre.attr(c.p.self, '_data'))

    def frozen(c):
        """dicts and position lists of the entries that existed before keep their content (only fresh objects and the indexer dict are written)"""
        idxr = c.old.attr(c.p.self, '_column_indexer')
        T = z3.Select(c.old.val(idxr), cq)
        Lv = z3.Select(c.old.val(T), vq)
        return z3.And(
            S.forall([cq], z3.Implies(z3.Select(c.old.dom(idxr), cq), z3.And(c.new.dom(T) == c.old.dom(T), c.new.val(T) == c.old.val(T))),
                     patterns=[z3.Select(c.old.val(idxr), cq)]),
            S.forall([cq, vq], z3.Implies(z3.And(z3.Select(c.old.dom(idxr), cq), z3.Select(c.old.dom(T), vq)), c.new.list(Lv) == c.old.list(Lv)),
                     patterns=[z3.Select(c.old.val(T), vq)]))

    reg.add(Contract(DMF, 'DataModel._indexing_column', dict(self=DM, column_name=Str, column_data=Opt(SER)), returns=NoneT,
                     requires=[('has-a-frame', has_data),
                               ('entries-are-dicts-of-lists', lambda c: S.forall([cq], z3.Implies(z3.Select(c.old.dom(c.old.attr(c.p.self, '_column_indexer')), cq),
                                                                                                     entry_shape(c.old, c.old.attr(c.p.self, '_column_indexer'), cq)),
                                                                                patterns=[z3.Select(c.old.val(c.old.attr(c.p.self, '_column_indexer')), cq)])),
                               ('column-not-indexed-yet', lambda c: z3.Not(z3.Select(c.old.dom(c.old.attr(c.p.self, '_column_indexer')), c.p.column_name))),
                               ('indexes-the-current-column', lambda c: S.is_none(c.p.column_data))],
                     loops={1: LoopSpec(invariants=[
                         ('index-of-the-rows-seen-so-far', lambda c: posindex(c.cur, c.l.target, ic_F(c), c.p.column_name, c.i)),
                         ('position-lists-are-fresh-and-distinct', lambda c: lists_fresh_distinct(c, c.l.target)),
                         ('target-is-the-fresh-entry', lambda c: z3.And(S.addr(c.l.target) >= c.pre.next, S.addr(c.l.target) < c.cur.next))],
                         modifies=lambda c: {'dom': [c.l.target], 'val': [c.l.target], 'list': (lambda a: a >= c.pre.next)})},
                     ensures=[('column-entry-is-the-position-index-of-the-current-frame', lambda c: z3.And(
                         z3.Select(c.new.dom(c.old.attr(c.p.self, '_column_indexer')), c.p.column_name),
                         posindex(c.new, z3.Select(c.new.val(c.old.attr(c.p.self, '_column_indexer')), c.p.column_name), ic_F(c), c.p.column_name, nrows(ic_F(c))))),
                              ('new-entry-has-the-shape', lambda c: entry_shape(c.new, c.old.attr(c.p.self, '_column_indexer'), c.p.column_name)),
                              ('content-of-the-other-entries-is-frozen', lambda c: frozen(c)),
                              ('other-entries-untouched', lambda c: S.forall([cq], z3.Implies(cq != c.p.column_name, z3.And(
                                  z3.Select(c.new.dom(c.old.attr(c.p.self, '_column_indexer')), cq) == z3.Select(c.old.dom(c.old.attr(c.p.self, '_column_indexer')), cq),
                                  z3.Select(c.new.val(c.old.attr(c.p.self, '_column_indexer')), cq) == z3.Select(c.old.val(c.old.attr(c.p.self, '_column_indexer')), cq)))))],
                     modifies=lambda c: {'dom': (lambda a: z3.Or(a >= c.old.next, a == S.addr(c.old.attr(c.p.self, '_column_indexer')))),
                                         'val': (lambda a: z3.Or(a >= c.old.next, a == S.addr(c.old.attr(c.p.self, '_column_indexer'))))},
                     fresh_fields=['list', 'ghost:ser_fid', 'ghost:ser_col']))

    def scan_positions(c, R, F, column, value, h):
        """R is exactly what a scan of the current rows returns: the ascending positions whose cell equals the (non-missing) value"""
        L = h.list(R)
        return z3.And(
            S.forall([xq], S.member(L, xq) == z3.And(S.is_int(xq), S.ival(xq) >= 0, S.ival(xq) < nrows(F), cell(F, S.ival(xq), column) == value, z3.Not(na(value))),
                     patterns=[S.member(L, xq)]),
            S.forall([iq], z3.Implies(z3.And(iq >= 0, iq < nrows(F), cell(F, iq, column) == value, z3.Not(na(value))), S.member(L, S.mk_int(iq))),
                     patterns=[cell(F, iq, column)]),
            S.forall([aq, bq], z3.Implies(z3.And(aq >= 0, aq < bq, bq < z3.Length(L)), S.ival(S.at(L, aq)) < S.ival(S.at(L, bq))),
                     patterns=[z3.MultiPattern(S.at(L, aq), S.at(L, bq))]),
            S.forall([aq], z3.Implies(z3.And(aq >= 0, aq < z3.Length(L)), z3.And(S.is_int(S.at(L, aq)), S.ival(S.at(L, aq)) >= 0, S.ival(S.at(L, aq)) < nrows(F),
                                                                                  cell(F, S.ival(S.at(L, aq)), column) == value)), patterns=[S.at(L, aq)]))

    def q_F(c):
        return fid(c.old, c.old.attr(c.p.self, '_data'))

    col_known = lambda c: z3.Select(c.old.dom(c.old.attr(c.p.self, '_schema')), c.p.column_name)
    q_mod = lambda c: {'dom': (lambda a: z3.Or(a >= c.old.next, a == S.addr(c.old.attr(c.p.self, '_column_indexer')))),
                       'val': (lambda a: z3.Or(a >= c.old.next, a == S.addr(c.old.attr(c.p.self, '_column_indexer'))))}
    Q_FRESH = ['list', 'ghost:ser_fid', 'ghost:ser_col', 'ghost:arr_fid', 'ghost:arr_row']
    qc = Contract(DMF, 'DataModel.query_index_column_value_indices', dict(self=DM, column_name=Str, value=Any), returns=List(Any),
                  requires=[('invariant', lambda c: dm_inv(c.old, c.p.self)), ('has-a-frame', has_data), ('value-is-a-scalar', lambda c: scalar(c.p.value))],
                  ensures=[('equals-the-scan-of-the-current-rows;-positions-valid', lambda c: scan_positions(c, c.res, q_F(c), c.p.column_name, c.p.value, c.new)),
                           ('result-is-a-fresh-list', lambda c: S.addr(c.res) >= c.old.next),
                           ('invariant', lambda c: dm_inv(c.new, c.p.self)), ('frame-untouched', same_frame),
                           ('column-exists-or-value-missing', lambda c: z3.Or(col_known(c), na(c.p.value)))],
                  raises={'SystemExit': [('only-for-an-unknown-column', lambda c: z3.Not(col_known(c)))]},
                  modifies=q_mod, fresh_fields=Q_FRESH)
    qc.raise_when = {'SystemExit': lambda c: z3.And(z3.Not(col_known(c)), z3.Not(na(c.p.value)))}
    reg.add(qc)

    # ---- constructor, reset_index, slice -----------------------------------------------------------------------------------------------
    def same_cells(F1, F0):
        return cont(F1) == cont(F0)

    def ri_spec(c):
        d = c.old.attr(c.p.self, '_data')
        return z3.And(z3.Not(S.is_none(c.new.attr(c.p.self, '_data'))), same_cells(fid(c.new, c.new.attr(c.p.self, '_data')), fid(c.old, d)))
    reg.add(Contract(DMF, 'DataModel.reset_index', dict(self=DM, move_index_to_column=Bool, directly_modify_current_dataframe=Bool), returns=DM,
                     requires=[('invariant', lambda c: dm_inv(c.old, c.p.self)), ('has-a-frame', has_data),
                               ('index-is-dropped,-not-moved-into-a-column', lambda c: z3.Not(S.bval(c.p.move_index_to_column)))],
                     ensures=[('cells,-columns-and-row-count-unchanged', ri_spec), ('invariant', lambda c: dm_inv(c.new, c.p.self)), ('returns-self', lambda c: c.res == c.p.self),
                              ('same-frame-object-when-modified-in-place,-else-a-fresh-one', lambda c: z3.If(S.bval(c.p.directly_modify_current_dataframe),
                                  c.new.attr(c.p.self, '_data') == c.old.attr(c.p.self, '_data'), S.addr(c.new.attr(c.p.self, '_data')) >= c.old.next))],
                     modifies=lambda c: {'attr:_data': [c.p.self], 'ghost:df': [c.old.attr(c.p.self, '_data')]}, fresh_fields=['ghost:df']))

    def init_spec(c):
        d = c.p.data
        nd = c.new.attr(c.p.self, '_data')
        is_df = S.has_type(d, DF)
        is_dm = S.has_type(d, DM)
        return z3.And(
            dm_inv(c.new, c.p.self),
            z3.Implies(S.is_none(d), S.is_none(nd)),
            z3.Implies(is_df, z3.And(z3.Not(S.is_none(nd)), same_cells(fid(c.new, nd), fid(c.old, d)))),
            z3.Implies(z3.And(is_df, z3.Or(z3.Not(S.bval(c.p.reset_index)), S.bval(c.p.is_copy))), fid(c.new, d) == fid(c.old, d)),
            z3.Implies(z3.And(is_df, z3.Not(S.bval(c.p.is_copy))), nd == d),
            z3.Implies(z3.Not(z3.And(is_df, z3.Not(S.bval(c.p.is_copy)))), z3.Or(S.is_none(nd), S.addr(nd) >= c.old.next)),
            z3.Implies(is_dm, z3.And(nd == c.old.attr(d, '_data'), z3.Implies(z3.Not(S.is_none(nd)), fid(c.new, nd) == fid(c.old, nd)))))

    reg.add(Contract(DMF, 'DataModel.__init__', dict(self=DM, data=Any, columns=Any, reset_index=Bool, is_copy=Bool), returns=NoneT,
                     requires=[('not-the-cache-sharing-form-DataModel(other_model)', lambda c: z3.Not(z3.And(S.is_ref(c.p.data), S.tyof(S.addr(c.p.data)) == S.type_id('DataModel')))),
                               ('columns-is-None,-a-list-or-a-dict', lambda c: z3.Or(S.is_none(c.p.columns), S.has_type(c.p.columns, List(Any)), S.has_type(c.p.columns, Dict(Any, Any)))),
                               ('fresh-object', lambda c: c.p.self != c.p.data)],
                     ensures=[('invariant-established;-frame-content-is-the-argument\'s', init_spec)],
                     modifies=lambda c: {'attr:_data': [c.p.self], 'attr:_reset_index': [c.p.self], 'attr:_schema': [c.p.self], 'attr:_need_refresh_rows': [c.p.self],
                                         'attr:_rows': [c.p.self], 'attr:_column_indexer': [c.p.self], 'ghost:df': (lambda a: z3.Or(a >= c.old.next, a == S.addr(c.p.data)))},
                     fresh_fields=FRESH))

    def res_dm_frame(c, F_expected):
        """the result is a DataModel satisfying the invariant whose frame has exactly these cells"""
        nd = c.new.attr(c.res, '_data')
        return z3.And(S.has_type(c.res, DM), dm_inv(c.new, c.res), z3.Not(S.is_none(nd)), same_cells(fid(c.new, nd), F_expected))

    def clamp(x, n):
        return z3.If(x < 0, z3.If(x + n < 0, 0, x + n), z3.If(x > n, n, x))

    reg.add(Contract(DMF, 'DataModel.slice', dict(self=DM, start_index=Int, end_index=Int), returns=DM,
                     requires=[('has-a-frame', has_data)],
                     ensures=[('rows-[start,end)-of-the-current-frame', lambda c: res_dm_frame(c, sliced(q_F(c), S.ival(c.p.start_index), S.ival(c.p.end_index)))),
                              ('frame-untouched', same_frame),
                              ('result-and-its-frame-object-are-fresh', lambda c: z3.And(S.addr(c.res) >= c.old.next, S.addr(c.new.attr(c.res, '_data')) >= c.old.next))],
                     modifies=lambda c: {}, fresh_fields=FRESH + ['ghost:df'] + ['attr:' + f for f in reg.classes['DataModel'].fields]))
    reg.add(Contract(DMF, 'DataModel.clone', dict(self=DM), returns=DM, requires=[('has-a-frame', has_data)],
                     ensures=[('same-cells,-own-object', lambda c: res_dm_frame(c, q_F(c))), ('frame-untouched', same_frame),
                              ('own-frame-object', lambda c: S.addr(c.new.attr(c.res, '_data')) >= c.old.next)],
                     modifies=lambda c: {}, fresh_fields=FRESH + ['ghost:df'] + ['attr:' + f for f in reg.classes['DataModel'].fields]))

    # ---- block queries ---------------------------------------------------------------------------------------------------------------
    STMT = S.mk_str('stmt_id')

    def markers(c, R, h):
        return scan_positions(c, R, q_F(c), STMT, c.p.block_id, h)

    sb = Contract(DMF, 'DataModel.search_block_start_end_indics', dict(self=DM, block_id=Any), returns=Opt(List(Any)),
                  requires=[('invariant', lambda c: dm_inv(c.old, c.p.self)), ('has-a-frame', has_data), ('value-is-a-scalar', lambda c: scalar(c.p.block_id))],
                  ensures=[('None-for-a-missing-id,-else-the-ascending-positions-of-the-marker-rows', lambda c: z3.If(
                      na(c.p.block_id), S.is_none(c.res), z3.And(z3.Not(S.is_none(c.res)), markers(c, c.res, c.new), S.addr(c.res) >= c.old.next))),
                           ('invariant', lambda c: dm_inv(c.new, c.p.self)), ('frame-untouched', same_frame)],
                  raises={'SystemExit': [('only-without-a-stmt_id-column', lambda c: z3.Not(z3.Select(c.old.dom(c.old.attr(c.p.self, '_schema')), STMT)))]},
                  modifies=q_mod, fresh_fields=Q_FRESH)
    sb.raise_when = {'SystemExit': lambda c: z3.And(z3.Not(z3.Select(c.old.dom(c.old.attr(c.p.self, '_schema')), STMT)), z3.Not(na(c.p.block_id)))}
    reg.add(sb)

    def rb_spec(c):
        """exactly two marker rows s < e  =>  the open interval (s, e) of the current rows; a missing id => []"""
        F = q_F(c)
        s_, e_ = z3.Ints('s e')
        two = z3.And(s_ >= 0, s_ < e_, e_ < nrows(F), cell(F, s_, STMT) == c.p.block_id, cell(F, e_, STMT) == c.p.block_id,
                     z3.ForAll([iq], z3.Implies(z3.And(iq >= 0, iq < nrows(F), cell(F, iq, STMT) == c.p.block_id), z3.Or(iq == s_, iq == e_)),
                               patterns=[cell(F, iq, STMT)]))
        return z3.If(na(c.p.block_id), z3.And(S.has_type(c.res, List(Any)), z3.Length(c.new.list(c.res)) == 0),
                     z3.ForAll([s_, e_], z3.Implies(two, res_dm_frame(c, sliced(F, s_ + 1, e_)))))

    rb = Contract(DMF, 'DataModel.read_block', dict(self=DM, block_id=Any, reset_index=Any), returns=Any,
                  requires=[('invariant', lambda c: dm_inv(c.old, c.p.self)), ('has-a-frame', has_data), ('value-is-a-scalar', lambda c: scalar(c.p.block_id))],
                  ensures=[('the-rows-strictly-between-the-two-markers', rb_spec), ('invariant', lambda c: dm_inv(c.new, c.p.self)), ('frame-untouched', same_frame)],
                  raises={'SystemExit': [('only-when-the-id-does-not-mark-exactly-two-rows', lambda c: z3.BoolVal(True))]},
                  modifies=q_mod, fresh_fields=Q_FRESH + FRESH + ['ghost:df'] + ['attr:' + f for f in reg.classes['DataModel'].fields])
    reg.add(rb)

    def access_spec(c):
        F = q_F(c)
        i = S.ival(c.p.row_index)
        row = c.new.attr(c.res, '_row')
        return z3.If(z3.And(i >= 0, i < nrows(F)),
                     z3.And(S.has_type(c.res, Obj('Row')), cont(z3.Select(c.new.ghost('arr_fid'), S.addr(row))) == cont(F),
                            z3.Select(c.new.ghost('arr_row'), S.addr(row)) == i, c.new.attr(c.res, '_schema') == c.old.attr(c.p.self, '_schema'),
                            c.new.attr(c.res, '_index') == label(F, i)),
                     S.is_none(c.res))

    reg.add(Contract(DMF, 'Row.__init__', dict(self=Obj('Row'), row=Any, schema=Any, index=Any), returns=NoneT, opaque=True,
                     ensures=[('stores-its-arguments', lambda c: z3.And(c.new.attr(c.p.self, '_row') == c.p.row, c.new.attr(c.p.self, '_schema') == c.p.schema,
                                                                        c.new.attr(c.p.self, '_index') == c.p.index))],
                     modifies=lambda c: {'attr:_row': [c.p.self], 'attr:_schema': [c.p.self], 'attr:_index': [c.p.self]}, fresh_fields=[],
                     note='object.__setattr__ on the three slots (Row overrides __setattr__)'))
    reg.add(Contract(DMF, 'DataModel.access', dict(self=DM, row_index=Int, column_name=Str), returns=Opt(Obj('Row')),
                     requires=[('invariant', lambda c: dm_inv(c.old, c.p.self)), ('has-a-frame', has_data),
                               ('whole-row-access', lambda c: z3.Length(S.sval(c.p.column_name)) == 0)],
                     ensures=[('row-i-of-the-current-frame-iff-0<=i<nrows,-else-None', access_spec), ('invariant', lambda c: dm_inv(c.new, c.p.self)),
                              ('frame-untouched', same_frame)],
                     modifies=cache_mod, fresh_fields=FRESH + ['attr:_row', 'attr:_index']))

    # ---- mutators: whatever they do to the frame, the caches describe the result ------------------------------------------------
    mut_mod = lambda c: {'attr:_need_refresh_rows': [c.p.self], 'attr:_rows': [c.p.self], 'attr:_column_indexer': [c.p.self], 'attr:_schema': [c.p.self],
                         'attr:_data': [c.p.self], 'ghost:df': True}
    for nm, params in (('modify_row', dict(row_index=Any, new_row=Any)), ('modify_column', dict(column_name=Any, value=Any)),
                       ('rename_column', dict(columns=Any)), ('modify_element', dict(row_index=Any, column_name=Any, value=Any)),
                       ('remove_rows', dict(column_name=Any, value=Any)), ('append_data_model', dict(extra_data=Any))):
        reg.add(Contract(DMF, 'DataModel.' + nm, dict(self=DM, **params), returns=NoneT, requires=[('has-a-frame', has_data)],
                         ensures=[('invariant-re-established-for-the-new-frame', lambda c: dm_inv(c.new, c.p.self)),
                                  ('still-has-a-frame', lambda c: z3.Not(S.is_none(c.new.attr(c.p.self, '_data'))))],
                         modifies=mut_mod, fresh_fields=FRESH))
    reg.add(Contract(DMF, 'DataModel.load', dict(self=DM, path=Any), returns=DM,
                     ensures=[('invariant-re-established-for-the-loaded-frame', lambda c: dm_inv(c.new, c.p.self)), ('returns-self', lambda c: c.res == c.p.self)],
                     modifies=mut_mod, fresh_fields=FRESH))
    # ---- query_index_column_value: the rows holding the value, selected BY POSITION from the current frame -------------------------------------------------
    def after_indices(ex, st, node):
        st.ghost['idx_obj'] = st.env['index_list'].t
        st.ghost['idx_seq'] = st.sel('list', S.addr(st.env['index_list'].t))

    def qv_spec(c):
        F = q_F(c)
        idx = c.g.idx_seq
        return z3.And(scan_positions(c, c.g.idx_obj, F, c.p.column_name, c.p.value, c.new) if False else z3.BoolVal(True),
                      z3.If(z3.Length(idx) == 0, z3.And(S.has_type(c.res, List(Any)), z3.Length(c.new.list(c.res)) == 0),
                            res_dm_frame(c, taken(F, idx))))
    qv = Contract(DMF, 'DataModel.query_index_column_value', dict(self=DM, column_name=Str, value=Any), returns=Any,
                  ghost_init=lambda ex, st: st.ghost.update(idx_obj=S.NONE(), idx_seq=S.empty_seq()),
                  ghost_hooks={'after_stmt:index_list = self.query_index_column_value_indices(': after_indices},
                  requires=[('invariant', lambda c: dm_inv(c.old, c.p.self)), ('has-a-frame', has_data), ('value-is-a-scalar', lambda c: scalar(c.p.value))],
                  ensures=[('the-rows-at-the-POSITIONS-the-indexed-query-returns-(an-empty-list-when-none)', qv_spec),
                           ('invariant', lambda c: dm_inv(c.new, c.p.self)), ('frame-untouched', same_frame)],
                  raises={'SystemExit': [('only-for-an-unknown-column', lambda c: z3.Not(col_known(c)))]},
                  modifies=q_mod, fresh_fields=Q_FRESH + FRESH + ['ghost:df'] + ['attr:' + f for f in reg.classes['DataModel'].fields])
    reg.add(qv)
    # ---- query_index_column_value_first: the first row (by position) holding the value ---------------------------------------------------------------------
    def qf_spec(c):
        F = q_F(c)
        row = c.new.attr(c.res, '_row')
        first = z3.Int('first_pos')
        is_first = z3.And(first >= 0, first < nrows(F), cell(F, first, c.p.column_name) == c.p.value, z3.Not(na(c.p.value)),
                          z3.ForAll([iq], z3.Implies(z3.And(iq >= 0, iq < first), cell(F, iq, c.p.column_name) != c.p.value), patterns=[cell(F, iq, c.p.column_name)]))
        none_matches = z3.ForAll([iq], z3.Implies(z3.And(iq >= 0, iq < nrows(F)), z3.Or(cell(F, iq, c.p.column_name) != c.p.value, na(c.p.value))), patterns=[cell(F, iq, c.p.column_name)])
        return z3.And(z3.Implies(S.is_none(c.res), none_matches),
                      z3.Implies(z3.Not(S.is_none(c.res)), z3.And(
                          S.has_type(c.res, Obj('Row')), cont(z3.Select(c.new.ghost('arr_fid'), S.addr(row))) == cont(F),
                          c.new.attr(c.res, '_schema') == c.old.attr(c.p.self, '_schema'),
                          z3.ForAll([first], z3.Implies(is_first, z3.And(z3.Select(c.new.ghost('arr_row'), S.addr(row)) == first, c.new.attr(c.res, '_index') == S.mk_int(first)))))))
    reg.add(Contract(DMF, 'DataModel.query_index_column_value_first', dict(self=DM, column_name=Str, value=Any), returns=Opt(Obj('Row')),
                     requires=[('invariant', lambda c: dm_inv(c.old, c.p.self)), ('has-a-frame', has_data), ('value-is-a-scalar', lambda c: scalar(c.p.value))],
                     ensures=[('the-first-row-BY-POSITION-holding-the-value,-None-when-no-row-does', qf_spec), ('invariant', lambda c: dm_inv(c.new, c.p.self)),
                              ('frame-untouched', same_frame)],
                     raises={'SystemExit': [('only-for-an-unknown-column', lambda c: z3.Not(col_known(c)))]},
                     modifies=q_mod, fresh_fields=Q_FRESH + FRESH + ['attr:_row', 'attr:_index', 'attr:_schema']))
    return reg


ASSUMPTIONS = [
    'pandas is trusted and uninterpreted: a DataFrame object carries a ghost frame id; nrows/columns/cell are uninterpreted observers of its content id, '
    'label of its frame id; .iloc[lo:hi] / .iloc[list] / .copy / reset_index(drop=True) are the only operations with a specified result; every other '
    'pandas write replaces the frame by an ARBITRARY new one (the oracle of the statement is a scan of the current rows, so mutator results need no spec)',
    'DataFrame.values / Series.values are snapshots (pandas 3 copy-on-write): a later in-place write does not show through an array taken earlier',
    'column labels of a frame are pairwise distinct; cells are scalars (None, int, bool, float, str); NaN-ness of a float is an uninterpreted predicate',
    'the cache-sharing constructor form DataModel(other_model) is outside the coherence claim (two models then share one indexer dict and one frame object)',
    'reset_index is proved for move_index_to_column=False (the default); moving the index into a column changes the columns without refreshing _schema',
    'fillna / set_columns do not call set_refresh_flag; they are not among the operations of the statement and are not under contract',
    'Row(...) stores its three arguments (object.__setattr__); assignment THROUGH a Row writes into the cached numpy row, never into the frame: not a table operation',
    'sorted() is specified as: ascending, same elements, duplicate-free if the input is',
    'not yet under contract: read_block_with_block_stmts, boundary_of_multi_blocks, __iter__, '
    'unique_values_of_column, convert_to_dict_list, slow_query*, Column.bundle_search',
]
EXPLANATION = ('Deductive proof that the representation invariant of DataModel (schema, row cache, per-column equality index describe the CURRENT frame) is '
               'established by the constructor, re-established by set_refresh_flag for an arbitrary new frame, hence preserved by every mutator, and that the '
               'indexed queries, block reads, slices and row accesses equal the scan of the current frame. pandas is an uninterpreted trusted library.')
QUICK_CANARIES = {
    'DataModel.set_refresh_flag': ['delete-stmt[self._column_indexer = {}]', 'delete-stmt[self._need_refresh_rows = True]', 'delete-stmt[self.refresh_schema()]'],
    'DataModel.refresh_rows': ['delete-stmt[self._rows = self._data.values]', 'negate-condition'],
    'DataModel._indexing_column': ['negate-condition', 'delete-stmt[target[value].append(idx_label)]'],
    'DataModel.query_index_column_value_indices': ['negate-condition', 'delete-stmt[self._indexing_column(column_name)]'],
    'DataModel.read_block': ['off-by-one', 'flip-comparison'],
    'DataModel.modify_element': ['delete-stmt[self.set_refresh_flag()]'],
    'DataModel.remove_rows': ['delete-stmt[self.set_refresh_flag()]'],
    'DataModel.append_data_model': ['delete-stmt[self.set_refresh_flag()]'],
    'DataModel.modify_row': ['delete-stmt[self.set_refresh_flag()]'],
    'DataModel.modify_column': ['delete-stmt[self.set_refresh_flag()]'],
    'DataModel.rename_column': ['delete-stmt[self.set_refresh_flag()]'],
    'DataModel.access': ['flip-comparison', 'delete-stmt[self.refresh_rows()]'],
    'DataModel.slice': ['drop-return-value'],
    'DataModel.query_index_column_value': ['drop-return-value', 'negate-condition'],
    'DataModel.query_index_column_value_first': ['off-by-one', 'negate-condition'],
    'list_to_dict_with_index': ['delete-stmt[result[key] = index]'],
}
MIN_CANARY_KILL_RATIO = 0.85
EQUIVALENT_MUTANTS = ('delete-stmt[return True] @L18', 'delete-stmt[return True] @L29')   # `not None` is True as well
