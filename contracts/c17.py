"""C17 — Event handlers run in registration order under the documented blocking rules.

Functions under contract (real source, /repo/src/lian/events):
  event_return.py : all 11 functions
  event_manager.py: EventManager.{add_handler, register, register_list, notify}
  handler_template.py: EventData.__init__ (the non-dict branch; SimpleNamespace conversion is trusted)

Reading of the statement (DESIGN.md §4 C17):
  flags r in {None} U [0,15];  norm(None) = norm(0) = 0, else norm(r) = (r & 0b1110) | SUCCESS
  "successful" handler  <=>  its return value != UNPROCESSED (None counts: `None != 0`)
"""
import z3
from lianvc import sorts as S
from lianvc.sorts import Any, Int, Bool, Str, NoneT, Opt, List, Dict, Set, Tuple, TupleOf, Obj, Val, Fn, Union
from lianvc.contracts import Contract, ClassInfo, LoopSpec, Registry
from lianvc.engine import V, Outcome, BITW

PROPERTY = 'C17'
REPLAY = 'c17_replay.py'
ER = 'src/lian/events/event_return.py'
EM = 'src/lian/events/event_manager.py'
HT = 'src/lian/events/handler_template.py'

LANGS = List(Any)                       # the language list stored with a handler
ENTRY = Tuple(LANGS, Fn)                # (langs, handler)
HLIST = List(ENTRY)

HANDLER_LIST_ATTRS = [
    'mock_source_code_handlers', 'source_code_handlers', 'gir_list_handlers', 'flattened_gir_list_handlers',
    'gir_data_model_handlers', 'def_use_handlers', 'state_flow_handlers', 'method_summary_handlers',
    'entry_point_handlers', 'taint_analysis_handlers', 'p2state_field_read_before_handlers',
    'p2state_field_read_after_handlers', 'p2state_call_stmt_before_handlers', 'p2state_field_write_after_handlers',
    'p2state_generate_external_states_handlers', 'p2state_new_object_before_handlers',
    'p2state_new_object_after_handlers', 'p2state_builtin_function_before_handlers', 'p2state_extern_callee_handlers']


def bitk(x, b):
    """bit b (power of two) of a flag set in [0, 15]"""
    return (x / b) % 2


def band(x, k):
    """x & k for a constant k (flag sets are ints in [0, 15])"""
    return z3.Sum([bitk(x, b) * b for b in (1, 2, 4, 8) if k & b])


def bor(x, y):
    """x | y for flag sets in [0, 15]"""
    return z3.Sum([z3.If(z3.Or(bitk(x, b) == 1, bitk(y, b) == 1), b, 0) for b in (1, 2, 4, 8)])


def flag_ok(r):
    """handler return values: None or an int in [0, 15] (precondition on callbacks)"""
    return z3.Or(S.is_none(r), z3.And(S.is_int(r), S.ival(r) >= 0, S.ival(r) <= 15))


def norm(r):
    """integer: the flags a handler's return value contributes (from the statement: 'union of the flags returned')"""
    i = S.ival(r)
    return z3.If(z3.Or(S.is_none(r), i == 0), z3.IntVal(0), bor(band(i, 14), z3.IntVal(1)))


def flag_of(r, b):
    """does a handler's return value r contribute flag b (1 = SUCCESS: any non-None, non-zero value)"""
    if b == 1:
        return z3.And(S.is_int(r), S.ival(r) != 0)
    return z3.And(S.is_int(r), bitk(S.ival(r), b) == 1)


def succ(r):
    """'successful handler': return value != UNPROCESSED  (python: None != 0 is True)"""
    return z3.Not(z3.And(S.is_int(r), S.ival(r) == 0))


def build():
    reg = Registry()
    reg.add_class(ClassInfo('Options', EM, dict(debug=Any, event_handlers=Any)))
    fields = dict(options=Obj('Options'), optional_event_handler_paths=Any, event_handlers=Dict(Any, HLIST))
    for a in HANDLER_LIST_ATTRS:
        fields[a] = HLIST
    reg.add_class(ClassInfo('EventManager', EM, fields))
    reg.add_class(ClassInfo('EventData', HT, dict(lang=Any, event=Any, in_data=Any, out_data=Any)))
    reg.add_class(ClassInfo('EventHandler', HT, dict(langs=Any, event=Any, handler=Fn)))

    i = lambda t: S.ival(t)
    rng = lambda t: z3.And(S.ival(t) >= 0, S.ival(t) <= 15)

    # ---- event_return.py ---------------------------------------------------------------------------------
    reg.add(Contract(ER, 'is_event_successfully_processed', dict(event_return=Opt(Int)), returns=Bool,
                     ensures=[('is-not-unprocessed', lambda c: S.bval(c.res) == succ(c.p.event_return))]))
    reg.add(Contract(ER, 'is_event_unprocessed', dict(event_return=Opt(Int)), returns=Bool,
                     ensures=[('is-unprocessed', lambda c: S.bval(c.res) == z3.Not(succ(c.p.event_return)))]))
    for fn, bit in (('should_block_other_event_handlers', 2), ('should_block_event_requester', 4), ('should_interrupt_call', 8)):
        reg.add(Contract(ER, fn, dict(event_return=Int), returns=Int,
                         requires=[('flags-in-range', lambda c: rng(c.p.event_return))],
                         ensures=[('bit-test', lambda c, bit=bit: i(c.res) == band(i(c.p.event_return), bit)),
                                  ('nonzero-iff-flag-set', lambda c, bit=bit: (i(c.res) != 0) == (bitk(i(c.p.event_return), bit) == 1))]))
    reg.add(Contract(ER, 'sync_event_return', dict(local_event_return=Opt(Int), global_event_return=Int), returns=Int,
                     requires=[('local-is-flagset-or-None', lambda c: flag_ok(c.p.local_event_return)),
                               ('global-in-range', lambda c: rng(c.p.global_event_return))],
                     ensures=[('union', lambda c: i(c.res) == bor(i(c.p.global_event_return), norm(c.p.local_event_return))),
                              ('stays-in-range', lambda c: rng(c.res)),
                              ('bitwise', lambda c: z3.And(*[
                                  (bitk(i(c.res), b) == 1) == z3.Or(bitk(i(c.p.global_event_return), b) == 1,
                                                                     flag_of(c.p.local_event_return, b)) for b in (1, 2, 4, 8)]))]))
    reg.add(Contract(ER, 'config_event_unprocessed', {}, returns=Int,
                     ensures=[('zero', lambda c: i(c.res) == 0)]))
    for fn, bit in (('config_continue_event_processing', 1), ('config_block_other_event_handlers', 2),
                    ('config_block_event_requester', 4), ('config_interrupt_call', 8)):
        reg.add(Contract(ER, fn, dict(event_return=Int), returns=Int,
                         requires=[('flags-in-range', lambda c: rng(c.p.event_return))],
                         ensures=[('sets-exactly-this-flag', lambda c, bit=bit: i(c.res) == bor(i(c.p.event_return), z3.IntVal(bit)))]))

    # ---- EventManager.add_handler / register / register_list ---------------------------------------------
    def lst(h, x):
        return h.list(x)

    reg.add(Contract(EM, 'EventManager.add_handler',
                     dict(self=Obj('EventManager'), handler_list=HLIST, func=Fn, langs=LANGS), returns=NoneT,
                     ensures=[('appends-at-end', lambda c: c.new.list(c.p.handler_list) ==
                               z3.Concat(c.old.list(c.p.handler_list), z3.Unit(S.mk_tup(S.seq_of(c.p.langs, c.p.func)))))],
                     modifies=lambda c: {'list': [c.p.handler_list]}))

    def handlers_dict(c, h):
        return h.attr(c.p.self, 'event_handlers')

    def reg_langs_ok(c):
        l = c.p.langs
        return z3.Or(S.is_str(l), S.has_type(l, Set(Any), c.old.next), S.has_type(l, LANGS, c.old.next))

    def distinct_lists(c, h):
        """the per-event handler lists are pairwise distinct objects, distinct from any language list"""
        d = handlers_dict(c, h)
        e1, e2 = z3.Consts('e1 e2', S.PyObj())
        return z3.ForAll([e1, e2], z3.Implies(z3.And(h.has(d, e1), h.has(d, e2), e1 != e2), h.get(d, e1) != h.get(d, e2)))

    def register_effect(c):
        ev, d_old = c.p.event, handlers_dict(c, c.old)
        known = c.old.has(d_old, ev)
        target = c.old.get(d_old, ev)
        l = c.p.langs
        x = z3.Const('x', S.PyObj())
        a = z3.Int('a')
        new_entry = z3.SeqRef  # placeholder for readability
        # the entry appended: (L, handler) with L = [langs] for a str, a fresh list of the set's members for a set,
        # the very list object otherwise
        last = S.at(c.new.list(target), z3.Length(c.new.list(target)) - 1)
        L = S.items(last)[0]
        eff_known = z3.And(
            z3.Length(c.new.list(target)) == z3.Length(c.old.list(target)) + 1,
            z3.Extract(c.new.list(target), 0, z3.Length(c.old.list(target))) == c.old.list(target),
            S.is_tup(last), z3.Length(S.items(last)) == 2, S.items(last)[1] == c.p.handler,
            z3.Implies(S.is_str(l), c.new.list(L) == z3.Unit(l)),
            z3.Implies(S.has_type(l, LANGS), L == l),
            z3.Implies(S.has_type(l, Set(Any)),
                       z3.ForAll([x], S.member(c.new.list(L), x) == c.old.has(l, x))),
            # every other pre-existing list is unchanged
            z3.ForAll([a], z3.Implies(z3.And(a > 0, a < c.old.next, a != S.addr(target)),
                                      z3.Select(c.new.field('list'), a) == z3.Select(c.old.field('list'), a))))
        eff_unknown = z3.Select(c.new.field('list'), a) == z3.Select(c.old.field('list'), a)
        return z3.If(known, eff_known, z3.ForAll([a], z3.Implies(z3.And(a > 0, a < c.old.next), eff_unknown)))

    reg.add(Contract(EM, 'EventManager.register',
                     dict(self=Obj('EventManager'), event=Any, handler=Fn, langs=Any), returns=NoneT,
                     requires=[('langs-is-str-set-or-list', reg_langs_ok),
                               ('handler-lists-distinct', lambda c: distinct_lists(c, c.old))],
                     ensures=[('appends-to-exactly-that-event', register_effect),
                              ('old-entries-keep-their-position', lambda c: z3.ForAll([z3.Int('a'), z3.Int('q')], z3.Implies(
                                  z3.And(z3.Int('a') > 0, z3.Int('a') < c.old.next, z3.Int('q') >= 0,
                                         z3.Int('q') < z3.Length(z3.Select(c.old.field('list'), z3.Int('a')))),
                                  S.at(z3.Select(c.new.field('list'), z3.Int('a')), z3.Int('q')) == S.at(z3.Select(c.old.field('list'), z3.Int('a')), z3.Int('q'))),
                                  patterns=[S.at(z3.Select(c.new.field('list'), z3.Int('a')), z3.Int('q'))])),
                              ('event-table-unchanged', lambda c: z3.And(
                                  c.new.dom(handlers_dict(c, c.new)) == c.old.dom(handlers_dict(c, c.old)),
                                  c.new.val(handlers_dict(c, c.new)) == c.old.val(handlers_dict(c, c.old))))],
                     modifies=lambda c: {'list': True}))

    # ---- EventManager.register_list ----------------------------------------------------------------------------
    IA_ = z3.ArraySort(z3.IntSort(), z3.IntSort())
    j_r, k_r, a_r = z3.Ints('j k a')

    def rl_ghost_init(ex, st):
        st.ghost['pos'] = z3.Const('g_pos0', IA_)               # pos[j]: index at which element j was placed in its event's list
        st.ghost['added'] = z3.K(z3.IntSort(), z3.IntVal(0))    # added[T]: registrations appended to list T so far (fold)

    def rl_after_register(ex, st, bound, res, old):
        g = st.ghost
        j = g['loop1_i']
        d = old.attr(bound['self'].t, 'event_handlers')
        ev = bound['event'].t
        kn = old.has(d, ev)
        T = S.addr(old.get(d, ev))
        g['pos'] = z3.Store(g['pos'], j, z3.If(kn, z3.Length(old.list(T)), z3.Select(g['pos'], j)))
        g['added'] = z3.Store(g['added'], T, z3.Select(g['added'], T) + z3.If(kn, 1, 0))

    def rl_elem(c, j):
        return S.at(c.pre.list(c.p.handler_list), j)

    def rl_known(c, j):
        d = c.pre.attr(c.p.self, 'event_handlers')
        return c.pre.has(d, c.pre.attr(rl_elem(c, j), 'event'))

    def rl_T(c, j):
        d = c.pre.attr(c.p.self, 'event_handlers')
        return S.addr(c.pre.get(d, c.pre.attr(rl_elem(c, j), 'event')))

    def rl_langs_ok(c):
        n = z3.Length(c.pre.list(c.p.handler_list))
        l = c.pre.attr(rl_elem(c, j_r), 'langs')
        return z3.ForAll([j_r], z3.Implies(z3.And(j_r >= 0, j_r < n),
                                           z3.Or(S.is_str(l), S.has_type(l, Set(Any), c.pre.next), S.has_type(l, LANGS, c.pre.next))))

    def rl_lists(c, upto):
        """every pre-existing list keeps its old content as a prefix and grew by exactly added[.]"""
        old_l, new_l = z3.Select(c.pre.field('list'), a_r), z3.Select(c.cur.field('list'), a_r)
        return S.forall([a_r], z3.Implies(z3.And(a_r > 0, a_r < c.pre.next), z3.And(
            z3.Select(c.g.added, a_r) >= 0,
            z3.Length(new_l) == z3.Length(old_l) + z3.Select(c.g.added, a_r),
            z3.ForAll([k_r], z3.Implies(z3.And(k_r >= 0, k_r < z3.Length(old_l)), S.at(new_l, k_r) == S.at(old_l, k_r)),
                      patterns=[S.at(new_l, k_r)]))),
            patterns=[z3.Select(c.cur.field('list'), a_r), z3.Select(c.g.added, a_r)])

    def rl_placed(c, upto):
        T = rl_T(c, j_r)
        p = z3.Select(c.g.pos, j_r)
        entry = S.at(z3.Select(c.cur.field('list'), T), p)
        l = c.pre.attr(rl_elem(c, j_r), 'langs')
        return z3.ForAll([j_r], z3.Implies(z3.And(j_r >= 0, j_r < upto, rl_known(c, j_r)), z3.And(
            p >= z3.Length(z3.Select(c.pre.field('list'), T)), p < z3.Length(z3.Select(c.cur.field('list'), T)),
            S.is_tup(entry), z3.Length(S.items(entry)) == 2,
            S.items(entry)[1] == c.pre.attr(rl_elem(c, j_r), 'handler'),
            z3.Implies(S.has_type(l, LANGS), S.items(entry)[0] == l))))

    def rl_order(c, upto):
        return z3.ForAll([j_r, k_r], z3.Implies(z3.And(j_r >= 0, j_r < k_r, k_r < upto, rl_known(c, j_r), rl_known(c, k_r),
                                                       rl_T(c, j_r) == rl_T(c, k_r)),
                                                z3.Select(c.g.pos, j_r) < z3.Select(c.g.pos, k_r)))

    def rl_unknown_ignored(c, upto):
        """added[T] counts only lists of the event table"""
        d = c.pre.attr(c.p.self, 'event_handlers')
        e = z3.Const('e', S.PyObj())
        return z3.ForAll([a_r], z3.Implies(z3.Not(z3.Exists([e], z3.And(c.pre.has(d, e), S.addr(c.pre.get(d, e)) == a_r))),
                                           z3.Select(c.g.added, a_r) == 0))

    def rl_table_typed(c):
        """values of the event table are allocated handler lists (the declared field type Dict(Any, List))"""
        d = c.pre.attr(c.p.self, 'event_handlers')
        e = z3.Const('e', S.PyObj())
        return z3.ForAll([e], z3.Implies(c.pre.has(d, e), S.has_type(c.pre.get(d, e), HLIST, c.pre.next)))

    reg.add(Contract(EM, 'EventManager.register_list',
                     dict(self=Obj('EventManager'), handler_list=List(Obj('EventHandler'))), returns=NoneT,
                     ghost_init=rl_ghost_init, ghost_hooks={'after_call:EventManager.register': rl_after_register},
                     requires=[('langs-are-str-set-or-list', rl_langs_ok),
                               ('handler-lists-distinct', lambda c: distinct_lists(c, c.old)),
                               ('event-table-well-typed', rl_table_typed),
                               ('argument-is-not-a-handler-list', lambda c: z3.Not(z3.Exists(
                                   [z3.Const('e', S.PyObj())], z3.And(c.old.has(handlers_dict(c, c.old), z3.Const('e', S.PyObj())),
                                                                      c.old.get(handlers_dict(c, c.old), z3.Const('e', S.PyObj())) == c.p.handler_list))))],
                     loops={1: LoopSpec(invariants=[
                         ('lists-grow-by-added', lambda c: rl_lists(c, c.i)),
                         ('each-placed-at-its-position', lambda c: rl_placed(c, c.i)),
                         ('registration-order-kept', lambda c: rl_order(c, c.i)),
                         ('unknown-events-ignored', lambda c: rl_unknown_ignored(c, c.i)),
                         ('tables-untouched', lambda c: z3.And(c.cur.field('attr:event_handlers') == c.pre.field('attr:event_handlers'),
                                                                c.cur.field('dom') == c.pre.field('dom'), c.cur.field('val') == c.pre.field('val'),
                                                                c.cur.field('attr:event') == c.pre.field('attr:event'),
                                                                c.cur.field('attr:langs') == c.pre.field('attr:langs'),
                                                                c.cur.field('attr:handler') == c.pre.field('attr:handler')))])},
                     ensures=[('lists-grow-by-added', lambda c: rl_lists(c, z3.Length(c.pre.list(c.p.handler_list)))),
                              ('each-placed-at-its-position', lambda c: rl_placed(c, z3.Length(c.pre.list(c.p.handler_list)))),
                              ('registration-order-kept', lambda c: rl_order(c, z3.Length(c.pre.list(c.p.handler_list)))),
                              ('unknown-events-ignored', lambda c: rl_unknown_ignored(c, z3.Length(c.pre.list(c.p.handler_list))))],
                     modifies=lambda c: {'list': True}))

    # ---- EventData.__init__ (non-dict in_data; the SimpleNamespace conversion of dict payloads is library code) ----
    reg.add(Contract(HT, 'EventData.__init__', dict(self=Obj('EventData'), lang=Any, event=Any, in_data=Any, out_data=Any),
                     returns=NoneT,
                     requires=[('in_data-is-not-a-dict', lambda c: z3.Not(z3.And(S.is_ref(c.p.in_data), S.tyof(S.addr(c.p.in_data)) == S.type_id('dict'))))],
                     ensures=[('fields-are-the-arguments', lambda c: z3.And(c.new.attr(c.p.self, 'lang') == c.p.lang, c.new.attr(c.p.self, 'event') == c.p.event,
                                                                             c.new.attr(c.p.self, 'in_data') == c.p.in_data, c.new.attr(c.p.self, 'out_data') == c.p.out_data))],
                     modifies=lambda c: {'attr:lang': [c.p.self], 'attr:event': [c.p.self], 'attr:in_data': [c.p.self], 'attr:out_data': [c.p.self]}))

    # ---- EventManager.notify ---------------------------------------------------------------------------------
    IA = z3.ArraySort(z3.IntSort(), z3.IntSort())
    PA = z3.ArraySort(z3.IntSort(), S.PyObj())

    def ghost_init(ex, st):
        g = st.ghost
        g['cnt'] = z3.K(z3.IntSort(), z3.IntVal(0))      # cnt[k]: how often handler k was invoked
        g['tm'] = z3.Const('g_tm0', IA)                   # tm[k]: ghost clock at the invocation of handler k
        g['t'] = z3.IntVal(0)                             # ghost clock = number of invocations so far
        g['seen'] = z3.Const('g_seen0', PA)               # data.in_data as seen by handler k
        g['outv'] = z3.Const('g_out0', PA)                # data.out_data when handler k returned
        g['ret'] = z3.Const('g_ret0', PA)                 # return value of handler k
        g['lastsucc'] = z3.Const('g_lastsucc0', IA)       # latest successful handler invoked before k, or -1
        g['ls'] = z3.IntVal(-1)                           # latest successful handler so far, or -1
        g['acc'] = z3.IntVal(0)                           # union (fold of |) of norm(ret) over the invocations so far

    def handler_cb(ex, st, node, fv, args, kwargs):
        """opaque handler(data): may replace data.out_data (and allocate); returns None or a flag set in [0,15]"""
        data = args[0]
        g = st.ghost
        k = g['loop1_i']
        D = S.addr(data.t)
        g['cnt'] = z3.Store(g['cnt'], k, z3.Select(g['cnt'], k) + 1)
        g['tm'] = z3.Store(g['tm'], k, g['t'])
        g['t'] = g['t'] + 1
        g['seen'] = z3.Store(g['seen'], k, z3.Select(st.field('attr:in_data'), D))
        g['lastsucc'] = z3.Store(g['lastsucc'], k, g['ls'])
        nn = S.fresh('next_ref', z3.IntSort())
        st.assume(nn >= st.next_ref)
        st.next_ref = nn
        newout = S.fresh('cb_out')
        from lianvc.engine import below
        st.assume(below(newout, nn))
        st.set_field('attr:out_data', z3.Store(st.field('attr:out_data'), D, newout))
        r = S.fresh('cb_ret')
        st.assume(flag_ok(r))
        g['ret'] = z3.Store(g['ret'], k, r)
        g['outv'] = z3.Store(g['outv'], k, newout)
        g['ls'] = z3.If(succ(r), k, g['ls'])
        g['acc'] = bor(g['acc'], norm(r))
        return V(r, Opt(Int))

    def H_of(c):
        """the handler list of data.event at entry (a Seq of (langs, handler) tuples)"""
        d = c.pre.attr(c.p.self, 'event_handlers')
        return c.pre.list(c.pre.get(d, c.pre.attr(c.p.data, 'event')))

    def match(c, k):
        Hs = H_of(c)
        L = S.items(S.at(Hs, k))[0]
        lang = c.pre.attr(c.p.data, 'lang')
        return z3.Or(S.member(c.pre.list(L), lang), S.member(c.pre.list(L), S.mk_str('%')))

    def called(g, k):
        return z3.Select(g.cnt, k) == 1

    def blocks(r):
        """the handler's return value requests blocking of the remaining handlers (STOP_OTHER_EVENT_HANDLERS = 2)"""
        return flag_of(r, 2)

    def orig_in(c):
        return c.pre.attr(c.p.data, 'in_data')

    k_, j_, k2_ = z3.Ints('k j k2')

    def lastsucc_ok(c, g, k):
        """lastsucc[k] is the latest invoked successful handler before k (or -1) and handler k saw its out_data"""
        ls = z3.Select(g.lastsucc, k)
        return z3.And(ls >= -1, ls < k,
                      z3.Implies(ls >= 0, z3.And(called(g, ls), succ(z3.Select(g.ret, ls)))),
                      z3.ForAll([j_], z3.Implies(z3.And(ls < j_, j_ < k, called(g, j_)), z3.Not(succ(z3.Select(g.ret, j_))))),
                      z3.Select(g.seen, k) == z3.If(ls == -1, orig_in(c), z3.Select(g.outv, ls)))

    inv = [
        ('exactly-matching-prefix-ran-once', lambda c: z3.ForAll([k_], z3.Select(c.g.cnt, k_) ==
                                                                 z3.If(z3.And(k_ >= 0, k_ < c.i, match(c, k_)), 1, 0))),
        ('clock', lambda c: z3.And(c.g.t >= 0, z3.ForAll([k_], z3.Implies(called(c.g, k_), z3.And(z3.Select(c.g.tm, k_) >= 0,
                                                                                                   z3.Select(c.g.tm, k_) < c.g.t))))),
        ('registration-order', lambda c: z3.ForAll([k_, k2_], z3.Implies(z3.And(called(c.g, k_), called(c.g, k2_), k_ < k2_),
                                                                         z3.Select(c.g.tm, k_) < z3.Select(c.g.tm, k2_)))),
        ('accumulator', lambda c: z3.And(S.ival(c.l.event_return) == c.g.acc, c.g.acc >= 0, c.g.acc <= 15, bitk(c.g.acc, 2) == 0)),
        ('no-blocker-yet', lambda c: S.forall([k_], z3.Implies(called(c.g, k_), z3.And(flag_ok(z3.Select(c.g.ret, k_)),
                                                                                        z3.Not(blocks(z3.Select(c.g.ret, k_))))),
                                              patterns=[z3.Select(c.g.cnt, k_), z3.Select(c.g.ret, k_)])),
        ('latest-successful', lambda c: z3.And(
            c.g.ls >= -1, c.g.ls < c.i,
            z3.Implies(c.g.ls >= 0, z3.And(called(c.g, c.g.ls), succ(z3.Select(c.g.ret, c.g.ls)))),
            z3.ForAll([j_], z3.Implies(z3.And(c.g.ls < j_, j_ < c.i, called(c.g, j_)), z3.Not(succ(z3.Select(c.g.ret, j_))))))),
        ('in-data-is-left-by-latest-successful', lambda c: c.cur.attr(c.p.data, 'in_data') ==
         z3.If(c.g.ls == -1, orig_in(c), z3.Select(c.g.outv, c.g.ls))),
        ('each-saw-previous-successful', lambda c: z3.ForAll([k_], z3.Implies(called(c.g, k_), lastsucc_ok(c, c.g, k_)))),
        ('handler-table-untouched', lambda c: z3.And(c.cur.field('list') == c.pre.field('list'),
                                                      c.cur.field('attr:lang') == c.pre.field('attr:lang'))),
    ]

    def known(c):
        d = c.pre.attr(c.p.self, 'event_handlers')
        return c.pre.has(d, c.pre.attr(c.p.data, 'event'))

    def m_of(c):
        """number of handler positions processed: i+1 when notify returned inside the loop, else all of them"""
        n = z3.Length(H_of(c))
        if c.g.get('loop1_in') is True:
            return c.g.loop1_i + 1
        return n

    def in_loop(c):
        return 'loop1_i' in c.g

    def ens_a(c):
        if not in_loop(c):
            return c.g.t == 0
        n = z3.Length(H_of(c))
        return z3.And(
            z3.ForAll([k_], z3.Or(z3.Select(c.g.cnt, k_) == 0, z3.Select(c.g.cnt, k_) == 1)),
            z3.ForAll([k_], z3.Implies(called(c.g, k_), z3.And(k_ >= 0, k_ < n, match(c, k_)))),
            z3.ForAll([k_, k2_], z3.Implies(z3.And(called(c.g, k_), called(c.g, k2_), k_ < k2_),
                                            z3.Select(c.g.tm, k_) < z3.Select(c.g.tm, k2_))))

    def ens_b(c):
        if not in_loop(c):
            return c.g.t == 0
        n = z3.Length(H_of(c))
        m = m_of(c)
        return z3.And(
            m >= 0, m <= n,
            z3.ForAll([k_], called(c.g, k_) == z3.And(k_ >= 0, k_ < m, match(c, k_))),
            z3.Or(m == n, z3.And(called(c.g, m - 1), blocks(z3.Select(c.g.ret, m - 1)))),
            z3.ForAll([k_], z3.Implies(z3.And(called(c.g, k_), k_ < m - 1), z3.Not(blocks(z3.Select(c.g.ret, k_))))),
            z3.Implies(z3.And(m == n, n > 0, called(c.g, n - 1)), z3.BoolVal(True)))

    def ens_c(c):
        if not in_loop(c):
            return c.g.t == 0
        return z3.ForAll([k_], z3.Implies(called(c.g, k_), lastsucc_ok(c, c.g, k_)))

    def ens_d(c):
        return z3.And(S.ival(c.res) == c.g.acc, c.g.acc >= 0, c.g.acc <= 15)

    def ens_e(c):
        return z3.Implies(z3.Not(known(c)), z3.And(S.ival(c.res) == 0, c.g.t == 0,
                                                   c.new.attr(c.p.data, 'out_data') == c.old.attr(c.p.data, 'in_data')))

    reg.add(Contract(EM, 'EventManager.notify', dict(self=Obj('EventManager'), data=Obj('EventData')), returns=Int,
                     ghost_init=ghost_init, callbacks={'handler': handler_cb},
                     loops={1: LoopSpec(invariants=inv, modifies=lambda c: {'attr:out_data': [c.p.data], 'attr:in_data': [c.p.data]})},
                     ensures=[('a-exactly-matching-handlers-in-registration-order', ens_a),
                              ('b-stops-after-first-blocker', ens_b),
                              ('c-each-sees-data-left-by-previous-successful', ens_c),
                              ('d-result-is-union-of-flags', ens_d),
                              ('e-unknown-event-is-noop', ens_e)],
                     modifies=lambda c: {'attr:out_data': [c.p.data], 'attr:in_data': [c.p.data]}))
    return reg


# ---- static obligations on the default registration table (evaluated from the real AST) ------------------------------
def _res(name, ok, detail=''):
    return dict(name=f'{PROPERTY}:static:{name}', kind='static', verdict='unsat' if ok else 'sat', backend='ast-evaluation',
                time_s=0.0, model=None if ok else {'detail': detail}, reason=detail if not ok else '')


def default_table_obligations(reg, tier):
    import ast
    from lianvc import source
    out = []
    em = source.load(EM)
    init = em.function('EventManager.__init__')
    # (1) the event table literal: keys are known event kinds, values are pairwise distinct attributes each assigned a fresh [] once
    table = None
    fresh_lists = {}
    for st in init.body:
        if isinstance(st, ast.Assign) and len(st.targets) == 1 and isinstance(st.targets[0], ast.Attribute) \
                and isinstance(st.targets[0].value, ast.Name) and st.targets[0].value.id == 'self':
            nm = st.targets[0].attr
            if nm == 'event_handlers' and isinstance(st.value, ast.Dict):
                table = st.value
            elif isinstance(st.value, ast.List) and not st.value.elts:
                fresh_lists[nm] = fresh_lists.get(nm, 0) + 1
    if table is None:
        raise source.SourceError('EventManager.__init__: event_handlers dict literal not found (contract out of date)')
    keys, vals = [], []
    for k, v in zip(table.keys, table.values):
        keys.append(source.const_eval(em, k))
        vals.append(v.attr if isinstance(v, ast.Attribute) and isinstance(v.value, ast.Name) and v.value.id == 'self' else None)
    out.append(_res('event-table-keys-are-distinct-ints', all(isinstance(k, int) for k in keys) and len(set(keys)) == len(keys), str(keys)))
    out.append(_res('event-table-values-are-distinct-fresh-lists',
                    all(v is not None and fresh_lists.get(v) == 1 for v in vals) and len(set(vals)) == len(vals), str(vals)))
    missing = [v for v in vals if v not in HANDLER_LIST_ATTRS]
    out.append(_res('event-table-values-are-declared-handler-lists', not missing, str(missing)))
    # (2) the default registration list: every event is a key of the table, every langs is a list of strings
    er_mod = source.load('src/lian/events/event_registers.py')
    enable = er_mod.function('DefaultEventHandlerManager.enable')
    calls = [n for n in ast.walk(enable) if isinstance(n, ast.Call) and ast.unparse(n.func).endswith('register_list')]
    if len(calls) != 1 or not isinstance(calls[0].args[0], ast.List):
        raise source.SourceError('DefaultEventHandlerManager.enable: register_list([...]) literal not found (contract out of date)')
    per_event = {}
    bad_event, bad_langs, bad_shape = [], [], []
    for el in calls[0].args[0].elts:
        if not (isinstance(el, ast.Call) and ast.unparse(el.func) == 'EventHandler' and not el.args):
            bad_shape.append(ast.unparse(el)[:60])
            continue
        kw = {k.arg: k.value for k in el.keywords}
        if set(kw) != {'event', 'handler', 'langs'}:
            bad_shape.append(ast.unparse(el)[:60])
            continue
        ev = source.const_eval(er_mod, kw['event'])
        langs = source.const_eval(er_mod, kw['langs'])
        if ev not in keys:
            bad_event.append((ast.unparse(kw['event']), ast.unparse(kw['handler'])))
        if not (isinstance(langs, list) and langs and all(isinstance(x, str) for x in langs)):
            bad_langs.append((ast.unparse(kw['handler']), repr(langs)))
        per_event.setdefault(ev, []).append(dict(handler=ast.unparse(kw['handler']), langs=langs))
    out.append(_res('default-table-entries-are-EventHandler(event,handler,langs)', not bad_shape, str(bad_shape)))
    out.append(_res('default-table-events-are-known (else the registration is dropped with a warning)', not bad_event, str(bad_event)))
    out.append(_res('default-table-langs-are-nonempty-lists-of-strings', not bad_langs, str(bad_langs)))
    # the EventHandler dataclass has exactly the three fields register_list reads
    ht = source.load(HT)
    cls = ht.classes.get('EventHandler')
    fields = [n.target.id for n in cls.body if isinstance(n, ast.AnnAssign)] if cls else []
    out.append(_res('EventHandler-is-a-dataclass-with-langs-event-handler',
                    sorted(fields) == ['event', 'handler', 'langs'] and any('dataclass' in d for d in ht.class_decorators('EventHandler')), str(fields)))
    default_table_obligations.table = {str(k): v for k, v in sorted(per_event.items())}
    return out


EXTRA_OBLIGATIONS = [default_table_obligations]

ASSUMPTIONS = [
    'event handlers are opaque callbacks: a handler may replace data.out_data and allocate, returns None or an int in [0,15]; '
    'it does not register handlers, nor write data.in_data/lang/event, during notification',
    "a handler 'succeeds' iff its return value != UNPROCESSED (python: None != 0), and contributes norm(r) = (r & 0b1110) | SUCCESS to the result "
    '(None and 0 contribute nothing) — reading of the statement recorded in DESIGN.md §4 C17',
    'register: langs is a str, a set or a list (every call site in src/lian passes one of these); other iterables (tuples) are stored as given',
    'EventData.__init__ is proved for non-dict in_data; dict payloads go through types.SimpleNamespace (library, trusted)',
    'EventManager.__init__ itself (plugin loading through importlib/inspect) is not under contract; the facts the proofs need from it '
    '(distinct fresh handler lists, table keys) are discharged as static obligations on its AST',
    'bool and int are treated as disjoint value kinds (True == 1 is not modelled)',
]

EXPLANATION = ('Deductive proof, function by function, of the event dispatch contract on the real source of events/event_manager.py and '
               'events/event_return.py: VCs generated from the AST by lianvc, discharged by z3. notify: clauses (a)-(e) of the statement as '
               'postconditions over a ghost invocation log; register/register_list/add_handler: exact effect on the per-event lists; '
               'event_return: bit-level specifications; default table: evaluated from the AST.')

QUICK_CANARIES = {
    'EventManager.notify': ['swap-and-or', 'negate-condition', 'delete-stmt[data.in_data = data.out_data]', 'delete-stmt[return event_return]',
                            'delete-stmt[event_return = er.sync_event_return'],
    'sync_event_return': ['negate-condition', 'delete-stmt[global_event_return |= EventHandlerReturnKind.STOP_OTHER'],
    'EventManager.register': ['negate-condition', 'delete-stmt[langs = [langs]]', 'delete-stmt[self.add_handler'],
    'EventManager.register_list': ['delete-stmt[self.register'],
    'EventManager.add_handler': ['delete-stmt[handler_list.append'],
}
MIN_CANARY_KILL_RATIO = 0.9
