"""C17 — Event handlers run in registration order under the documented blocking rules.

Functions under contract (real source, /repo/src/lian/events):
  event_return.py : all 11 functions
  event_manager.py: EventManager.{add_handler, register, register_list, notify}
  handler_template.py: EventData.__init__ (the non-dict branch; SimpleNamespace conversion is trusted)

Reading of the statement (DESIGN.md §4 C17):
  flags r in {None} U [0,15];  norm(None) = norm(0) = 0, else norm(r) = (r & 0b1110) | SUCCESS
  "successful" handler  <=>  its return value != UNPROCESSED (None counts: `None != 0`)
"""
import z3
from lianvc import sorts as S
from lianvc.sorts import Any, Int, Bool, Str, NoneT, Opt, List, Dict, Set, Tuple, TupleOf, Obj, Val, Fn, Union
from lianvc.contracts import Contract, ClassInfo, LoopSpec, Registry
from lianvc.engine import V, Outcome, BITW

PROPERTY = 'C17'
ER = 'src/lian/events/event_return.py'
EM = 'src/lian/events/event_manager.py'
HT = 'src/lian/events/handler_template.py'

LANGS = List(Any)                       # the language list stored with a handler
ENTRY = Tuple(LANGS, Fn)                # (langs, handler)
HLIST = List(ENTRY)

HANDLER_LIST_ATTRS = [
    'mock_source_code_handlers', 'source_code_handlers', 'gir_list_handlers', 'flattened_gir_list_handlers',
    'gir_data_model_handlers', 'def_use_handlers', 'state_flow_handlers', 'method_summary_handlers',
    'entry_point_handlers', 'taint_analysis_handlers', 'p2state_field_read_before_handlers',
    'p2state_field_read_after_handlers', 'p2state_call_stmt_before_handlers', 'p2state_field_write_after_handlers',
    'p2state_generate_external_states_handlers', 'p2state_new_object_before_handlers',
    'p2state_new_object_after_handlers', 'p2state_builtin_function_before_handlers', 'p2state_extern_callee_handlers']


def bitk(x, b):
    """bit b (power of two) of a flag set in [0, 15]"""
    return (x / b) % 2


def band(x, k):
    """x & k for a constant k (flag sets are ints in [0, 15])"""
    return z3.Sum([bitk(x, b) * b for b in (1, 2, 4, 8) if k & b])


def bor(x, y):
    """x | y for flag sets in [0, 15]"""
    return z3.Sum([z3.If(z3.Or(bitk(x, b) == 1, bitk(y, b) == 1), b, 0) for b in (1, 2, 4, 8)])


def flag_ok(r):
    """handler return values: None or an int in [0, 15] (precondition on callbacks)"""
    return z3.Or(S.is_none(r), z3.And(S.is_int(r), S.ival(r) >= 0, S.ival(r) <= 15))


def norm(r):
    """integer: the flags a handler's return value contributes (from the statement: 'union of the flags returned')"""
    i = S.ival(r)
    return z3.If(z3.Or(S.is_none(r), i == 0), z3.IntVal(0), bor(band(i, 14), z3.IntVal(1)))


def flag_of(r, b):
    """does a handler's return value r contribute flag b (1 = SUCCESS: any non-None, non-zero value)"""
    if b == 1:
        return z3.And(S.is_int(r), S.ival(r) != 0)
    return z3.And(S.is_int(r), bitk(S.ival(r), b) == 1)


def succ(r):
    """'successful handler': return value != UNPROCESSED  (python: None != 0 is True)"""
    return z3.Not(z3.And(S.is_int(r), S.ival(r) == 0))


def build():
    reg = Registry()
    reg.add_class(ClassInfo('Options', EM, dict(debug=Any, event_handlers=Any)))
    fields = dict(options=Obj('Options'), optional_event_handler_paths=Any, event_handlers=Dict(Any, HLIST))
    for a in HANDLER_LIST_ATTRS:
        fields[a] = HLIST
    reg.add_class(ClassInfo('EventManager', EM, fields))
    reg.add_class(ClassInfo('EventData', HT, dict(lang=Any, event=Any, in_data=Any, out_data=Any)))
    reg.add_class(ClassInfo('EventHandler', HT, dict(langs=Any, event=Any, handler=Fn)))

    i = lambda t: S.ival(t)
    rng = lambda t: z3.And(S.ival(t) >= 0, S.ival(t) <= 15)

    # ---- event_return.py ---------------------------------------------------------------------------------
    reg.add(Contract(ER, 'is_event_successfully_processed', dict(event_return=Opt(Int)), returns=Bool,
                     ensures=[('is-not-unprocessed', lambda c: S.bval(c.res) == succ(c.p.event_return))]))
    reg.add(Contract(ER, 'is_event_unprocessed', dict(event_return=Opt(Int)), returns=Bool,
                     ensures=[('is-unprocessed', lambda c: S.bval(c.res) == z3.Not(succ(c.p.event_return)))]))
    for fn, bit in (('should_block_other_event_handlers', 2), ('should_block_event_requester', 4), ('should_interrupt_call', 8)):
        reg.add(Contract(ER, fn, dict(event_return=Int), returns=Int,
                         requires=[('flags-in-range', lambda c: rng(c.p.event_return))],
                         ensures=[('bit-test', lambda c, bit=bit: i(c.res) == band(i(c.p.event_return), bit)),
                                  ('nonzero-iff-flag-set', lambda c, bit=bit: (i(c.res) != 0) == (bitk(i(c.p.event_return), bit) == 1))]))
    reg.add(Contract(ER, 'sync_event_return', dict(local_event_return=Opt(Int), global_event_return=Int), returns=Int,
                     requires=[('local-is-flagset-or-None', lambda c: flag_ok(c.p.local_event_return)),
                               ('global-in-range', lambda c: rng(c.p.global_event_return))],
                     ensures=[('union', lambda c: i(c.res) == bor(i(c.p.global_event_return), norm(c.p.local_event_return))),
                              ('stays-in-range', lambda c: rng(c.res)),
                              ('bitwise', lambda c: z3.And(*[
                                  (bitk(i(c.res), b) == 1) == z3.Or(bitk(i(c.p.global_event_return), b) == 1,
                                                                     flag_of(c.p.local_event_return, b)) for b in (1, 2, 4, 8)]))]))
    reg.add(Contract(ER, 'config_event_unprocessed', {}, returns=Int,
                     ensures=[('zero', lambda c: i(c.res) == 0)]))
    for fn, bit in (('config_continue_event_processing', 1), ('config_block_other_event_handlers', 2),
                    ('config_block_event_requester', 4), ('config_interrupt_call', 8)):
        reg.add(Contract(ER, fn, dict(event_return=Int), returns=Int,
                         requires=[('flags-in-range', lambda c: rng(c.p.event_return))],
                         ensures=[('sets-exactly-this-flag', lambda c, bit=bit: i(c.res) == bor(i(c.p.event_return), z3.IntVal(bit)))]))

    # ---- EventManager.add_handler / register / register_list ---------------------------------------------
    def lst(h, x):
        return h.list(x)

    reg.add(Contract(EM, 'EventManager.add_handler',
                     dict(self=Obj('EventManager'), handler_list=HLIST, func=Fn, langs=LANGS), returns=NoneT,
                     ensures=[('appends-at-end', lambda c: c.new.list(c.p.handler_list) ==
                               z3.Concat(c.old.list(c.p.handler_list), z3.Unit(S.mk_tup(S.seq_of(c.p.langs, c.p.func)))))],
                     modifies=lambda c: {'list': [c.p.handler_list]}))

    def handlers_dict(c, h):
        return h.attr(c.p.self, 'event_handlers')

    def reg_langs_ok(c):
        l = c.p.langs
        return z3.Or(S.is_str(l), S.has_type(l, Set(Any), c.old.next), S.has_type(l, LANGS, c.old.next))

    def distinct_lists(c, h):
        """the per-event handler lists are pairwise distinct objects, distinct from any language list"""
        d = handlers_dict(c, h)
        e1, e2 = z3.Consts('e1 e2', S.PyObj())
        return z3.ForAll([e1, e2], z3.Implies(z3.And(h.has(d, e1), h.has(d, e2), e1 != e2), h.get(d, e1) != h.get(d, e2)))

    def register_effect(c):
        ev, d_old = c.p.event, handlers_dict(c, c.old)
        known = c.old.has(d_old, ev)
        target = c.old.get(d_old, ev)
        l = c.p.langs
        x = z3.Const('x', S.PyObj())
        a = z3.Int('a')
        new_entry = z3.SeqRef  # placeholder for readability
        # the entry appended: (L, handler) with L = [langs] for a str, a fresh list of the set's members for a set,
        # the very list object otherwise
        last = c.new.list(target)[z3.Length(c.new.list(target)) - 1]
        L = S.items(last)[0]
        eff_known = z3.And(
            z3.Length(c.new.list(target)) == z3.Length(c.old.list(target)) + 1,
            z3.Extract(c.new.list(target), 0, z3.Length(c.old.list(target))) == c.old.list(target),
            S.is_tup(last), z3.Length(S.items(last)) == 2, S.items(last)[1] == c.p.handler,
            z3.Implies(S.is_str(l), c.new.list(L) == z3.Unit(l)),
            z3.Implies(S.has_type(l, LANGS), L == l),
            z3.Implies(S.has_type(l, Set(Any)),
                       z3.ForAll([x], z3.Contains(c.new.list(L), z3.Unit(x)) == c.old.has(l, x))),
            # every other pre-existing list is unchanged
            z3.ForAll([a], z3.Implies(z3.And(a > 0, a < c.old.next, a != S.addr(target)),
                                      z3.Select(c.new.field('list'), a) == z3.Select(c.old.field('list'), a))))
        eff_unknown = z3.Select(c.new.field('list'), a) == z3.Select(c.old.field('list'), a)
        return z3.If(known, eff_known, z3.ForAll([a], z3.Implies(z3.And(a > 0, a < c.old.next), eff_unknown)))

    reg.add(Contract(EM, 'EventManager.register',
                     dict(self=Obj('EventManager'), event=Any, handler=Fn, langs=Any), returns=NoneT,
                     requires=[('langs-is-str-set-or-list', reg_langs_ok),
                               ('handler-lists-distinct', lambda c: distinct_lists(c, c.old))],
                     ensures=[('appends-to-exactly-that-event', register_effect),
                              ('event-table-unchanged', lambda c: z3.And(
                                  c.new.dom(handlers_dict(c, c.new)) == c.old.dom(handlers_dict(c, c.old)),
                                  c.new.val(handlers_dict(c, c.new)) == c.old.val(handlers_dict(c, c.old))))],
                     modifies=lambda c: {'list': True}))

    # ---- EventManager.notify ---------------------------------------------------------------------------------
    IA = z3.ArraySort(z3.IntSort(), z3.IntSort())
    PA = z3.ArraySort(z3.IntSort(), S.PyObj())

    def ghost_init(ex, st):
        g = st.ghost
        g['cnt'] = z3.K(z3.IntSort(), z3.IntVal(0))      # cnt[k]: how often handler k was invoked
        g['tm'] = z3.Const('g_tm0', IA)                   # tm[k]: ghost clock at the invocation of handler k
        g['t'] = z3.IntVal(0)                             # ghost clock = number of invocations so far
        g['seen'] = z3.Const('g_seen0', PA)               # data.in_data as seen by handler k
        g['outv'] = z3.Const('g_out0', PA)                # data.out_data when handler k returned
        g['ret'] = z3.Const('g_ret0', PA)                 # return value of handler k
        g['lastsucc'] = z3.Const('g_lastsucc0', IA)       # latest successful handler invoked before k, or -1
        g['ls'] = z3.IntVal(-1)                           # latest successful handler so far, or -1
        g['acc'] = z3.IntVal(0)                           # union (fold of |) of norm(ret) over the invocations so far

    def handler_cb(ex, st, node, fv, args, kwargs):
        """opaque handler(data): may replace data.out_data (and allocate); returns None or a flag set in [0,15]"""
        data = args[0]
        g = st.ghost
        k = g['loop1_i']
        D = S.addr(data.t)
        g['cnt'] = z3.Store(g['cnt'], k, z3.Select(g['cnt'], k) + 1)
        g['tm'] = z3.Store(g['tm'], k, g['t'])
        g['t'] = g['t'] + 1
        g['seen'] = z3.Store(g['seen'], k, z3.Select(st.field('attr:in_data'), D))
        g['lastsucc'] = z3.Store(g['lastsucc'], k, g['ls'])
        nn = S.fresh('next_ref', z3.IntSort())
        st.assume(nn >= st.next_ref)
        st.next_ref = nn
        newout = S.fresh('cb_out')
        from lianvc.engine import below
        st.assume(below(newout, nn))
        st.set_field('attr:out_data', z3.Store(st.field('attr:out_data'), D, newout))
        r = S.fresh('cb_ret')
        st.assume(flag_ok(r))
        g['ret'] = z3.Store(g['ret'], k, r)
        g['outv'] = z3.Store(g['outv'], k, newout)
        g['ls'] = z3.If(succ(r), k, g['ls'])
        g['acc'] = bor(g['acc'], norm(r))
        return V(r, Opt(Int))

    def H_of(c):
        """the handler list of data.event at entry (a Seq of (langs, handler) tuples)"""
        d = c.pre.attr(c.p.self, 'event_handlers')
        return c.pre.list(c.pre.get(d, c.pre.attr(c.p.data, 'event')))

    def match(c, k):
        Hs = H_of(c)
        L = S.items(Hs[k])[0]
        lang = c.pre.attr(c.p.data, 'lang')
        return z3.Or(z3.Contains(c.pre.list(L), z3.Unit(lang)), z3.Contains(c.pre.list(L), z3.Unit(S.mk_str('%'))))

    def called(g, k):
        return z3.Select(g.cnt, k) == 1

    def blocks(r):
        """the handler's return value requests blocking of the remaining handlers (STOP_OTHER_EVENT_HANDLERS = 2)"""
        return flag_of(r, 2)

    def orig_in(c):
        return c.pre.attr(c.p.data, 'in_data')

    k_, j_, k2_ = z3.Ints('k j k2')

    def lastsucc_ok(c, g, k):
        """lastsucc[k] is the latest invoked successful handler before k (or -1) and handler k saw its out_data"""
        ls = z3.Select(g.lastsucc, k)
        return z3.And(ls >= -1, ls < k,
                      z3.Implies(ls >= 0, z3.And(called(g, ls), succ(z3.Select(g.ret, ls)))),
                      z3.ForAll([j_], z3.Implies(z3.And(ls < j_, j_ < k, called(g, j_)), z3.Not(succ(z3.Select(g.ret, j_))))),
                      z3.Select(g.seen, k) == z3.If(ls == -1, orig_in(c), z3.Select(g.outv, ls)))

    inv = [
        ('exactly-matching-prefix-ran-once', lambda c: z3.ForAll([k_], z3.Select(c.g.cnt, k_) ==
                                                                 z3.If(z3.And(k_ >= 0, k_ < c.i, match(c, k_)), 1, 0))),
        ('clock', lambda c: z3.And(c.g.t >= 0, z3.ForAll([k_], z3.Implies(called(c.g, k_), z3.And(z3.Select(c.g.tm, k_) >= 0,
                                                                                                   z3.Select(c.g.tm, k_) < c.g.t))))),
        ('registration-order', lambda c: z3.ForAll([k_, k2_], z3.Implies(z3.And(called(c.g, k_), called(c.g, k2_), k_ < k2_),
                                                                         z3.Select(c.g.tm, k_) < z3.Select(c.g.tm, k2_)))),
        ('accumulator', lambda c: z3.And(S.ival(c.l.event_return) == c.g.acc, c.g.acc >= 0, c.g.acc <= 15, bitk(c.g.acc, 2) == 0)),
        ('no-blocker-yet', lambda c: z3.ForAll([k_], z3.Implies(called(c.g, k_), z3.And(flag_ok(z3.Select(c.g.ret, k_)),
                                                                                         z3.Not(blocks(z3.Select(c.g.ret, k_))))))),
        ('latest-successful', lambda c: z3.And(
            c.g.ls >= -1, c.g.ls < c.i,
            z3.Implies(c.g.ls >= 0, z3.And(called(c.g, c.g.ls), succ(z3.Select(c.g.ret, c.g.ls)))),
            z3.ForAll([j_], z3.Implies(z3.And(c.g.ls < j_, j_ < c.i, called(c.g, j_)), z3.Not(succ(z3.Select(c.g.ret, j_))))))),
        ('in-data-is-left-by-latest-successful', lambda c: c.cur.attr(c.p.data, 'in_data') ==
         z3.If(c.g.ls == -1, orig_in(c), z3.Select(c.g.outv, c.g.ls))),
        ('each-saw-previous-successful', lambda c: z3.ForAll([k_], z3.Implies(called(c.g, k_), lastsucc_ok(c, c.g, k_)))),
        ('handler-table-untouched', lambda c: z3.And(c.cur.field('list') == c.pre.field('list'),
                                                      c.cur.field('attr:lang') == c.pre.field('attr:lang'))),
    ]

    def known(c):
        d = c.pre.attr(c.p.self, 'event_handlers')
        return c.pre.has(d, c.pre.attr(c.p.data, 'event'))

    def m_of(c):
        """number of handler positions processed: i+1 when notify returned inside the loop, else all of them"""
        n = z3.Length(H_of(c))
        if c.g.get('loop1_in') is True:
            return c.g.loop1_i + 1
        return n

    def in_loop(c):
        return 'loop1_i' in c.g

    def ens_a(c):
        if not in_loop(c):
            return c.g.t == 0
        n = z3.Length(H_of(c))
        return z3.And(
            z3.ForAll([k_], z3.Or(z3.Select(c.g.cnt, k_) == 0, z3.Select(c.g.cnt, k_) == 1)),
            z3.ForAll([k_], z3.Implies(called(c.g, k_), z3.And(k_ >= 0, k_ < n, match(c, k_)))),
            z3.ForAll([k_, k2_], z3.Implies(z3.And(called(c.g, k_), called(c.g, k2_), k_ < k2_),
                                            z3.Select(c.g.tm, k_) < z3.Select(c.g.tm, k2_))))

    def ens_b(c):
        if not in_loop(c):
            return c.g.t == 0
        n = z3.Length(H_of(c))
        m = m_of(c)
        return z3.And(
            m >= 0, m <= n,
            z3.ForAll([k_], called(c.g, k_) == z3.And(k_ >= 0, k_ < m, match(c, k_))),
            z3.Or(m == n, z3.And(called(c.g, m - 1), blocks(z3.Select(c.g.ret, m - 1)))),
            z3.ForAll([k_], z3.Implies(z3.And(called(c.g, k_), k_ < m - 1), z3.Not(blocks(z3.Select(c.g.ret, k_))))),
            z3.Implies(z3.And(m == n, n > 0, called(c.g, n - 1)), z3.BoolVal(True)))

    def ens_c(c):
        if not in_loop(c):
            return c.g.t == 0
        return z3.ForAll([k_], z3.Implies(called(c.g, k_), lastsucc_ok(c, c.g, k_)))

    def ens_d(c):
        return z3.And(S.ival(c.res) == c.g.acc, c.g.acc >= 0, c.g.acc <= 15)

    def ens_e(c):
        return z3.Implies(z3.Not(known(c)), z3.And(S.ival(c.res) == 0, c.g.t == 0,
                                                   c.new.attr(c.p.data, 'out_data') == c.old.attr(c.p.data, 'in_data')))

    reg.add(Contract(EM, 'EventManager.notify', dict(self=Obj('EventManager'), data=Obj('EventData')), returns=Int,
                     ghost_init=ghost_init, callbacks={'handler': handler_cb},
                     loops={1: LoopSpec(invariants=inv, modifies=lambda c: {'attr:out_data': [c.p.data], 'attr:in_data': [c.p.data]})},
                     ensures=[('a-exactly-matching-handlers-in-registration-order', ens_a),
                              ('b-stops-after-first-blocker', ens_b),
                              ('c-each-sees-data-left-by-previous-successful', ens_c),
                              ('d-result-is-union-of-flags', ens_d),
                              ('e-unknown-event-is-noop', ens_e)],
                     modifies=lambda c: {'attr:out_data': [c.p.data], 'attr:in_data': [c.p.data]}))
    return reg
