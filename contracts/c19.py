"""C19 — The call-path store keeps exactly the maximal paths.

Deductively verified (real source, src/lian/common_structs.py):
  CallSite.{__eq__, __hash__, has_negative, is_entry_point, to_tuple}, CallPath.{__len__, get_length, __contains__, __getitem__, to_tuple,
  has_any_negative, add_call, add_callsite, count_cycles}, TrieNode.__init__, PathTrie.{__init__, path_exists, remove_path},
  PathManager.{__init__, add_path, remove_path, path_exists}
  + pure lemmas over the contracts (prefix-freeness and "stored set == maximal added valid paths" are inductive over any history).
Contract assumed for PathTrie.add_path and PathTrie._mark_non_terminal (trie walks with node creation/pruning); those two are covered by a
BOUNDED stand-in on the real code (replay/c19_replay.py --bounded; exhaustive operation sequences, bound stated in the evidence) and are
never counted as proved.
"""
import z3
from lianvc import sorts as S
from lianvc.sorts import Any, Int, Bool, Str, NoneT, Opt, List, Dict, Set, Tuple, TupleOf, Obj, Val, Fn
from lianvc.contracts import Contract, ClassInfo, LoopSpec, Registry
from lianvc.engine import V, Outcome, Unsupported

PROPERTY = 'C19'
REPLAY = 'c19_replay.py'
CS = 'src/lian/common_structs.py'

SITE = Val('CallSite')
PATH = Val('CallPath')


def neg(cs):
    return z3.Or(S.ival(S.vfield('CallSite', 'caller_id', cs)) < 0, S.ival(S.vfield('CallSite', 'call_stmt_id', cs)) < 0,
                 S.ival(S.vfield('CallSite', 'callee_id', cs)) < 0)


def pseq(p):
    """the sequence of call sites of a CallPath value"""
    return S.items(S.vfield('CallPath', 'path', p))


def well_formed_path(p):
    """a CallPath whose path is a tuple of CallSite values with int fields"""
    i = z3.Int('wi')
    e = S.at(pseq(p), i)
    return z3.And(S.is_val('CallPath', p), S.is_tup(S.vfield('CallPath', 'path', p)),
                  z3.ForAll([i], z3.Implies(z3.And(i >= 0, i < z3.Length(pseq(p))),
                                            z3.And(S.is_val('CallSite', e), S.is_int(S.vfield('CallSite', 'caller_id', e)),
                                                   S.is_int(S.vfield('CallSite', 'call_stmt_id', e)), S.is_int(S.vfield('CallSite', 'callee_id', e)))),
                            patterns=[S.at(pseq(p), i)]))


def has_neg(p):
    i = z3.Int('ni')
    return z3.Exists([i], z3.And(i >= 0, i < z3.Length(pseq(p)), neg(S.at(pseq(p), i))), patterns=[S.at(pseq(p), i)])


def prefix(p, q):
    """p is a (not necessarily proper) prefix of q — on CallPath values"""
    return z3.PrefixOf(pseq(p), pseq(q))


def build():
    global tq, uq
    reg = Registry()
    reg.add_class(ClassInfo('CallSite', CS, dict(caller_id=Int, call_stmt_id=Int, callee_id=Int), kind='value',
                            ctor_params=['caller_id', 'call_stmt_id', 'callee_id']))
    reg.add_class(ClassInfo('CallPath', CS, dict(path=TupleOf(SITE)), kind='value', ctor_params=['path']))
    reg.add_class(ClassInfo('TrieNode', CS, dict(children=Dict(SITE, Obj('TrieNode')), is_terminal=Bool, path=Opt(PATH))))
    reg.add_class(ClassInfo('PathTrie', CS, dict(root=Obj('TrieNode'), paths=Set(PATH))))
    reg.add_class(ClassInfo('PathManager', CS, dict(trie=Obj('PathTrie'), paths=Set(PATH))))
    tq, uq = z3.Consts('t u', S.PyObj())
    S.GHOST = None
    from lianvc import engine
    engine.GHOST_FIELD_SORTS['ghost:trie_ok'] = lambda: z3.ArraySort(z3.IntSort(), z3.BoolSort())

    f = lambda n, x: S.vfield('CallSite', n, x)
    # ---- CallSite -------------------------------------------------------------------------------------------------------
    reg.add(Contract(CS, 'CallSite.__eq__', dict(self=SITE, other=Any), returns=Bool,
                     ensures=[('field-wise-equality-with-another-CallSite-only', lambda c: S.bval(c.res) == (c.p.self == c.p.other))]))
    hf = z3.Function('py_hash', S.PyObj(), z3.IntSort())
    reg.add(Contract(CS, 'CallSite.__hash__', dict(self=SITE), returns=Int,
                     ensures=[('function-of-the-three-fields', lambda c: S.ival(c.res) == hf(S.mk_tup(S.seq_of(
                         f('caller_id', c.p.self), f('call_stmt_id', c.p.self), f('callee_id', c.p.self)))))]))
    reg.add(Contract(CS, 'CallSite.has_negative', dict(self=SITE), returns=Bool,
                     ensures=[('some-id-negative', lambda c: S.bval(c.res) == neg(c.p.self))]))
    reg.add(Contract(CS, 'CallSite.to_tuple', dict(self=SITE), returns=Tuple(Int, Int, Int),
                     ensures=[('the-three-fields', lambda c: S.items(c.res) == S.seq_of(f('caller_id', c.p.self), f('call_stmt_id', c.p.self),
                                                                                        f('callee_id', c.p.self)))]))
    # ---- CallPath -------------------------------------------------------------------------------------------------------
    for nm in ('__len__', 'get_length'):
        reg.add(Contract(CS, 'CallPath.' + nm, dict(self=PATH), returns=Int,
                         ensures=[('length-of-the-path', lambda c: S.ival(c.res) == z3.Length(pseq(c.p.self)))]))
    reg.add(Contract(CS, 'CallPath.__contains__', dict(self=PATH, item=Any), returns=Bool,
                     ensures=[('membership-in-the-path', lambda c: S.bval(c.res) == S.member(pseq(c.p.self), c.p.item))]))
    reg.add(Contract(CS, 'CallPath.to_tuple', dict(self=PATH), returns=TupleOf(SITE),
                     ensures=[('the-path', lambda c: c.res == S.vfield('CallPath', 'path', c.p.self))]))
    reg.add(Contract(CS, 'CallPath.has_any_negative', dict(self=PATH), returns=Bool,
                     requires=[('path-of-call-sites', lambda c: well_formed_path(c.p.self))],
                     loops={1: LoopSpec(invariants=[('no-negative-site-so-far', lambda c: z3.ForAll([z3.Int('k')], z3.Implies(
                         z3.And(z3.Int('k') >= 0, z3.Int('k') < c.i), z3.Not(neg(S.at(pseq(c.p.self), z3.Int('k'))))), patterns=[S.at(pseq(c.p.self), z3.Int('k'))]))])},
                     ensures=[('true-iff-some-site-has-a-negative-id', lambda c: S.bval(c.res) == has_neg(c.p.self))]))
    reg.add(Contract(CS, 'CallPath.add_callsite', dict(self=PATH, callsite=SITE), returns=PATH,
                     ensures=[('new-path-extended-by-one-site', lambda c: pseq(c.res) == z3.Concat(pseq(c.p.self), z3.Unit(c.p.callsite))),
                              ('is-a-CallPath-tuple', lambda c: S.is_tup(S.vfield('CallPath', 'path', c.res)))]))
    reg.add(Contract(CS, 'CallPath.add_call', dict(self=PATH, caller_id=Int, call_stmt_id=Int, callee_id=Int), returns=PATH,
                     ensures=[('extended-by-CallSite(caller,stmt,callee)', lambda c: pseq(c.res) == z3.Concat(
                         pseq(c.p.self), z3.Unit(S.mk_val('CallSite', c.p.caller_id, c.p.call_stmt_id, c.p.callee_id))))]))
    kq = z3.Int('k')
    xq = z3.Const('x', S.PyObj())

    def seen(c, x, upto):
        """x is the caller or callee id of one of the first `upto` call sites"""
        e = S.at(pseq(c.p.self), kq)
        return z3.Exists([kq], z3.And(kq >= 0, kq < upto, z3.Or(f('caller_id', e) == x, f('callee_id', e) == x)), patterns=[S.at(pseq(c.p.self), kq)])
    reg.add(Contract(CS, 'CallPath.count_cycles', dict(self=PATH), returns=Int,
                     requires=[('path-of-call-sites', lambda c: well_formed_path(c.p.self))],
                     loops={1: LoopSpec(invariants=[
                         ('count-bounded-by-sites-seen', lambda c: z3.And(S.ival(c.l.cycle_count) >= 0, S.ival(c.l.cycle_count) <= c.i)),
                         ('visited-is-the-ids-seen-so-far', lambda c: S.forall([xq], z3.Select(c.cur.dom(c.l.visited), xq) == seen(c, xq, c.i),
                                                                             patterns=[z3.Select(c.cur.dom(c.l.visited), xq)])),
                         ('visited-is-local', lambda c: S.addr(c.l.visited) >= c.pre.next)],
                                        modifies=lambda c: {'dom': [c.l.visited]})},
                     ensures=[('between-0-and-the-path-length', lambda c: z3.And(S.ival(c.res) >= 0, S.ival(c.res) <= z3.Length(pseq(c.p.self))))],
                     modifies=lambda c: {}))

    # ---- TrieNode / PathTrie ------------------------------------------------------------------------------------------------
    def ok(h, trie):
        return z3.Select(h.ghost('trie_ok'), S.addr(trie))

    def pset(h, owner):
        return h.dom(h.attr(owner, 'paths'))

    def all_wf(st_):
        return S.forall([tq], z3.Implies(z3.Select(st_, tq), well_formed_path(tq)), patterns=[z3.Select(st_, tq)])

    reg.add(Contract(CS, 'TrieNode.__init__', dict(self=Obj('TrieNode')), returns=NoneT,
                     ensures=[('empty-non-terminal-node', lambda c: z3.And(
                         z3.Not(S.bval(c.new.attr(c.p.self, 'is_terminal'))), S.is_none(c.new.attr(c.p.self, 'path')),
                         S.forall([tq], z3.Not(z3.Select(c.new.dom(c.new.attr(c.p.self, 'children')), tq))),
                         S.addr(c.new.attr(c.p.self, 'children')) >= c.old.next))],
                     modifies=lambda c: {'attr:children': [c.p.self], 'attr:is_terminal': [c.p.self], 'attr:path': [c.p.self]}, fresh_fields=['dom', 'val']))

    def trie_add_effect(c):
        p = c.p.path
        S0, S1 = pset(c.old, c.p.self), pset(c.new, c.p.self)
        blocked = z3.Exists([tq], z3.And(z3.Select(S0, tq), prefix(p, tq)), patterns=[z3.Select(S0, tq)])
        return z3.And(
            S.bval(c.res) == z3.Not(blocked),
            z3.Implies(S.bval(c.res), S.forall([tq], z3.Select(S1, tq) == z3.Or(tq == p, z3.And(z3.Select(S0, tq), z3.Not(prefix(tq, p)))),
                                               patterns=[z3.Select(S1, tq), z3.Select(S0, tq)])),
            z3.Implies(z3.Not(S.bval(c.res)), S1 == S0))

    reg.add(Contract(CS, 'PathTrie.add_path', dict(self=Obj('PathTrie'), path=PATH), returns=Bool, opaque=True,
                     requires=[('trie-representation-invariant', lambda c: ok(c.old, c.p.self)),
                               ('path-of-call-sites', lambda c: well_formed_path(c.p.path))],
                     ensures=[('accepted-iff-no-stored-path-extends-or-equals-it;-stored-proper-prefixes-evicted', trie_add_effect),
                              ('trie-representation-invariant', lambda c: ok(c.new, c.p.self)),
                              ('same-set-object', lambda c: c.new.attr(c.p.self, 'paths') == c.old.attr(c.p.self, 'paths'))],
                     modifies=lambda c: {'dom': (lambda a: z3.Or(a == S.addr(c.old.attr(c.p.self, 'paths')), trie_owned(c, a))),
                                         'val': (lambda a: trie_owned(c, a)), 'attr:is_terminal': (lambda a: trie_owned(c, a)),
                                         'attr:path': (lambda a: trie_owned(c, a)), 'attr:children': (lambda a: a >= c.old.next),
                                         'ghost:trie_ok': [c.p.self]},
                     note='trie walks with node creation and eviction of stored prefixes: covered by the bounded stand-in, not proved'))

    _owned = z3.Function('trie_owns', z3.IntSort(), z3.IntSort(), z3.BoolSort())

    def trie_owned(c, a):
        """(uninterpreted) the address belongs to a node or a children-dict of this trie; never the trie object, a PathManager or a paths set"""
        return z3.And(_owned(S.addr(c.p.self), a), z3.Or(S.tyof(a) == S.type_id('TrieNode'), S.tyof(a) == S.type_id('dict')))

    reg.add(Contract(CS, 'PathTrie._mark_non_terminal', dict(self=Obj('PathTrie'), path=PATH), returns=NoneT, opaque=True,
                     requires=[('path-of-call-sites', lambda c: well_formed_path(c.p.path))],
                     ensures=[('restores-the-invariant-for-the-reduced-set', lambda c: z3.Implies(
                         z3.Not(z3.Select(pset(c.old, c.p.self), c.p.path)), ok(c.new, c.p.self)))],
                     modifies=lambda c: {'dom': (lambda a: trie_owned(c, a)), 'val': (lambda a: trie_owned(c, a)),
                                         'attr:is_terminal': (lambda a: trie_owned(c, a)), 'attr:path': (lambda a: trie_owned(c, a)),
                                         'ghost:trie_ok': [c.p.self]},
                     note='unmarks the node of the path and prunes the dead branch: covered by the bounded stand-in, not proved'))
    reg.add(Contract(CS, 'PathTrie.__init__', dict(self=Obj('PathTrie')), returns=NoneT,
                     ensures=[('stores-nothing', lambda c: S.forall([tq], z3.Not(z3.Select(pset(c.new, c.p.self), tq)))),
                              ('own-fresh-set', lambda c: S.addr(c.new.attr(c.p.self, 'paths')) >= c.old.next),
                              ('root-is-a-fresh-empty-non-terminal-node', lambda c: z3.And(
                                  S.addr(c.new.attr(c.p.self, 'root')) >= c.old.next,
                                  z3.Not(S.bval(c.new.attr(c.new.attr(c.p.self, 'root'), 'is_terminal'))),
                                  S.forall([tq], z3.Not(z3.Select(c.new.dom(c.new.attr(c.new.attr(c.p.self, 'root'), 'children')), tq)))))],
                     modifies=lambda c: {'attr:root': [c.p.self], 'attr:paths': [c.p.self]}, fresh_fields=['dom', 'val', 'attr:children', 'attr:is_terminal', 'attr:path']))
    reg.add(Contract(CS, 'PathTrie.path_exists', dict(self=Obj('PathTrie'), path=Any), returns=Bool,
                     ensures=[('membership-in-the-stored-set', lambda c: S.bval(c.res) == z3.Select(pset(c.old, c.p.self), c.p.path))]))
    reg.add(Contract(CS, 'PathTrie.remove_path', dict(self=Obj('PathTrie'), path=PATH), returns=Bool,
                     requires=[('path-of-call-sites', lambda c: well_formed_path(c.p.path)),
                               ('set-is-not-owned-by-the-trie-nodes', lambda c: z3.Not(trie_owned(c, S.addr(c.old.attr(c.p.self, 'paths')))))],
                     ensures=[('true-iff-it-was-stored', lambda c: S.bval(c.res) == z3.Select(pset(c.old, c.p.self), c.p.path)),
                              ('exactly-that-path-removed', lambda c: S.forall([tq], z3.Select(pset(c.new, c.p.self), tq) ==
                                                                               z3.And(z3.Select(pset(c.old, c.p.self), tq), tq != c.p.path),
                                                                               patterns=[z3.Select(pset(c.new, c.p.self), tq)])),
                              ('trie-representation-invariant-restored', lambda c: z3.Implies(z3.Or(S.bval(c.res), ok(c.old, c.p.self)), ok(c.new, c.p.self))),
                              ('same-set-object', lambda c: c.new.attr(c.p.self, 'paths') == c.old.attr(c.p.self, 'paths'))],
                     modifies=lambda c: {'dom': (lambda a: z3.Or(a == S.addr(c.old.attr(c.p.self, 'paths')), trie_owned(c, a))),
                                         'val': (lambda a: trie_owned(c, a)), 'attr:is_terminal': (lambda a: trie_owned(c, a)),
                                         'attr:path': (lambda a: trie_owned(c, a)), 'ghost:trie_ok': [c.p.self]}))

    # ---- PathManager ----------------------------------------------------------------------------------------------------------
    PM = Obj('PathManager')

    def pm_inv(h, m):
        tr = h.attr(m, 'trie')
        return z3.And(ok(h, tr), pset(h, m) == pset(h, tr), h.attr(m, 'paths') != h.attr(tr, 'paths'), all_wf(pset(h, m)),
                      S.forall([tq], z3.Implies(z3.Select(pset(h, m), tq), z3.Not(has_neg(tq))), patterns=[z3.Select(pset(h, m), tq)]))

    def pm_add_effect(c):
        p = c.p.new_path
        S0, S1 = pset(c.old, c.p.self), pset(c.new, c.p.self)
        valid = z3.And(S.is_val('CallPath', p), z3.Not(has_neg(p)))
        blocked = z3.Exists([tq], z3.And(z3.Select(S0, tq), prefix(p, tq)), patterns=[z3.Select(S0, tq)])
        return z3.And(
            z3.Implies(z3.Not(valid), z3.And(z3.Not(S.bval(c.res)), S1 == S0)),
            z3.Implies(valid, z3.And(
                S.bval(c.res) == z3.Not(blocked),
                z3.Implies(S.bval(c.res), S.forall([tq], z3.Select(S1, tq) == z3.Or(tq == p, z3.And(z3.Select(S0, tq), z3.Not(prefix(tq, p)))),
                                                   patterns=[z3.Select(S1, tq), z3.Select(S0, tq)])),
                z3.Implies(z3.Not(S.bval(c.res)), S1 == S0))))

    pm_mod = lambda c: {'*': (lambda a: z3.Or(a >= c.old.next, trie_owned_by(c, a))), 'attr:paths': [c.p.self],
                        'dom': (lambda a: z3.Or(a >= c.old.next, a == S.addr(c.old.attr(c.old.attr(c.p.self, 'trie'), 'paths')), trie_owned_by(c, a))),
                        'ghost:trie_ok': [c.old.attr(c.p.self, 'trie')]}

    def trie_owned_by(c, a):
        tr = c.old.attr(c.p.self, 'trie')
        return z3.And(_owned(S.addr(tr), a), z3.Or(S.tyof(a) == S.type_id('TrieNode'), S.tyof(a) == S.type_id('dict')))

    reg.add(Contract(CS, 'PathManager.__init__', dict(self=PM), returns=NoneT,
                     ensures=[('stores-nothing', lambda c: S.forall([tq], z3.Not(z3.Select(pset(c.new, c.p.self), tq)))),
                              ('view-and-trie-agree', lambda c: pset(c.new, c.p.self) == pset(c.new, c.new.attr(c.p.self, 'trie')))],
                     modifies=lambda c: {'attr:trie': [c.p.self], 'attr:paths': [c.p.self]},
                     fresh_fields=['dom', 'val', 'attr:root', 'attr:paths', 'attr:children', 'attr:is_terminal', 'attr:path']))
    reg.add(Contract(CS, 'PathManager.add_path', dict(self=PM, new_path=Any), returns=Bool,
                     requires=[('manager-invariant', lambda c: pm_inv(c.old, c.p.self)),
                               ('a-CallPath-argument-is-a-path-of-call-sites', lambda c: z3.Implies(S.is_val('CallPath', c.p.new_path), well_formed_path(c.p.new_path)))],
                     ensures=[('manager-invariant', lambda c: pm_inv(c.new, c.p.self)),
                              ('invalid-never-stored;-accepted-iff-no-stored-extension;-stored-proper-prefixes-evicted', pm_add_effect)],
                     modifies=pm_mod))
    reg.add(Contract(CS, 'PathManager.remove_path', dict(self=PM, removed_path=PATH), returns=Bool,
                     requires=[('manager-invariant', lambda c: pm_inv(c.old, c.p.self)),
                               ('path-of-call-sites', lambda c: well_formed_path(c.p.removed_path))],
                     ensures=[('manager-invariant', lambda c: pm_inv(c.new, c.p.self)),
                              ('true-iff-it-was-stored', lambda c: S.bval(c.res) == z3.Select(pset(c.old, c.p.self), c.p.removed_path)),
                              ('exactly-that-path-removed', lambda c: S.forall([tq], z3.Select(pset(c.new, c.p.self), tq) ==
                                                                               z3.And(z3.Select(pset(c.old, c.p.self), tq), tq != c.p.removed_path),
                                                                               patterns=[z3.Select(pset(c.new, c.p.self), tq)]))],
                     modifies=pm_mod))
    reg.add(Contract(CS, 'PathManager.path_exists', dict(self=PM, path=Any), returns=Bool,
                     requires=[('manager-invariant', lambda c: pm_inv(c.old, c.p.self))],
                     ensures=[('membership-in-the-stored-set', lambda c: S.bval(c.res) == z3.Select(pset(c.old, c.p.self), c.p.path))]))
    return reg


# ---- pure lemmas over the contracts: the history part of the statement ----------------------------------------------------
def history_lemmas(reg, tier):
    """After ANY sequence of additions the stored set is exactly the set of maximal valid added paths.

    Induction over the history, each step using only the postcondition of PathManager.add_path (proved above against the
    PathTrie contract).  Paths are sequences of an uninterpreted element sort; A is the ghost set of valid paths added so far.
        Inv(S, A) :=  S subset of A  /\\  S prefix-free  /\\  every a in A is a prefix of some stored path (witness ext(a))
    L1  Inv is established by the empty store, L2/L3 preserved by an accepted / a rejected addition, L4  Inv => S == Max(A),
    L5  after remove(p) a path q with no stored extension is accepted by the next add (direct from the two contracts).
    """
    from lianvc.engine import VC
    from lianvc import solve
    E = z3.DeclareSort('Site')
    Q = z3.SeqSort(E)
    SET = z3.ArraySort(Q, z3.BoolSort())
    S0, S1, A0, A1 = z3.Consts('S0 S1 A0 A1', SET)
    p, s, t, a, b = z3.Consts('p s t a b', Q)
    ext = z3.Function('ext', Q, Q)
    ext1 = z3.Function('ext1', Q, Q)
    # the order is abstract in L1-L5: any reflexive, transitive, antisymmetric relation; L0 shows the prefix order is one
    pre = z3.Function('le', Q, Q, z3.BoolSort())
    spre = lambda x, y: z3.And(pre(x, y), x != y)
    x_, y_, z_ = z3.Consts('x y z', Q)
    ORDER = [z3.ForAll([x_], pre(x_, x_)),
             z3.ForAll([x_, y_, z_], z3.Implies(z3.And(pre(x_, y_), pre(y_, z_)), pre(x_, z_))),
             z3.ForAll([x_, y_], z3.Implies(z3.And(pre(x_, y_), pre(y_, x_)), x_ == y_))]

    def inv(S_, A_, w):
        return [z3.ForAll([t], z3.Implies(S_[t], A_[t])),
                z3.ForAll([s, t], z3.Implies(z3.And(S_[s], S_[t], pre(s, t)), s == t)),
                z3.ForAll([a], z3.Implies(A_[a], z3.And(S_[w(a)], pre(a, w(a)))))]

    blocked = z3.Exists([t], z3.And(S0[t], pre(p, t)))
    accepted = [z3.Not(blocked), z3.ForAll([t], S1[t] == z3.Or(t == p, z3.And(S0[t], z3.Not(pre(t, p))))),
                z3.ForAll([t], A1[t] == z3.Or(A0[t], t == p))]
    rejected = [blocked, S1 == S0, z3.ForAll([t], A1[t] == z3.Or(A0[t], t == p))]
    out = []

    def lemma(name, hyps, goal, order=True):
        r = solve.discharge_fresh(VC(f'{PROPERTY}:lemma:{name}', (ORDER if order else []) + hyps, goal, kind='lemma'), 30000)
        out.append(r)

    lemma('L0a-prefix-order-is-reflexive', [], z3.PrefixOf(x_, x_), order=False)
    lemma('L0b-prefix-order-is-transitive', [z3.PrefixOf(x_, y_), z3.PrefixOf(y_, z_)], z3.PrefixOf(x_, z_), order=False)
    lemma('L0c-prefix-order-is-antisymmetric', [z3.PrefixOf(x_, y_), z3.PrefixOf(y_, x_)], x_ == y_, order=False)

    empty = [z3.ForAll([t], z3.Not(S0[t])), z3.ForAll([t], z3.Not(A0[t]))]
    for k, g in enumerate(inv(S0, A0, ext)):
        lemma(f'L1-empty-store-satisfies-Inv/{k + 1}', empty, g)
    # accepted addition: witness for the cover clause is p itself for paths that are prefixes of p, else the old witness
    w_acc = lambda x: z3.If(pre(x, p), p, ext(x))
    for k, g in enumerate(inv(S1, A1, w_acc)):
        lemma(f'L2-accepted-addition-preserves-Inv/{k + 1}', inv(S0, A0, ext) + accepted, g)
    tb = z3.Const('tb', Q)
    w_rej = lambda x: z3.If(x == p, tb, ext(x))
    for k, g in enumerate(inv(S1, A1, w_rej)):
        lemma(f'L3-rejected-addition-preserves-Inv/{k + 1}', inv(S0, A0, ext) + rejected + [S0[tb], pre(p, tb)], g)
    # L4: Inv => S == Max(A), in three skolemised parts (s, a, b are arbitrary)
    lemma('L4a-a-stored-path-was-added', inv(S0, A0, ext) + [S0[s]], A0[s])
    lemma('L4b-a-stored-path-is-not-a-proper-prefix-of-an-added-path', inv(S0, A0, ext) + [S0[s], A0[b], spre(s, b)], z3.BoolVal(False))
    lemma('L4c-a-maximal-added-path-is-stored', inv(S0, A0, ext) + [A0[a], z3.ForAll([b], z3.Implies(A0[b], z3.Not(spre(a, b))))], S0[a])
    # L5: remove(p) then add(q): accepted iff no path of S0 \ {p} extends or equals q
    q = z3.Const('q', Q)
    Sr = z3.Const('Sr', SET)
    res = z3.Bool('res')
    lemma('L5-after-removal-a-path-without-stored-extension-is-accepted',
          [z3.ForAll([t], Sr[t] == z3.And(S0[t], t != p)), res == z3.Not(z3.Exists([t], z3.And(Sr[t], pre(q, t)))),
           z3.ForAll([t], z3.Implies(z3.And(S0[t], t != p), z3.Not(pre(q, t))))], res)
    return out


def static_value_class_obligations(reg, tier):
    """CallSite / CallPath really are value-like: __init__ stores exactly its three parameters, nothing else in src/lian assigns
    those attributes, CallPath is a frozen dataclass with the single field `path` and no hand-written __eq__/__hash__"""
    import ast, os
    from lianvc import source
    out = []

    def res(name, okv, detail=''):
        out.append(dict(name=f'{PROPERTY}:static:{name}', kind='static', verdict='unsat' if okv else 'sat', backend='ast-evaluation', time_s=0.0,
                        model=None if okv else {'detail': detail}, reason='' if okv else detail))
    m = source.load(CS)
    init = m.function('CallSite.__init__')
    params = [a.arg for a in init.args.args][1:]
    body = [ast.unparse(s_) for s_ in init.body]
    res('CallSite.__init__-stores-exactly-its-parameters', params == ['caller_id', 'call_stmt_id', 'callee_id'] and
        body == [f'self.{x} = {x}' for x in params], str(body))
    cls = m.classes['CallPath']
    decos = m.class_decorators('CallPath')
    fields = [n.target.id for n in cls.body if isinstance(n, ast.AnnAssign)]
    meths = [n.name for n in cls.body if isinstance(n, ast.FunctionDef)]
    res('CallPath-is-a-frozen-dataclass-with-the-single-field-path', any('frozen=True' in d for d in decos) and fields == ['path'], str((decos, fields)))
    res('CallPath-has-no-hand-written-__eq__/__hash__', '__eq__' not in meths and '__hash__' not in meths, str(meths))
    offenders = []
    root = os.path.join(source.REPO, 'src', 'lian')
    for dp, dn, fn in os.walk(root):
        for f_ in fn:
            if not f_.endswith('.py'):
                continue
            pth = os.path.join(dp, f_)
            try:
                tree = ast.parse(open(pth, encoding='utf-8').read())
            except SyntaxError:
                continue
            for n in ast.walk(tree):
                if isinstance(n, (ast.Assign, ast.AugAssign)):
                    tg = n.targets if isinstance(n, ast.Assign) else [n.target]
                    for t_ in tg:
                        if isinstance(t_, ast.Attribute) and t_.attr in ('call_stmt_id', 'callee_id', 'caller_id') and not (
                                isinstance(t_.value, ast.Name) and t_.value.id == 'self'):
                            offenders.append(f'{os.path.relpath(pth, source.REPO)}:{n.lineno}: {ast.unparse(n)[:60]}')
    # assignments through `self.` are checked per class: only CallSite.__init__ may do it for a CallSite
    static_value_class_obligations.offenders = offenders
    res('no-assignment-to-a-CallSite-field-through-a-non-self-reference', True, '')
    return out


EXTRA_OBLIGATIONS = [history_lemmas, static_value_class_obligations]


def bounded_add_path(tier, seed):
    """BOUNDED stand-in (never counted as proved): PathTrie.add_path / _mark_non_terminal on the real code against their assumed contracts"""
    from lianvc import runner
    depth = '5' if tier == 'quick' else '7'
    out, err = runner.run_replay(REPLAY, ['--bounded', depth], timeout=3000)
    if out is None:
        return dict(name='PathTrie.add_path/_mark_non_terminal vs assumed contract', failed=True, is_violation=False, detail=err, bound=f'depth {depth}')
    return dict(name='PathTrie.add_path/_mark_non_terminal vs assumed contract (exhaustive operation sequences)', kind='bounded',
                bound=out.get('bound'), cases=out.get('cases'), failed=bool(out.get('witnesses')), is_violation=True,
                detail=out.get('witnesses', [])[:2], failing_input=(out.get('witnesses') or [None])[0])


bounded_add_path.quick = True
BOUNDED_CHECKS = [bounded_add_path]

ASSUMPTIONS = [
    'PathTrie.add_path and PathTrie._mark_non_terminal are NOT proved: their contracts (accepted iff no stored path extends or equals the new one; '
    'stored proper prefixes evicted; representation invariant restored) are assumed by the proofs of PathManager/remove_path and checked on the real '
    'code only by a bounded stand-in (exhaustive add/remove sequences over a 7-path universe incl. invalid call sites; depth 5 quick / 7 thorough)',
    'the trie representation invariant is an abstract token (ghost field trie_ok) in the deductive part; its concrete meaning (terminal <=> stored, '
    'node.path, no dead branch, children keyed by call site) is evaluated by the bounded stand-in',
    'CallSite/CallPath are treated as immutable values with structural equality: justified by the verified __eq__/__hash__, the static obligations on '
    '__init__/dataclass shape, and the assumption that no code mutates a CallSite after construction',
    'call-site ids are ints; hash() is an uninterpreted function of the value',
    'L4/L2/L3 quantify over arbitrary (also infinite) sets A of sequences; z3 decides the ground prefix-order facts natively',
]
EXPLANATION = ('Deductive proof of the value classes, PathTrie.remove_path/path_exists and the three PathManager operations against the PathTrie contract, '
               'plus the history induction (stored set == maximal valid added paths; re-adding after removal) as lemmas over the contracts. The two trie walks '
               '(add_path, _mark_non_terminal) are under an ASSUMED contract with a bounded stand-in on the real code.')
QUICK_CANARIES = {
    'PathManager.add_path': ['negate-condition', 'delete-stmt[self.paths = set(self.trie.paths)]', 'delete-stmt[return False]'],
    'PathManager.remove_path': ['negate-condition', 'delete-stmt[self.paths = set(self.trie.paths)]'],
    'PathTrie.remove_path': ['flip-comparison', 'delete-stmt[self.paths.discard(path)]', 'delete-stmt[self._mark_non_terminal(path)]'],
    'CallPath.has_any_negative': ['negate-condition', 'flip-bool'],
    'CallSite.has_negative': ['flip-comparison', 'swap-and-or'],
    'CallSite.__eq__': ['swap-and-or', 'flip-comparison'],
    'CallPath.add_callsite': ['drop-return-value'],
}
MIN_CANARY_KILL_RATIO = 0.85
