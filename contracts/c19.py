"""C19 — The call-path store keeps exactly the maximal paths.

Deductively verified (real source, src/lian/common_structs.py):
  CallSite.{__eq__, __hash__, has_negative, is_entry_point, to_tuple}, CallPath.{__len__, get_length, __contains__, __getitem__, to_tuple,
  has_any_negative, add_call, add_callsite, count_cycles}, TrieNode.__init__, PathTrie.{__init__, path_exists, remove_path},
  PathManager.{__init__, add_path, remove_path, path_exists}
  + pure lemmas over the contracts (prefix-freeness and "stored set == maximal added valid paths" are inductive over any history).
Contract assumed for PathTrie.add_path and PathTrie._mark_non_terminal (trie walks with node creation/pruning); those two are covered by a
BOUNDED stand-in on the real code (replay/c19_replay.py --bounded; exhaustive operation sequences, bound stated in the evidence) and are
never counted as proved.
"""
import z3
from lianvc import sorts as S
from lianvc.sorts import Any, Int, Bool, Str, NoneT, Opt, List, Dict, Set, Tuple, TupleOf, Obj, Val, Fn
from lianvc.contracts import Contract, ClassInfo, LoopSpec, Registry
from lianvc.engine import V, Outcome, Unsupported

PROPERTY = 'C19'
REPLAY = 'c19_replay.py'
CS = 'src/lian/common_structs.py'

SITE = Val('CallSite')
PATH = Val('CallPath')


def neg(cs):
    return z3.Or(S.ival(S.vfield('CallSite', 'caller_id', cs)) < 0, S.ival(S.vfield('CallSite', 'call_stmt_id', cs)) < 0,
                 S.ival(S.vfield('CallSite', 'callee_id', cs)) < 0)


def pseq(p):
    """the sequence of call sites of a CallPath value"""
    return S.items(S.vfield('CallPath', 'path', p))


def well_formed_path(p):
    """a CallPath whose path is a tuple of CallSite values with int fields"""
    i = z3.Int('wi')
    e = S.at(pseq(p), i)
    return z3.And(S.is_val('CallPath', p), S.is_tup(S.vfield('CallPath', 'path', p)),
                  z3.ForAll([i], z3.Implies(z3.And(i >= 0, i < z3.Length(pseq(p))),
                                            z3.And(S.is_val('CallSite', e), S.is_int(S.vfield('CallSite', 'caller_id', e)),
                                                   S.is_int(S.vfield('CallSite', 'call_stmt_id', e)), S.is_int(S.vfield('CallSite', 'callee_id', e)))),
                            patterns=[S.at(pseq(p), i)]))


def has_neg(p):
    i = z3.Int('ni')
    return z3.Exists([i], z3.And(i >= 0, i < z3.Length(pseq(p)), neg(S.at(pseq(p), i))), patterns=[S.at(pseq(p), i)])


def prefix(p, q):
    """p is a (not necessarily proper) prefix of q — on CallPath values"""
    return z3.PrefixOf(pseq(p), pseq(q))


tq, uq = z3.Consts('t u', S.PyObj())


def build():
    reg = Registry()
    reg.add_class(ClassInfo('CallSite', CS, dict(caller_id=Int, call_stmt_id=Int, callee_id=Int), kind='value',
                            ctor_params=['caller_id', 'call_stmt_id', 'callee_id']))
    reg.add_class(ClassInfo('CallPath', CS, dict(path=TupleOf(SITE)), kind='value', ctor_params=['path']))
    reg.add_class(ClassInfo('TrieNode', CS, dict(children=Dict(SITE, Obj('TrieNode')), is_terminal=Bool, path=Opt(PATH))))
    reg.add_class(ClassInfo('PathTrie', CS, dict(root=Obj('TrieNode'), paths=Set(PATH))))
    reg.add_class(ClassInfo('PathManager', CS, dict(trie=Obj('PathTrie'), paths=Set(PATH))))
    S.GHOST = None
    from lianvc import engine
    engine.GHOST_FIELD_SORTS['ghost:trie_ok'] = lambda: z3.ArraySort(z3.IntSort(), z3.BoolSort())

    f = lambda n, x: S.vfield('CallSite', n, x)
    # ---- CallSite -------------------------------------------------------------------------------------------------------
    reg.add(Contract(CS, 'CallSite.__eq__', dict(self=SITE, other=Any), returns=Bool,
                     ensures=[('field-wise-equality-with-another-CallSite-only', lambda c: S.bval(c.res) == (c.p.self == c.p.other))]))
    hf = z3.Function('py_hash', S.PyObj(), z3.IntSort())
    reg.add(Contract(CS, 'CallSite.__hash__', dict(self=SITE), returns=Int,
                     ensures=[('function-of-the-three-fields', lambda c: S.ival(c.res) == hf(S.mk_tup(S.seq_of(
                         f('caller_id', c.p.self), f('call_stmt_id', c.p.self), f('callee_id', c.p.self)))))]))
    reg.add(Contract(CS, 'CallSite.has_negative', dict(self=SITE), returns=Bool,
                     ensures=[('some-id-negative', lambda c: S.bval(c.res) == neg(c.p.self))]))
    reg.add(Contract(CS, 'CallSite.to_tuple', dict(self=SITE), returns=Tuple(Int, Int, Int),
                     ensures=[('the-three-fields', lambda c: S.items(c.res) == S.seq_of(f('caller_id', c.p.self), f('call_stmt_id', c.p.self),
                                                                                        f('callee_id', c.p.self)))]))
    # ---- CallPath -------------------------------------------------------------------------------------------------------
    for nm in ('__len__', 'get_length'):
        reg.add(Contract(CS, 'CallPath.' + nm, dict(self=PATH), returns=Int,
                         ensures=[('length-of-the-path', lambda c: S.ival(c.res) == z3.Length(pseq(c.p.self)))]))
    reg.add(Contract(CS, 'CallPath.__contains__', dict(self=PATH, item=Any), returns=Bool,
                     ensures=[('membership-in-the-path', lambda c: S.bval(c.res) == S.member(pseq(c.p.self), c.p.item))]))
    reg.add(Contract(CS, 'CallPath.to_tuple', dict(self=PATH), returns=TupleOf(SITE),
                     ensures=[('the-path', lambda c: c.res == S.vfield('CallPath', 'path', c.p.self))]))
    reg.add(Contract(CS, 'CallPath.has_any_negative', dict(self=PATH), returns=Bool,
                     requires=[('path-of-call-sites', lambda c: well_formed_path(c.p.self))],
                     loops={1: LoopSpec(invariants=[('no-negative-site-so-far', lambda c: z3.ForAll([z3.Int('k')], z3.Implies(
                         z3.And(z3.Int('k') >= 0, z3.Int('k') < c.i), z3.Not(neg(S.at(pseq(c.p.self), z3.Int('k'))))), patterns=[S.at(pseq(c.p.self), z3.Int('k'))]))])},
                     ensures=[('true-iff-some-site-has-a-negative-id', lambda c: S.bval(c.res) == has_neg(c.p.self))]))
    reg.add(Contract(CS, 'CallPath.add_callsite', dict(self=PATH, callsite=SITE), returns=PATH,
                     ensures=[('new-path-extended-by-one-site', lambda c: pseq(c.res) == z3.Concat(pseq(c.p.self), z3.Unit(c.p.callsite))),
                              ('is-a-CallPath-tuple', lambda c: S.is_tup(S.vfield('CallPath', 'path', c.res)))]))
    reg.add(Contract(CS, 'CallPath.add_call', dict(self=PATH, caller_id=Int, call_stmt_id=Int, callee_id=Int), returns=PATH,
                     ensures=[('extended-by-CallSite(caller,stmt,callee)', lambda c: pseq(c.res) == z3.Concat(
                         pseq(c.p.self), z3.Unit(S.mk_val('CallSite', c.p.caller_id, c.p.call_stmt_id, c.p.callee_id))))]))
    kq = z3.Int('k')
    xq = z3.Const('x', S.PyObj())

    def seen(c, x, upto):
        """x is the caller or callee id of one of the first `upto` call sites"""
        e = S.at(pseq(c.p.self), kq)
        return z3.Exists([kq], z3.And(kq >= 0, kq < upto, z3.Or(f('caller_id', e) == x, f('callee_id', e) == x)), patterns=[S.at(pseq(c.p.self), kq)])
    reg.add(Contract(CS, 'CallPath.count_cycles', dict(self=PATH), returns=Int,
                     requires=[('path-of-call-sites', lambda c: well_formed_path(c.p.self))],
                     loops={1: LoopSpec(invariants=[
                         ('count-bounded-by-sites-seen', lambda c: z3.And(S.ival(c.l.cycle_count) >= 0, S.ival(c.l.cycle_count) <= c.i)),
                         ('visited-is-the-ids-seen-so-far', lambda c: S.forall([xq], z3.Select(c.cur.dom(c.l.visited), xq) == seen(c, xq, c.i),
                                                                             patterns=[z3.Select(c.cur.dom(c.l.visited), xq)])),
                         ('visited-is-local', lambda c: S.addr(c.l.visited) >= c.pre.next)])},
                     ensures=[('between-0-and-the-path-length', lambda c: z3.And(S.ival(c.res) >= 0, S.ival(c.res) <= z3.Length(pseq(c.p.self))))],
                     modifies=lambda c: {}))

    # ---- TrieNode / PathTrie ------------------------------------------------------------------------------------------------
    def ok(h, trie):
        return z3.Select(h.ghost('trie_ok'), S.addr(trie))

    def pset(h, owner):
        return h.dom(h.attr(owner, 'paths'))

    def all_wf(st_):
        return S.forall([tq], z3.Implies(z3.Select(st_, tq), well_formed_path(tq)), patterns=[z3.Select(st_, tq)])

    reg.add(Contract(CS, 'TrieNode.__init__', dict(self=Obj('TrieNode')), returns=NoneT,
                     ensures=[('empty-non-terminal-node', lambda c: z3.And(
                         z3.Not(S.bval(c.new.attr(c.p.self, 'is_terminal'))), S.is_none(c.new.attr(c.p.self, 'path')),
                         S.forall([tq], z3.Not(z3.Select(c.new.dom(c.new.attr(c.p.self, 'children')), tq))),
                         S.addr(c.new.attr(c.p.self, 'children')) >= c.old.next))],
                     modifies=lambda c: {'attr:children': [c.p.self], 'attr:is_terminal': [c.p.self], 'attr:path': [c.p.self]}, fresh_fields=['dom', 'val']))

    def trie_add_effect(c):
        p = c.p.path
        S0, S1 = pset(c.old, c.p.self), pset(c.new, c.p.self)
        blocked = z3.Exists([tq], z3.And(z3.Select(S0, tq), prefix(p, tq)), patterns=[z3.Select(S0, tq)])
        return z3.And(
            S.bval(c.res) == z3.Not(blocked),
            z3.Implies(S.bval(c.res), S.forall([tq], z3.Select(S1, tq) == z3.Or(tq == p, z3.And(z3.Select(S0, tq), z3.Not(prefix(tq, p)))),
                                               patterns=[z3.Select(S1, tq), z3.Select(S0, tq)])),
            z3.Implies(z3.Not(S.bval(c.res)), S1 == S0))

    reg.add(Contract(CS, 'PathTrie.add_path', dict(self=Obj('PathTrie'), path=PATH), returns=Bool, opaque=True,
                     requires=[('trie-representation-invariant', lambda c: ok(c.old, c.p.self)),
                               ('path-of-call-sites', lambda c: well_formed_path(c.p.path))],
                     ensures=[('accepted-iff-no-stored-path-extends-or-equals-it;-stored-proper-prefixes-evicted', trie_add_effect),
                              ('trie-representation-invariant', lambda c: ok(c.new, c.p.self)),
                              ('same-set-object', lambda c: c.new.attr(c.p.self, 'paths') == c.old.attr(c.p.self, 'paths'))],
                     modifies=lambda c: {'dom': (lambda a: z3.Or(a == S.addr(c.old.attr(c.p.self, 'paths')), trie_owned(c, a))),
                                         'val': (lambda a: trie_owned(c, a)), 'attr:is_terminal': (lambda a: trie_owned(c, a)),
                                         'attr:path': (lambda a: trie_owned(c, a)), 'attr:children': (lambda a: a >= c.old.next),
                                         'ghost:trie_ok': [c.p.self]},
                     note='trie walks with node creation and eviction of stored prefixes: covered by the bounded stand-in, not proved'))

    _owned = z3.Function('trie_owns', z3.IntSort(), z3.IntSort(), z3.BoolSort())

    def trie_owned(c, a):
        """(uninterpreted) the address belongs to a node or a children-dict of this trie; never the trie object, a PathManager or a paths set"""
        return z3.And(_owned(S.addr(c.p.self), a), S.tyof(a) != S.type_id('PathTrie'), S.tyof(a) != S.type_id('PathManager'),
                      S.tyof(a) != S.type_id('set'))

    reg.add(Contract(CS, 'PathTrie._mark_non_terminal', dict(self=Obj('PathTrie'), path=PATH), returns=NoneT, opaque=True,
                     requires=[('path-of-call-sites', lambda c: well_formed_path(c.p.path))],
                     ensures=[('restores-the-invariant-for-the-reduced-set', lambda c: z3.Implies(
                         z3.Not(z3.Select(pset(c.old, c.p.self), c.p.path)), ok(c.new, c.p.self)))],
                     modifies=lambda c: {'dom': (lambda a: trie_owned(c, a)), 'val': (lambda a: trie_owned(c, a)),
                                         'attr:is_terminal': (lambda a: trie_owned(c, a)), 'attr:path': (lambda a: trie_owned(c, a)),
                                         'ghost:trie_ok': [c.p.self]},
                     note='unmarks the node of the path and prunes the dead branch: covered by the bounded stand-in, not proved'))
    reg.add(Contract(CS, 'PathTrie.__init__', dict(self=Obj('PathTrie')), returns=NoneT,
                     ensures=[('stores-nothing', lambda c: S.forall([tq], z3.Not(z3.Select(pset(c.new, c.p.self), tq)))),
                              ('own-fresh-set', lambda c: S.addr(c.new.attr(c.p.self, 'paths')) >= c.old.next)],
                     modifies=lambda c: {'attr:root': [c.p.self], 'attr:paths': [c.p.self]}, fresh_fields=['dom', 'val', 'attr:children', 'attr:is_terminal', 'attr:path']))
    reg.add(Contract(CS, 'PathTrie.path_exists', dict(self=Obj('PathTrie'), path=Any), returns=Bool,
                     ensures=[('membership-in-the-stored-set', lambda c: S.bval(c.res) == z3.Select(pset(c.old, c.p.self), c.p.path))]))
    reg.add(Contract(CS, 'PathTrie.remove_path', dict(self=Obj('PathTrie'), path=PATH), returns=Bool,
                     requires=[('path-of-call-sites', lambda c: well_formed_path(c.p.path)),
                               ('set-is-not-owned-by-the-trie-nodes', lambda c: z3.Not(trie_owned(c, S.addr(c.old.attr(c.p.self, 'paths')))))],
                     ensures=[('true-iff-it-was-stored', lambda c: S.bval(c.res) == z3.Select(pset(c.old, c.p.self), c.p.path)),
                              ('exactly-that-path-removed', lambda c: S.forall([tq], z3.Select(pset(c.new, c.p.self), tq) ==
                                                                               z3.And(z3.Select(pset(c.old, c.p.self), tq), tq != c.p.path),
                                                                               patterns=[z3.Select(pset(c.new, c.p.self), tq)])),
                              ('trie-representation-invariant-restored', lambda c: z3.Implies(z3.Or(S.bval(c.res), ok(c.old, c.p.self)), ok(c.new, c.p.self))),
                              ('same-set-object', lambda c: c.new.attr(c.p.self, 'paths') == c.old.attr(c.p.self, 'paths'))],
                     modifies=lambda c: {'dom': (lambda a: z3.Or(a == S.addr(c.old.attr(c.p.self, 'paths')), trie_owned(c, a))),
                                         'val': (lambda a: trie_owned(c, a)), 'attr:is_terminal': (lambda a: trie_owned(c, a)),
                                         'attr:path': (lambda a: trie_owned(c, a)), 'ghost:trie_ok': [c.p.self]}))

    # ---- PathManager ----------------------------------------------------------------------------------------------------------
    PM = Obj('PathManager')

    def pm_inv(h, m):
        tr = h.attr(m, 'trie')
        return z3.And(ok(h, tr), pset(h, m) == pset(h, tr), h.attr(m, 'paths') != h.attr(tr, 'paths'),
                      z3.Not(_owned(S.addr(tr), S.addr(h.attr(m, 'paths')))), all_wf(pset(h, m)),
                      S.forall([tq], z3.Implies(z3.Select(pset(h, m), tq), z3.Not(has_neg(tq))), patterns=[z3.Select(pset(h, m), tq)]))

    def pm_add_effect(c):
        p = c.p.new_path
        S0, S1 = pset(c.old, c.p.self), pset(c.new, c.p.self)
        valid = z3.And(S.is_val('CallPath', p), z3.Not(has_neg(p)))
        blocked = z3.Exists([tq], z3.And(z3.Select(S0, tq), prefix(p, tq)), patterns=[z3.Select(S0, tq)])
        return z3.And(
            z3.Implies(z3.Not(valid), z3.And(z3.Not(S.bval(c.res)), S1 == S0)),
            z3.Implies(valid, z3.And(
                S.bval(c.res) == z3.Not(blocked),
                z3.Implies(S.bval(c.res), S.forall([tq], z3.Select(S1, tq) == z3.Or(tq == p, z3.And(z3.Select(S0, tq), z3.Not(prefix(tq, p)))),
                                                   patterns=[z3.Select(S1, tq), z3.Select(S0, tq)])),
                z3.Implies(z3.Not(S.bval(c.res)), S1 == S0))))

    pm_mod = lambda c: {'*': (lambda a: z3.Or(a >= c.old.next, trie_owned_by(c, a))), 'attr:paths': [c.p.self],
                        'dom': (lambda a: z3.Or(a >= c.old.next, a == S.addr(c.old.attr(c.old.attr(c.p.self, 'trie'), 'paths')), trie_owned_by(c, a))),
                        'ghost:trie_ok': [c.old.attr(c.p.self, 'trie')]}

    def trie_owned_by(c, a):
        tr = c.old.attr(c.p.self, 'trie')
        return z3.And(_owned(S.addr(tr), a), S.tyof(a) != S.type_id('PathTrie'), S.tyof(a) != S.type_id('PathManager'), S.tyof(a) != S.type_id('set'))

    reg.add(Contract(CS, 'PathManager.__init__', dict(self=PM), returns=NoneT,
                     ensures=[('stores-nothing', lambda c: S.forall([tq], z3.Not(z3.Select(pset(c.new, c.p.self), tq)))),
                              ('view-and-trie-agree', lambda c: pset(c.new, c.p.self) == pset(c.new, c.new.attr(c.p.self, 'trie')))],
                     modifies=lambda c: {'attr:trie': [c.p.self], 'attr:paths': [c.p.self]},
                     fresh_fields=['dom', 'val', 'attr:root', 'attr:paths', 'attr:children', 'attr:is_terminal', 'attr:path']))
    reg.add(Contract(CS, 'PathManager.add_path', dict(self=PM, new_path=Any), returns=Bool,
                     requires=[('manager-invariant', lambda c: pm_inv(c.old, c.p.self)),
                               ('a-CallPath-argument-is-a-path-of-call-sites', lambda c: z3.Implies(S.is_val('CallPath', c.p.new_path), well_formed_path(c.p.new_path)))],
                     ensures=[('manager-invariant', lambda c: pm_inv(c.new, c.p.self)),
                              ('invalid-never-stored;-accepted-iff-no-stored-extension;-stored-proper-prefixes-evicted', pm_add_effect)],
                     modifies=pm_mod))
    reg.add(Contract(CS, 'PathManager.remove_path', dict(self=PM, removed_path=PATH), returns=Bool,
                     requires=[('manager-invariant', lambda c: pm_inv(c.old, c.p.self)),
                               ('path-of-call-sites', lambda c: well_formed_path(c.p.removed_path))],
                     ensures=[('manager-invariant', lambda c: pm_inv(c.new, c.p.self)),
                              ('true-iff-it-was-stored', lambda c: S.bval(c.res) == z3.Select(pset(c.old, c.p.self), c.p.removed_path)),
                              ('exactly-that-path-removed', lambda c: S.forall([tq], z3.Select(pset(c.new, c.p.self), tq) ==
                                                                               z3.And(z3.Select(pset(c.old, c.p.self), tq), tq != c.p.removed_path),
                                                                               patterns=[z3.Select(pset(c.new, c.p.self), tq)]))],
                     modifies=pm_mod))
    reg.add(Contract(CS, 'PathManager.path_exists', dict(self=PM, path=Any), returns=Bool,
                     requires=[('manager-invariant', lambda c: pm_inv(c.old, c.p.self))],
                     ensures=[('membership-in-the-stored-set', lambda c: S.bval(c.res) == z3.Select(pset(c.old, c.p.self), c.p.path))]))
    return reg
