"""Contracts and trusted specifications shared by several properties."""
import z3
from lianvc import sorts as S
from lianvc.sorts import Any, Int, Bool, Str, NoneT, Opt, List, Dict, Set, Tuple, TupleOf, Obj, Val, Fn
from lianvc.contracts import Contract, ClassInfo, LoopSpec, Registry
from lianvc.engine import V, Outcome, Unsupported

UTIL = 'src/lian/util/util.py'

_is_nan = None


def is_nan(x):
    """uninterpreted: the float token x is NaN"""
    global _is_nan
    if _is_nan is None:
        _is_nan = z3.Function('is_nan', S.PyObj(), z3.BoolSort())
    return _is_nan(x)


def is_lib_array(x):
    return z3.And(S.is_ref(x), z3.Or(S.tyof(S.addr(x)) == S.type_id('DataFrame'), S.tyof(S.addr(x)) == S.type_id('ndarray')))


def empty(x, h):
    """spec of util.is_empty for everything but pandas/numpy containers:
    None, NaN, and falsy non-numbers are empty; ints (also 0) and bools are not"""
    a = S.addr(x)
    k = z3.Const('ek', S.PyObj())
    is_cls = lambda n: z3.And(S.is_ref(x), S.tyof(a) == S.type_id(n))
    return z3.If(S.is_none(x), True,
           z3.If(z3.Or(S.is_int(x), S.is_bool(x)), False,
           z3.If(S.is_flt(x), is_nan(x),
           z3.If(S.is_str(x), z3.Length(S.sval(x)) == 0,
           z3.If(S.is_tup(x), z3.Length(S.items(x)) == 0,
           z3.If(is_cls('list'), z3.Length(h.list(x)) == 0,
           z3.If(z3.Or(is_cls('dict'), is_cls('set')), z3.Not(z3.Exists([k], z3.Select(h.dom(x), k))), False)))))))


def register_util(reg: Registry):
    for n in ('DataFrame', 'ndarray'):
        if n not in reg.classes:
            reg.add_class(ClassInfo(n, UTIL, {}))

    @reg.extern('math.isnan')
    def _isnan(ex, st, node, args, kwargs):
        x = args[0]
        if x.ty.kind == 'int' or x.ty.kind == 'bool':
            return V(S.mk_bool(False), Bool)
        return V(S.mk_bool(z3.If(S.is_flt(x.t), is_nan(x.t), False)), Bool)

    not_lib = ('not-a-pandas-or-numpy-container', lambda c: z3.Not(is_lib_array(c.p.element)))
    reg.add(Contract(UTIL, 'is_empty', dict(element=Any), returns=Bool, requires=[not_lib],
                     ensures=[('none-nan-or-falsy-non-number', lambda c: S.bval(c.res) == empty(c.p.element, c.old))]))
    reg.add(Contract(UTIL, 'isna', dict(element=Any), returns=Bool,
                     ensures=[('none-nan-or-falsy-non-number', lambda c: S.bval(c.res) == empty(c.p.element, c.old))]))
    reg.add(Contract(UTIL, 'is_none', dict(element=Any), returns=Bool, requires=[not_lib],
                     ensures=[('same-as-is_empty', lambda c: S.bval(c.res) == empty(c.p.element, c.old))]))
    reg.add(Contract(UTIL, 'is_available', dict(element=Any), returns=Bool, requires=[not_lib],
                     ensures=[('negation-of-is_empty', lambda c: S.bval(c.res) == z3.Not(empty(c.p.element, c.old)))]))


# ---- os.path over strings (POSIX): trusted specifications ---------------------------------------------------------------
_basename_f = None


def sp_basename(p):
    """os.path.basename as an opaque function symbol (its definition, basename_def, is revealed only where a proof needs it)"""
    global _basename_f
    if _basename_f is None:
        _basename_f = z3.Function('os_path_basename', z3.StringSort(), z3.StringSort())
    return _basename_f(p)


def basename_def(p):
    """defining equation: the text after the last '/'"""
    k = z3.LastIndexOf(p, z3.StringVal('/'))
    return sp_basename(p) == z3.If(k < 0, p, z3.SubString(p, k + 1, z3.Length(p) - k - 1))


_join_f = None


def sp_join(a, b):
    """os.path.join of two strings as an opaque function symbol; join_axiom() gives its POSIX definition"""
    global _join_f
    if _join_f is None:
        _join_f = z3.Function('os_path_join', z3.StringSort(), z3.StringSort(), z3.StringSort())
    return _join_f(a, b)


def join_def(a, b):
    slash = z3.StringVal('/')
    return z3.If(z3.PrefixOf(slash, b), b,
                 z3.If(z3.Or(z3.Length(a) == 0, z3.SuffixOf(slash, a)), z3.Concat(a, b), z3.Concat(a, slash, b)))


def join_axiom():
    a, b = z3.Strings('ja jb')
    return z3.ForAll([a, b], sp_join(a, b) == join_def(a, b), patterns=[sp_join(a, b)])


def register_quit(reg: Registry):
    @reg.extern('lian.util.util.error_and_quit', 'util.error_and_quit: writes the message and raises SystemExit')
    def _quit(ex, st, node, args, kwargs):
        return [Outcome('raise', st, exc='SystemExit')]


def register_ospath(reg: Registry):
    @reg.extern('os.path.basename', 'os.path.basename (POSIX, on strings): text after the last "/"')
    def _basename(ex, st, node, args, kwargs):
        p = args[0]
        if p.ty.kind != 'str':
            ex.safety(st, 'TypeError', 'os.path.basename of non-str', S.is_str(p.t))
        b = sp_basename(S.sval(p.t))
        st.assume(z3.Not(z3.PrefixOf(z3.StringVal('/'), b)))        # the text after the last '/' never starts with '/'
        return V(S.mk_str(b), Str)

    @reg.extern('os.path.join', 'os.path.join (POSIX, two strings): absolute second argument wins; one separator inserted if needed')
    def _join(ex, st, node, args, kwargs):
        if len(args) < 2:
            raise Unsupported('os.path.join arity')
        for a in args:
            if a.ty.kind != 'str':
                ex.safety(st, 'TypeError', 'os.path.join of non-str', S.is_str(a.t))
        acc = S.sval(args[0].t)
        for b in args[1:]:
            acc = sp_join(acc, S.sval(b.t))
        return V(S.mk_str(acc), Str)
