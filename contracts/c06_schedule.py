"""C06, schedule part: the statement that analyze_stmts removes from the worklist at the end of a visit is the statement it analysed.

Runs in its own process (its registry — the C13 contracts of analyze_stmts and SimpleWorkList — declares other value classes than C06's): generates the VCs of the real
analyze_stmts with one more obligation after every `frame.stmt_worklist.pop()` and prints the verdicts of those obligations as JSON."""
import json
import sys
import z3

sys.path.insert(0, '/verif')


def main():
    from contracts import c13
    from lianvc.engine import Exec
    from lianvc import runner
    reg = c13.build()
    c = reg.contracts[(c13.PS, 'P2PrelimSemanticAnalysis.analyze_stmts')]

    def after_pop(ex, st, bound, res, old):
        if 'stmt_id' in st.env:
            visited = z3.is_true(st.ghost.get('visit_pending'))
            ex.oblige(st, 'schedule-coherence:' + ('the-statement-removed-at-the-end-of-a-visit-is-the-one-analysed' if visited else
                                                   'a-statement-dropped-without-analysis-is-the-one-that-was-peeked'), res.t == st.env['stmt_id'].t, kind='lemma')
    c.ghost_hooks = dict(c.ghost_hooks)
    c.ghost_hooks['after_call:SimpleWorkList.pop'] = after_pop
    timeout_ms = int(sys.argv[1]) if len(sys.argv) > 1 else 10000
    ex = Exec(reg, c)
    vcs = [v for v in ex.run() if 'schedule-coherence' in v.name]
    res = runner.solve_parallel(vcs, timeout_ms, runner.NPROC)
    out = [dict(name=r['name'], kind='lemma', verdict=r['verdict'], backend=r['backend'], time_s=r['time_s'], model=None, reason=r.get('reason', '')) for r in res]
    sys.stdout.write('\n' + json.dumps(dict(results=out, n_vcs=len(vcs))) + '\n')


if __name__ == '__main__':
    main()
