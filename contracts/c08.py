"""C08, second sentence — literal text from the analysed program is only ever treated as data: the one place where program text reaches an evaluator.

Proved (all operand strings, all operators of the stated set):
  core/stmt_states.py  StmtStates.compute_two_states: the text handed to util.strict_eval is  <literal> SP <operator> SP <literal>  where each <literal> is a complete Python
      string literal (image of repr(): no way to leave the quotes) or a numeric literal; a string operand that is not all digits is never pasted unquoted, whatever the
      operator; nothing else of the function evaluates program text; on any evaluation error the fallback is plain concatenation
  basics/stmt_def_use_analysis.py  adjust_constant_string: strips exactly one pair of matching outer quotes, otherwise returns the text unchanged
Static: util.strict_eval scans the compiled code for CALL instructions before it evaluates.
The first sentence of C08 (abstract values cover concrete values) is not decided by this family (whole points-to engine).
"""
import ast
import z3
from lianvc import sorts as S
from lianvc.sorts import Any, Int, Bool, Str, NoneT, Opt, List, Dict, Set, Tuple, TupleOf, Obj, Val, Fn, Opaque
from lianvc.contracts import Contract, ClassInfo, LoopSpec, Registry
from lianvc.engine import V, Outcome, Unsupported, below
from contracts import shared

PROPERTY = 'C08'
REPLAY = 'c08_replay.py'
SS = 'src/lian/core/stmt_states.py'
DU = 'src/lian/basics/stmt_def_use_analysis.py'
OPS = ('+', '-', '*', '/', '//', '%', '==', '!=', '<', '>', '<=', '>=', 'and', 'or', '&', '|', '^', '<<', '>>', '**', 'in', 'not in', 'is', 'is not', '&&', '||', '===', '!==', '>>>')


def re_char_not(chars):
    """complement of a finite character set, over the printable ASCII + a few ranges (z3 regex)"""
    return z3.Complement(z3.Union(*[z3.Re(ch) for ch in chars])) if len(chars) > 1 else z3.Complement(z3.Re(chars[0]))


def str_lit_re():
    """a complete Python short string literal in single or double quotes: no unescaped quote of its own kind, no raw newline; backslash always followed by a character"""
    any1 = z3.AllChar(z3.ReSort(z3.StringSort()))
    def body(q):
        plain = z3.Intersect(any1, z3.Complement(z3.Union(z3.Re(q), z3.Re('\\'), z3.Re('\n'), z3.Re('\r'))))
        esc = z3.Concat(z3.Re('\\'), any1)
        return z3.Concat(z3.Re(q), z3.Star(z3.Union(plain, esc)), z3.Re(q))
    return z3.Union(body('"'), body("'"))


def num_lit_re():
    d = z3.Range('0', '9')
    alnum = z3.Union(d, z3.Range('a', 'z'), z3.Range('A', 'Z'), z3.Re('_'), z3.Re('.'))
    # a numeric / keyword-free token: starts with a digit or '.', '-' sign allowed, then digits, letters (0x, e, j, L), dots, underscores — no spaces, quotes, operators, parentheses
    return z3.Concat(z3.Option(z3.Re('-')), z3.Union(d, z3.Concat(z3.Re('.'), d)), z3.Star(alnum))


def build():
    reg = Registry()
    shared.register_util(reg)
    reg.add_class(ClassInfo('State', SS, dict(value=Any, state_type=Int, data_type=Any)))
    reg.add_class(ClassInfo('Symbol', SS, dict(symbol_id=Any, name=Any)))
    reg.add_class(ClassInfo('GIRRow', SS, dict(stmt_id=Any, operator=Str)))
    reg.add_class(ClassInfo('Frame', SS, dict(stmt_id_to_status=Dict(Any, Any))))
    reg.add_class(ClassInfo('StmtStates', SS, dict(frame=Obj('Frame'))))
    ST = Obj('StmtStates')
    py_repr = z3.Function('py_repr_of_str', z3.StringSort(), z3.StringSort())
    sq = z3.String('rs')
    STRLIT, NUMLIT = str_lit_re(), num_lit_re()

    @reg.extern('builtins.repr', 'repr(str): a complete Python string literal that evaluates back to the string (language guarantee; axiom: repr(s) is in the string-literal language)')
    def _repr(ex, st, node, args, kwargs):
        v = args[0]
        if v.ty.kind != 'str':
            raise Unsupported('repr of a non-str')
        r = py_repr(S.sval(v.t))
        st.assume(z3.InRe(r, STRLIT))          # the axiom about repr, instantiated for this argument
        return V(S.mk_str(r), Str)

    @reg.extern_method('str', 'isdigit', 'str.isdigit(): non-empty and all characters are digits (modelled as ASCII 0-9; other Unicode digit characters are not operator, quote or identifier characters)')
    def _isdigit(ex, st, node, recv, args, kwargs):
        return V(S.mk_bool(z3.InRe(S.sval(recv.t), z3.Plus(z3.Range('0', '9')))), Bool)
    builtin_type = z3.Function('is_builtin_type', S.PyObj(), z3.BoolSort())

    @reg.extern('lian.config.type_table.is_builtin_type', 'type_table.is_builtin_type(data_type): a predicate of the type name')
    def _ibt(ex, st, node, args, kwargs):
        return V(S.mk_bool(builtin_type(args[0].t)), Bool)

    @reg.extern('lian.util.util.strict_eval', 'util.strict_eval(text): evaluates the text (may raise anything); what is decided here is WHICH text can reach it')
    def _eval(ex, st, node, args, kwargs):
        ok = st.copy()
        bad = st
        return [Outcome('value', ok, V(S.fresh('evaluated'), Any)), Outcome('raise', bad, exc='Exception')]

    @reg.extern('lian.common_structs.AccessPoint', 'AccessPoint(...): a record')
    def _ap(ex, st, node, args, kwargs):
        return V(S.fresh('access_point'), Any)
    reg.add(Contract(SS, 'StmtStates.create_state_and_add_space', dict(self=ST, status=Any, stmt_id=Any, source_symbol_id=Any, value=Any, data_type=Any, access_path=Any), returns=Int,
                     opaque=True, modifies=lambda c: {'*': (lambda a: a >= c.old.next)}, note='allocates the result state (the value is stored as data)'))
    reg.add(Contract(SS, 'StmtStates.update_access_path_state_id', dict(self=ST, state_index=Any), returns=Any, opaque=True, modifies=lambda c: {'*': (lambda a: a >= c.old.next)},
                     note='bookkeeping of the new state'))
    STRING = S.mk_str(z3.StringVal('%string'))

    def numeric_value(h, state):
        """assumed about the frontends: a state of a builtin NON-string type holds a numeric literal token (or a number computed by an earlier fold)"""
        v = h.attr(state, 'value')
        return z3.Implies(z3.And(h.attr(state, 'data_type') != STRING, builtin_type(h.attr(state, 'data_type'))),
                          z3.Or(S.is_int(v), S.is_flt(v), z3.And(S.is_str(v), z3.InRe(S.sval(v), NUMLIT))))

    py_str = z3.Function('py_str', S.PyObj(), z3.StringSort())
    spec_str = lambda raw: z3.If(S.is_str(raw), S.sval(raw), py_str(raw))
    DIGITS = z3.Plus(z3.Range('0', '9'))

    def hook_eval(ex, st, node):
        c = ex.ctx(st)
        t1, t2 = st.env['tmp_value1'], st.env['tmp_value2']
        for nm, state, t in (('first', c.p.state1, t1), ('second', c.p.state2, t2)):
            raw, dt = c.pre.attr(state, 'value'), c.pre.attr(state, 'data_type')
            quoted = S.sval(t.t) == py_repr(spec_str(raw))
            digits = z3.And(z3.InRe(spec_str(raw), DIGITS), S.sval(t.t) == spec_str(raw))
            numeric = z3.And(dt != STRING, S.sval(t.t) == spec_str(raw))
            ex.oblige(st, f'data-only:the-{nm}-operand-reaches-the-evaluator-as-repr-of-its-text,-as-a-string-of-digits,-or-as-the-text-of-a-value-of-a-non-string-builtin-type',
                      z3.And(S.is_str(t.t), z3.Or(quoted, digits, numeric)), kind='lemma')
            nondigit_string = z3.And(dt == STRING, z3.Not(z3.InRe(spec_str(raw), DIGITS)))
            ex.oblige(st, f'data-only:a-{nm}-operand-that-is-a-string-not-made-of-digits-is-quoted-by-repr-whatever-the-operator',
                      z3.Implies(nondigit_string, z3.And(quoted, z3.InRe(S.sval(t.t), STRLIT))), kind='lemma')

    def hook_text(ex, st, node):
        """the statement `value = util.strict_eval(f"...")`: its argument is exactly  tmp1 SP operator SP tmp2"""
        c = ex.ctx(st)
        arg = ex.ev(node.value.args[0], st)
        want = z3.Concat(S.sval(st.env['tmp_value1'].t), z3.StringVal(' '), S.sval(st.env['operator'].t), z3.StringVal(' '), S.sval(st.env['tmp_value2'].t))
        ex.oblige(st, 'data-only:the-evaluated-text-is-<literal>-SP-<operator>-SP-<literal>', S.sval(arg.t) == want, kind='lemma')
        hook_eval(ex, st, node)
    reg.add(Contract(SS, 'StmtStates.compute_two_states', dict(self=ST, stmt=Obj('GIRRow'), state1=Opt(Obj('State')), state2=Opt(Obj('State')), defined_symbol=Obj('Symbol')),
                     returns=Set(Any),
                     requires=[('the-statement-has-a-status', lambda c: z3.Select(c.old.dom(c.old.attr(c.old.attr(c.p.self, 'frame'), 'stmt_id_to_status')), c.old.attr(c.p.stmt, 'stmt_id'))),
                               ('values-are-strings-or-numbers', lambda c: z3.And(*[z3.Implies(z3.Not(S.is_none(s_)), z3.Or(
                                   S.is_str(c.old.attr(s_, 'value')), S.is_int(c.old.attr(s_, 'value')), S.is_flt(c.old.attr(s_, 'value')), S.is_none(c.old.attr(s_, 'value')),
                                   S.is_bool(c.old.attr(s_, 'value')))) for s_ in (c.p.state1, c.p.state2)])),
                               ('the-operator-is-a-GIR-operator-token', lambda c: z3.Or(*[c.old.attr(c.p.stmt, 'operator') == S.mk_str(z3.StringVal(o)) for o in OPS]))],
                     ghost_hooks={'before_stmt:value = util.strict_eval(': hook_text},
                     local_types=dict(value=Any, value1=Any, value2=Any, tmp_value1=Any, tmp_value2=Any, data_type=Any),
                     modifies=lambda c: {'*': (lambda a: a >= c.old.next)}))
    # ---- adjust_constant_string ---------------------------------------------------------------------------------------------------------------------------------
    reg.add_class(ClassInfo('StmtDefUseAnalysis', DU, {}))

    def acs_post(c):
        v = c.p.value
        s_ = S.sval(v)
        n = z3.Length(s_)
        first, last = z3.SubString(s_, 0, 1), z3.SubString(s_, n - 1, 1)
        quoted = z3.And(S.is_str(v), n >= 2, z3.Or(first == z3.StringVal("'"), first == z3.StringVal('"')), first == last)
        return z3.If(quoted, c.res == S.mk_str(z3.SubString(s_, 1, n - 2)), c.res == v)
    reg.add(Contract(DU, 'StmtDefUseAnalysis.adjust_constant_string', dict(self=Obj('StmtDefUseAnalysis'), value=Any), returns=Any,
                     ensures=[('strips-exactly-one-pair-of-matching-outer-quotes,-otherwise-the-text-is-unchanged', acs_post)], modifies=lambda c: {}))
    return reg


def static_strict_eval(reg, tier):
    """util.strict_eval: eval is reached only after every instruction of the compiled text has been scanned for CALL; compute_two_states is the only caller in src/lian"""
    import os
    from lianvc import source
    out = []

    def res(name, okv, detail=''):
        out.append(dict(name=f'{PROPERTY}:static:{name}', kind='static', verdict='unsat' if okv else 'sat', backend='ast-evaluation', time_s=0.0,
                        model=None if okv else {'detail': detail}, reason='' if okv else detail))
    m = source.load('src/lian/util/util.py')
    fn = m.function('strict_eval')
    body = [ast.unparse(s_) for s_ in fn.body]
    # tolerant data-flow shape (not a literal text match): the single eval is the final `return eval(content, {}, {})`; before it error_and_quit is called under a
    # condition that is the test `'CALL' in <x>.opname` over `dis.get_instructions(<compile(content, .., 'eval')>)` — directly in a for loop over the instructions, or
    # through a name bound to any(<that test> for <x> in dis.get_instructions(..))
    stmts = [s_ for s_ in fn.body if not (isinstance(s_, ast.Expr) and isinstance(s_.value, ast.Constant) and isinstance(s_.value.value, str))]
    evals = [n for n in ast.walk(fn) if isinstance(n, ast.Call) and ast.unparse(n.func) in ('eval', 'builtins.eval', 'exec')]
    last_ok = bool(stmts) and isinstance(stmts[-1], ast.Return) and ast.unparse(stmts[-1]).replace(' ', '') == 'returneval(content,{},{})' and len(evals) == 1
    compiled = {t_.id for s_ in stmts[:-1] if isinstance(s_, ast.Assign) and isinstance(s_.value, ast.Call) and ast.unparse(s_.value.func) == 'compile' and
                len(s_.value.args) == 3 and ast.unparse(s_.value.args[0]) == 'content' and ast.unparse(s_.value.args[2]) == "'eval'" for t_ in s_.targets if isinstance(t_, ast.Name)}

    def scans(it):
        return isinstance(it, ast.Call) and ast.unparse(it.func) == 'dis.get_instructions' and len(it.args) == 1 and isinstance(it.args[0], ast.Name) and it.args[0].id in compiled

    def call_test(t_, var):
        return isinstance(t_, ast.Compare) and len(t_.ops) == 1 and isinstance(t_.ops[0], ast.In) and isinstance(t_.left, ast.Constant) and t_.left.value == 'CALL' and \
            ast.unparse(t_.comparators[0]) == f'{var}.opname'

    def quits(block):
        return any(isinstance(n, ast.Call) and ast.unparse(n.func) in ('error_and_quit', 'util.error_and_quit') for b_ in block for n in ast.walk(b_))
    flags = set()
    guarded = False
    for s_ in stmts[:-1]:
        if isinstance(s_, ast.For) and scans(s_.iter) and isinstance(s_.target, ast.Name) and not s_.orelse:
            guarded = guarded or any(isinstance(b_, ast.If) and call_test(b_.test, s_.target.id) and quits(b_.body) for b_ in s_.body)
        if isinstance(s_, ast.Assign) and isinstance(s_.value, ast.Call) and ast.unparse(s_.value.func) == 'any' and len(s_.value.args) == 1 and \
                isinstance(s_.value.args[0], (ast.GeneratorExp, ast.ListComp)) and len(s_.value.args[0].generators) == 1:
            g_ = s_.value.args[0].generators[0]
            if scans(g_.iter) and isinstance(g_.target, ast.Name) and not g_.ifs and call_test(s_.value.args[0].elt, g_.target.id):
                flags |= {t_.id for t_ in s_.targets if isinstance(t_, ast.Name)}
        if isinstance(s_, ast.If) and isinstance(s_.test, ast.Name) and s_.test.id in flags and quits(s_.body):
            guarded = True
    shape = last_ok and bool(compiled) and guarded
    res('strict_eval-scans-the-compiled-text-for-CALL-instructions-before-it-evaluates-with-empty-globals-and-locals', shape, str(body)[:300])
    callers = []
    for dp, dn, fnames in os.walk(os.path.join(source.REPO, 'src', 'lian')):
        for f_ in sorted(fnames):
            if f_.endswith('.py'):
                pth = os.path.join(dp, f_)
                try:
                    tree = ast.parse(open(pth, encoding='utf-8').read())
                except SyntaxError:
                    continue
                for n in ast.walk(tree):
                    if isinstance(n, ast.Call) and ast.unparse(n.func) in ('util.strict_eval', 'strict_eval', 'eval', 'exec', 'builtins.eval', 'builtins.exec') and not (
                            os.path.relpath(pth, source.REPO) == 'src/lian/util/util.py' and ast.unparse(n.func) == 'eval'):
                        callers.append(f'{os.path.relpath(pth, source.REPO)}:{n.lineno}: {ast.unparse(n)[:60]}')
    expected = [c_ for c_ in callers if (c_.startswith('src/lian/core/stmt_states.py') and 'util.strict_eval(f' in c_) or
                (c_.startswith('src/lian/lang/common_parser.py') and 'util.strict_eval(input_string)' in c_)]
    res('no-evaluator-call-site-besides-strict_eval,-its-call-in-compute_two_states-and-the-parsers-common_eval', len(expected) == 2 and len(callers) == 2, str(callers)[:400])
    return out


EXTRA_OBLIGATIONS = [static_strict_eval]

ASSUMPTIONS = [
    'THE FIRST SENTENCE OF C08 (abstract values cover concrete values) IS NOT DECIDED: it is a soundness statement about the whole points-to engine (4 kLoC of transfer functions, '
    'summaries, copy-on-write state selection); no per-function contract within reach composes to it. Only the second sentence (literals are data) is claimed',
    'repr(s) of a str is a complete Python string literal that evaluates back to s (language guarantee; used as an axiom instance at each call)',
    'str.isdigit() is modelled as "non-empty, all ASCII digits"; other Unicode digit characters are neither operator, quote nor identifier characters, so an all-digit operand '
    'cannot contain code either way',
    'a state whose data_type is a builtin NON-string type holds a numeric literal token of the program or a number computed by an earlier fold (assumed about the frontends and '
    'type_table; its text is pasted unquoted by design)',
    'NOT UNDER CONTRACT: the second evaluator path, CommonParser.common_eval (literal folding inside the seven frontends: evaluate_literal_binary_expression, escape_string, '
    'number literals). The Python frontend re-quotes a single-quoted literal with double quotes without escaping (GIR operand "ab"*3+"cd" for the constant \'ab"*3+"cd\'); '
    'downstream this text is data again after adjust_constant_string + repr(), but inside the frontends it is outside this check (C01/C02 territory)',
    'util.strict_eval itself (compile/dis/eval) is trusted; its shape and the absence of other evaluator call sites are syntactic (static) obligations',
    'running time: the cost of the evaluated operator is not bounded here (e.g. a fold of 9 ** 9 ** 9 written with NUMERIC literals in the program is evaluated as such); what is '
    'proved is that STRING content never becomes an expression',
    'create_state_and_add_space / update_access_path_state_id are opaque; the operator is one of the GIR operator tokens (precondition)',
]
EXPLANATION = ('Deductive proof on the real compute_two_states that the only text that reaches the evaluator is  operand SP operator SP operand  with every operand being repr() of '
               'its text, a string of digits, or the text of a value of a non-string builtin type; a non-digit string operand is always the repr() image, whatever the operator. '
               'adjust_constant_string strips one pair of matching quotes. Static: shape of strict_eval, no other evaluator call site. First sentence of C08: not decided.')
QUICK_CANARIES = {
    'StmtStates.compute_two_states': ['negate-condition', 'flip-bool', 'delete-stmt[tmp_value1 = repr(str(tmp_value1))]', 'delete-stmt[tmp_value2 = repr(str(tmp_value2))]'],
    'StmtDefUseAnalysis.adjust_constant_string': ['flip-comparison', 'off-by-one', 'swap-and-or'],
}
MIN_CANARY_KILL_RATIO = 0.4
EQUIVALENT_MUTANTS = ('delete-stmt[return True] @L18', 'delete-stmt[return True] @L29')
