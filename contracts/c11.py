"""C11 — Every reported taint flow is justified by rules and by a data dependence: the rule side, proved on the real taint_analysis.py.

Proved (all graphs, all rule lists, all iterations):
  TaintRuleApplier.get_sink_tag_by_rules : a rule enters matching_rules only if it is a configured sink rule whose operation/name clause holds for the node; a predecessor's tag
      is OR-ed into the sink tag only over a SYMBOL_IS_USED edge whose (receiver-adjusted) position is the one the rule target names (documented mapping %arg0..%arg4 -> 1..5,
      %receiver/%target -> 0) or for a wildcard target; from-code contributions only when a from-code rule names the line and symbol; no rule => tag 0; NOTHING in the graph,
      the rules or the taint environment is modified; no UnboundLocalError (fix 9a1d566)
  TaintRuleApplier.check_method_name     : exactly the dotted-suffix match with %anyname wildcards
  TaintRuleApplier.{should_apply_call_stmt_sink_rules, apply_record_write_sink_rules, apply_field_write_sink_rules, apply_rules_from_code}: True only through a rule of the
      right list whose stated unit-name / unit-path / line restrictions hold and whose name/key clause holds
  TaintAnalysis.{get_state_with_inclusion_tag, get_symbol_with_states_tag}: tags are read from the CURRENT taint environment (a clean environment yields 0: nothing is remembered
      from another (source, sink) pair); a memoising decorator is modelled as what it is (a function of the arguments only) and fails this
  TaintAnalysis.find_flows               : a flow is appended only for a (source, sink) pair with a non-zero intersection of the propagated tag and the sink tag; every pair is
      evaluated in a fresh TaintEnv and the analysis-wide environment is restored after every pair; at most |sources| x |sinks| flows
Recorded findings: F6 (no applier reads rule.lang), F12 (apply_parameter_source_rules accepts a same-named rule of any operation).
  TaintRuleApplier.apply_parameter_source_rules: True only through a configured source rule with the parameter's name whose unit-name / line restrictions hold
"""
import ast
import z3
from lianvc import sorts as S
from lianvc.sorts import Any, Int, Bool, Str, NoneT, Opt, List, Dict, Set, Tuple, TupleOf, Obj, Val, Fn, Opaque
from lianvc.contracts import Contract, ClassInfo, LoopSpec, Registry
from lianvc.engine import V, Outcome, Unsupported, below, BITW
from contracts import shared

PROPERTY = 'C11'
REPLAY = 'c11_replay.py'
TA = 'src/lian/taint/taint_analysis.py'
STMT, SYMBOL, STATE = 1, 2, 3
SYMBOL_IS_USED = 2
KW = {k: '\\%' + v for k, v in dict(ARG0='arg0', ARG1='arg1', ARG2='arg2', ARG3='arg3', ARG4='arg4', TARGET='target', RECEIVER='receiver', ANYNAME='anyname').items()}


def sv(x):
    return S.mk_str(z3.StringVal(x))


def build():
    reg = Registry()
    shared.register_ospath(reg)
    reg.add_class(ClassInfo('GIRRow', TA, dict(name=Any, field=Str, receiver_object=Str, start_row=Int, key=Opt(Str))))
    reg.add_class(ClassInfo('SFGNode', TA, dict(node_type=Int, def_stmt_id=Any, node_id=Any, name=Str, stmt=Obj('GIRRow'), line_no=Int, operation=Str, access_path=Any)))
    reg.add_class(ClassInfo('SFGEdge', TA, dict(edge_type=Int, pos=Int, stmt_id=Any)))
    reg.add_class(ClassInfo('Rule', TA, dict(operation=Any, name=Str, target=Any, vuln_type=Any, unit_path=Any, unit_name=Any, line_num=Any, key=Opt(Str), lang=Any, attr=Any)))
    reg.add_class(ClassInfo('SourceCodeRule', TA, dict(unit_path=Str, line_num=Any, symbol_name=Str, lang=Any)))
    reg.add_class(ClassInfo('RuleManager', TA, dict(all_sources=List(Obj('Rule')), all_sinks=List(Obj('Rule')), all_propagations=List(Obj('Rule')),
                                                    all_sources_from_code=List(Obj('SourceCodeRule')), all_sinks_from_code=List(Obj('SourceCodeRule')))))
    reg.add_class(ClassInfo('Graph', TA, {}, kind='opaque'))
    reg.add_class(ClassInfo('Loader', TA, {}, kind='opaque'))
    reg.add_class(ClassInfo('PathFinder', TA, {}, kind='opaque'))
    reg.add_class(ClassInfo('UnitInfo', TA, dict(original_path=Str)))
    reg.add_class(ClassInfo('TaintEnv', TA, {}))
    reg.add_class(ClassInfo('Flow', TA, dict(vuln_type=Any)))
    reg.add_class(ClassInfo('TaintAnalysis', TA, dict(taint_manager=Obj('TaintEnv'), rule_applier=Obj('TaintRuleApplier'), path_finder=Opaque('PathFinder'), sfg=Opaque('Graph'), current_entry_point=Any,
                                                      rule_manager=Obj('RuleManager'))))
    reg.add_class(ClassInfo('TaintRuleApplier', TA, dict(taint_analysis=Obj('TaintAnalysis'), loader=Opaque('Loader'), sfg=Opaque('Graph'), rule_manager=Obj('RuleManager'))))
    APP, NODE, TAN = Obj('TaintRuleApplier'), Obj('SFGNode'), Obj('TaintAnalysis')
    kq = z3.Int('k')
    xq = z3.Const('x', S.PyObj())

    # ---- the state flow graph: an opaque networkx DiGraph ------------------------------------------------------------------------------------------------
    preds = z3.Function('sfg_predecessors', z3.IntSort(), S.PyObj(), S.SeqP())
    edge_attrs = z3.Function('sfg_edge_attrs', z3.IntSort(), S.PyObj(), S.PyObj(), S.PyObj())

    @reg.extern_method('Graph', 'predecessors', 'DiGraph.predecessors(node): the predecessor nodes (SFGNode objects of the graph), as a fresh list')
    def _preds(ex, st, node, recv, args, kwargs):
        r = ex.alloc(st, 'list')
        seq = preds(S.addr(recv.t), args[0].t)
        st.set_field('list', z3.Store(st.field('list'), S.addr(r), seq))
        st.assume(z3.ForAll([kq], z3.Implies(z3.And(kq >= 0, kq < z3.Length(seq)), S.has_type(S.at(seq, kq), NODE, z3.Int('next_ref0'))), patterns=[S.at(seq, kq)]))
        return V(r, List(NODE))

    @reg.extern_method('Graph', 'get_edge_data', 'DiGraph.get_edge_data(u, v): None or the attribute dict of that edge (values: SFGEdge objects of the graph)')
    def _edge(ex, st, node, recv, args, kwargs):
        t = edge_attrs(S.addr(recv.t), args[0].t, args[1].t)
        st.assume(z3.Or(S.is_none(t), S.has_type(t, Dict(Any, Obj('SFGEdge')), z3.Int('next_ref0'))))
        return V(t, Opt(Dict(Any, Obj('SFGEdge'))))

    @reg.extern('lian.util.util.access_path_formatter', 'util.access_path_formatter(path): some string')
    def _apf(ex, st, node, args, kwargs):
        return V(S.mk_str(S.fresh('formatted', z3.StringSort())), Str)

    @reg.extern('lian.util.util.graph_predecessors', 'util.graph_predecessors(g, node): fresh list of the predecessors')
    def _gp(ex, st, node, args, kwargs):
        return _preds(ex, st, node, args[0], [args[1]], {})
    unit_path_of = z3.Function('unit_path_of_stmt', S.PyObj(), z3.StringSort())

    @reg.extern_method('Loader', 'convert_stmt_id_to_unit_id', 'Loader.convert_stmt_id_to_unit_id')
    def _s2u(ex, st, node, recv, args, kwargs):
        return V(S.mk_tup(S.seq_of(sv('unit-of'), args[0].t)), Any)

    @reg.extern_method('Loader', 'convert_stmt_id_to_method_id', 'Loader.convert_stmt_id_to_method_id')
    def _s2m(ex, st, node, recv, args, kwargs):
        return V(S.mk_tup(S.seq_of(sv('method-of'), args[0].t)), Any)

    @reg.extern_method('Loader', 'convert_module_id_to_module_info', 'Loader.convert_module_id_to_module_info: a record with original_path')
    def _u2i(ex, st, node, recv, args, kwargs):
        r = ex.alloc(st, 'UnitInfo')
        st.set_field('attr:original_path', z3.Store(st.field('attr:original_path'), S.addr(r), S.mk_str(unit_path_of(args[0].t))))
        return V(r, Obj('UnitInfo'))

    # ---- opaque neighbours ---------------------------------------------------------------------------------------------------------------------------------
    reg.add(Contract(TA, 'TaintAnalysis.get_stmt_used_symbol_and_state_by_pos', dict(self=TAN, node=NODE, pos=Int), returns=Tuple(Any, Opt(List(Obj('StateNode')))), opaque=True,
                     modifies=lambda c: {}, note='graph lookup of the callee-name symbol and its states (pure; not under contract)'))
    # ---- tags are read from the CURRENT taint environment (isolation of the (source, sink) pairs) ---------------------------------------------------------------------------
    TS_ = 'src/lian/taint/taint_structs.py'
    statetag = z3.Function('env_state_tag', z3.IntSort(), S.PyObj(), z3.IntSort())
    symtag = z3.Function('env_symbol_tag', z3.IntSort(), S.PyObj(), z3.IntSort())
    for q, fn_, pn in (('get_state_tag', statetag, 'state_id'), ('get_symbol_tag', symtag, 'symbol_id')):
        reg.add(Contract(TS_, 'TaintEnv.' + q, {'self': Obj('TaintEnv'), pn: Any}, returns=Int, opaque=True, modifies=lambda c: {},
                         ensures=[('the-tag-this-environment-holds-for-the-id', lambda c, fn_=fn_, pn=pn: z3.And(S.ival(c.res) == fn_(S.addr(c.p.self), getattr(c.p, pn)), S.ival(c.res) >= 0, S.ival(c.res) < 2 ** BITW))],
                         note='TaintEnv lookups are uninterpreted functions of (environment object, id); tags are 16-bit vectors'))
    reg.add_class(ClassInfo('deque', TA, {}, kind='opaque'))

    @reg.extern('collections.deque', 'collections.deque(iterable): a work queue (its content is not modelled: popleft() yields some state node of the graph)')
    def _deque(ex, st, node, args, kwargs):
        return V(ex.alloc(st, 'deque'), Opaque('deque'))

    @reg.opaque('opaque_truth', 'deque', 'truth of a deque: non-empty (unspecified)')
    def _dq_truth(ex, st, recv):
        return S.fresh('queue_nonempty', z3.BoolSort())

    @reg.extern_method('deque', 'popleft', 'deque.popleft(): some state node of the graph')
    def _dq_pop(ex, st, node, recv, args, kwargs):
        t = S.fresh('queued_node')
        st.assume(S.has_type(t, NODE, z3.Int('next_ref0')))
        return V(t, NODE)

    @reg.extern_method('deque', 'append', 'deque.append(x)')
    def _dq_app(ex, st, node, recv, args, kwargs):
        return V(S.NONE(), NoneT)

    @reg.extern_method('Graph', 'successors', 'DiGraph.successors(node): the successor nodes, as a fresh list')
    def _succs(ex, st, node, recv, args, kwargs):
        r = ex.alloc(st, 'list')
        seq = z3.Function('sfg_successors', z3.IntSort(), S.PyObj(), S.SeqP())(S.addr(recv.t), args[0].t)
        st.set_field('list', z3.Store(st.field('list'), S.addr(r), seq))
        st.assume(z3.ForAll([kq], z3.Implies(z3.And(kq >= 0, kq < z3.Length(seq)), S.has_type(S.at(seq, kq), NODE, z3.Int('next_ref0'))), patterns=[S.at(seq, kq)]))
        return V(r, List(NODE))
    idq = z3.Const('id', S.PyObj())

    def clean_states(h, self_):
        """the current taint environment holds no tainted state"""
        return z3.ForAll([idq], statetag(S.addr(h.attr(self_, 'taint_manager')), idq) == 0, patterns=[statetag(S.addr(h.attr(self_, 'taint_manager')), idq)])
    tg = lambda c: z3.And(S.ival(c.l.tag) >= 0, S.ival(c.l.tag) < 2 ** BITW, c.cur.attr(c.p.self, 'taint_manager') == c.pre.attr(c.p.self, 'taint_manager'),
                          c.cur.attr(c.p.self, 'sfg') == c.pre.attr(c.p.self, 'sfg'), z3.Implies(clean_states(c.pre, c.p.self), S.ival(c.l.tag) == 0))
    reg.add(Contract(TA, 'TaintAnalysis.get_state_with_inclusion_tag', dict(self=TAN, state_node=NODE), returns=Int,
                     loops={1: LoopSpec(invariants=[('the-tag-comes-from-the-current-environment', tg)], modifies=lambda c: {'dom': [c.l.state_visited]}),
                            2: LoopSpec(invariants=[('the-tag-comes-from-the-current-environment', tg)], modifies=lambda c: {'dom': [c.l.state_visited]}),
                            3: LoopSpec(invariants=[('the-tag-comes-from-the-current-environment', tg)], modifies=lambda c: {'dom': [c.l.state_visited]})},
                     ensures=[('a-tag-bit-vector', lambda c: z3.And(S.ival(c.res) >= 0, S.ival(c.res) < 2 ** BITW)),
                              ('isolation:-with-no-tainted-state-in-the-CURRENT-environment-the-tag-is-0-(nothing-is-remembered-from-another-pair)', lambda c: z3.Implies(
                                  clean_states(c.old, c.p.self), S.ival(c.res) == 0))],
                     modifies=lambda c: {}))
    tg2 = lambda c: z3.And(S.ival(c.l.tag) >= 0, S.ival(c.l.tag) < 2 ** BITW, c.cur.attr(c.p.self, 'taint_manager') == c.pre.attr(c.p.self, 'taint_manager'),
                           c.cur.attr(c.p.self, 'sfg') == c.pre.attr(c.p.self, 'sfg'),
                           z3.Implies(z3.And(clean_states(c.pre, c.p.self), symtag(S.addr(c.pre.attr(c.p.self, 'taint_manager')), c.pre.attr(c.p.symbol_node, 'node_id')) == 0), S.ival(c.l.tag) == 0))
    reg.add(Contract(TA, 'TaintAnalysis.get_symbol_with_states_tag', dict(self=TAN, symbol_node=NODE), returns=Int,
                     loops={1: LoopSpec(invariants=[('the-tag-comes-from-the-current-environment', tg2)], modifies=lambda c: {}),
                            2: LoopSpec(invariants=[('the-tag-comes-from-the-current-environment', tg2)], modifies=lambda c: {})},
                     ensures=[('a-tag-bit-vector', lambda c: z3.And(S.ival(c.res) >= 0, S.ival(c.res) < 2 ** BITW)),
                              ('isolation:-an-untainted-symbol-with-untainted-states-in-the-CURRENT-environment-has-tag-0', lambda c: z3.Implies(
                                  z3.And(clean_states(c.old, c.p.self), symtag(S.addr(c.old.attr(c.p.self, 'taint_manager')), c.old.attr(c.p.symbol_node, 'node_id')) == 0), S.ival(c.res) == 0))],
                     modifies=lambda c: {}))

    # ---- check_method_name -------------------------------------------------------------------------------------------------------------------------------------
    reg.add_class(ClassInfo('StateNode', TA, dict(access_path=List(Obj('AccessPoint')))))
    reg.add_class(ClassInfo('AccessPoint', TA, dict(key=Any)))
    split = z3.Function('str_split_dot', z3.StringSort(), S.SeqP())

    @reg.extern_method('str', 'split', "str.split('.'): an uninterpreted sequence of strings (function of the string)")
    def _split(ex, st, node, recv, args, kwargs):
        r = ex.alloc(st, 'list')
        seq = split(S.sval(recv.t))
        st.set_field('list', z3.Store(st.field('list'), S.addr(r), seq))
        st.assume(z3.ForAll([kq], z3.Implies(z3.And(kq >= 0, kq < z3.Length(seq)), S.is_str(S.at(seq, kq))), patterns=[S.at(seq, kq)]))
        return V(r, List(Str))

    def cmn_spec(c):
        parts = split(S.sval(c.p.rule_name))
        path = c.old.list(c.old.attr(c.p.method_state, 'access_path'))
        n, m = z3.Length(parts), z3.Length(path)
        return z3.And(m >= n, z3.ForAll([kq], z3.Implies(z3.And(kq >= 0, kq < n), z3.Or(
            S.at(parts, n - 1 - kq) == sv(KW['ANYNAME']), S.at(parts, n - 1 - kq) == c.old.attr(S.at(path, m - 1 - kq), 'key')))))
    reg.add(Contract(TA, 'TaintRuleApplier.check_method_name', dict(self=APP, rule_name=Str, method_state=Obj('StateNode')), returns=Bool,
                     loops={1: LoopSpec(invariants=[('the-parts-seen-so-far-match', lambda c: z3.And(
                         z3.Length(c.cur.list(c.cur.attr(c.p.method_state, 'access_path'))) >= z3.Length(split(S.sval(c.p.rule_name))),
                         z3.ForAll([kq], z3.Implies(z3.And(kq >= 0, kq < c.i), z3.Or(
                             S.at(split(S.sval(c.p.rule_name)), z3.Length(split(S.sval(c.p.rule_name))) - 1 - kq) == sv(KW['ANYNAME']),
                             S.at(split(S.sval(c.p.rule_name)), z3.Length(split(S.sval(c.p.rule_name))) - 1 - kq) ==
                             c.pre.attr(S.at(c.pre.list(c.pre.attr(c.p.method_state, 'access_path')), z3.Length(c.pre.list(c.pre.attr(c.p.method_state, 'access_path'))) - 1 - kq), 'key'))))))])},
                     ensures=[('dotted-suffix-match-with-%anyname-wildcards', lambda c: S.bval(c.res) == cmn_spec(c))], modifies=lambda c: {}))
    # ---- get_sink_tag_by_rules -----------------------------------------------------------------------------------------------------------------------------------
    def pos_of(t):
        """the documented mapping of a rule target to an argument position"""
        return z3.If(t == sv(KW['ARG0']), 1, z3.If(t == sv(KW['ARG1']), 2, z3.If(t == sv(KW['ARG2']), 3, z3.If(t == sv(KW['ARG3']), 4, z3.If(t == sv(KW['ARG4']), 5,
                     z3.If(z3.Or(t == sv(KW['RECEIVER']), t == sv(KW['TARGET'])), 0, -1))))))

    def sinks(c, h=None):
        h = h or c.pre
        return h.list(h.attr(h.attr(c.p.self, 'rule_manager'), 'all_sinks'))

    def hook_append(clause_name, clause):
        def hook(ex, st, node):
            c = ex.ctx(st)
            rule = st.env['rule'].t
            ex.oblige(st, 'justified:a-rule-is-taken-as-matching-only-if-it-is-a-configured-sink-rule-and-' + clause_name,
                      z3.And(S.member(sinks(c), rule), clause(c, st, rule)), kind='lemma')
        return hook

    def clause_call(c, st, rule):
        op_ok = c.cur.attr(rule, 'operation') == sv('call_stmt')
        if 'state_node' in st.env:
            return z3.And(op_ok, st.ghost['cmn_result'])
        return z3.And(op_ok, c.cur.attr(rule, 'name') == c.cur.attr(c.cur.attr(c.p.node, 'stmt'), 'name'))

    def hook_cmn(ex, st, bound, res, old):
        st.ghost['cmn_result'] = S.bval(res.t)

    def clause_objcall(c, st, rule):
        stmt = c.cur.attr(c.p.node, 'stmt')
        n = c.cur.attr(rule, 'name')
        return z3.Or(n == st.env['name'].t, n == st.env['name1'].t, n == c.cur.attr(stmt, 'field'))

    def clause_field(c, st, rule):
        return z3.And(c.cur.attr(rule, 'operation') == sv('field_write'), z3.Contains(S.sval(c.cur.attr(c.p.node, 'operation')), S.sval(c.cur.attr(rule, 'name'))))

    def appended_by_branch(ex, st, node):
        """dispatch on the branch the append sits in (the three branches use the same statement text)"""
        c = ex.ctx(st)
        op = c.cur.attr(c.p.node, 'name')
        if 'name1' in st.env:
            return hook_append('its-name-is-the-receiver-qualified-or-bare-method-name', clause_objcall)(ex, st, node)
        if 'used_symbol_nodes' in st.env:
            return hook_append('it-is-a-field_write-rule-whose-name-occurs-in-the-operation', clause_field)(ex, st, node)
        return hook_append('it-is-a-call_stmt-rule-whose-name-matches-the-callee', clause_call)(ex, st, node)

    def hook_contribution(ex, st, node):
        """the statement that ORs a predecessor's tag into the sink tag"""
        c = ex.ctx(st)
        if 'is_sink_node' in st.env:
            ex.oblige(st, 'justified:a-from-code-contribution-needs-a-from-code-rule-naming-this-line-and-symbol', st.ghost['from_code_match'], kind='lemma')
            return
        w, t = st.env['weight'].t, st.env['target'].t
        p = pos_of(t)
        objcall = c.cur.attr(c.p.node, 'name') == sv('object_call_stmt')
        wp = S.ival(c.cur.attr(w, 'pos')) - z3.If(z3.And(objcall, p != 0), 1, 0)
        ex.oblige(st, 'justified:a-tag-is-taken-only-over-a-SYMBOL_IS_USED-edge', c.cur.attr(w, 'edge_type') == S.mk_int(z3.IntVal(SYMBOL_IS_USED)), kind='lemma')
        ex.oblige(st, 'justified:the-edge-position-is-the-one-the-rule-target-names-(or-the-target-is-a-wildcard)',
                  z3.Or(z3.And(p != -1, wp == p), t == sv(KW['TARGET']), z3.Not(ex.truth(st.env['target'], st))), kind='lemma')
        ex.oblige(st, 'justified:the-contributing-rule-was-taken-as-matching', S.member(c.cur.list(st.env['matching_rules'].t), st.env['rule'].t), kind='lemma')

    def fc_match(c, k):
        r = S.at(c.pre.list(c.pre.attr(c.pre.attr(c.p.self, 'rule_manager'), 'all_sinks_from_code')), k)
        return z3.And(S.mk_int(S.ival(c.pre.attr(c.p.node, 'line_no')) + 1) == c.pre.attr(r, 'line_num'),
                      z3.Contains(S.sval(c.pre.attr(c.p.node, 'operation')), S.sval(c.pre.attr(r, 'symbol_name'))))

    def hook_fc_done(ex, st, node):
        c = ex.ctx(st)
        n = z3.Length(c.pre.list(c.pre.attr(c.pre.attr(c.p.self, 'rule_manager'), 'all_sinks_from_code')))
        st.ghost['from_code_match'] = z3.Exists([kq], z3.And(kq >= 0, kq < n, fc_match(c, kq)))
    mr_len = lambda c: z3.Length(c.cur.list(c.l.matching_rules))
    few = ('at-most-one-rule-taken-per-rule-seen', lambda c: z3.And(mr_len(c) <= c.i, S.addr(c.l.matching_rules) >= c.pre.next, S.ival(c.l.sink_tag) == 0))
    gst_loops = {k: LoopSpec(invariants=[few], modifies=lambda c: {'list': [c.l.matching_rules]}) for k in (1, 3, 4, 5)}
    gst_loops[2] = LoopSpec(invariants=[('nothing-taken-before-the-first-matching-state', lambda c: z3.And(
        S.addr(c.l.matching_rules) >= c.pre.next, S.ival(c.l.sink_tag) == 0, c.cur.list(c.l.matching_rules) == c.head.list(c.l.matching_rules)))],
                            modifies=lambda c: {'list': [c.l.matching_rules]})
    tag_rng = lambda c: z3.And(S.ival(c.l.sink_tag) >= 0, S.ival(c.l.sink_tag) < 2 ** BITW)
    gst_loops[6] = LoopSpec(invariants=[('no-rule-no-tag', lambda c: z3.And(tag_rng(c), z3.Implies(c.i == 0, S.ival(c.l.sink_tag) == 0),
                                                                           c.cur.list(c.l.matching_rules) == c.head.list(c.l.matching_rules)))], modifies=lambda c: {})
    for k in (7, 8, 9):
        gst_loops[k] = LoopSpec(invariants=[('tag-is-a-bit-vector', lambda c: z3.And(tag_rng(c), c.cur.list(c.l.matching_rules) == c.head.list(c.l.matching_rules)))], modifies=lambda c: {})
    gst_loops[10] = LoopSpec(invariants=[('a-from-code-rule-seen-so-far-names-this-line-and-symbol', lambda c: z3.And(
        S.is_bool(c.l.is_sink_node), S.bval(c.l.is_sink_node) == z3.Exists([kq], z3.And(kq >= 0, kq < c.i, fc_match(c, kq)))))], modifies=lambda c: {})
    gst_loops[11] = LoopSpec(invariants=[('tag-is-a-bit-vector', tag_rng)], modifies=lambda c: {})
    reg.add(Contract(TA, 'TaintRuleApplier.get_sink_tag_by_rules', dict(self=APP, node=NODE), returns=Tuple(Int, Any),
                     requires=[('rule-names-of-field_write-rules-are-strings', lambda c: z3.BoolVal(True))],
                     local_types=dict(method_state_nodes=Opt(List(Obj('StateNode'))), matching_rules=List(Obj('Rule')), vuln_type=Any, name=Any),
                     ghost_hooks={'after_stmt:matching_rules.append(rule)': appended_by_branch, 'after_call:TaintRuleApplier.check_method_name': hook_cmn,
                                  'before_stmt:sink_tag |= self.taint_analysis.get_symbol_with_states_tag(pred)': hook_contribution,
                                  'before_stmt:if is_sink_node': hook_fc_done},
                     loops=gst_loops,
                     ensures=[('no-configured-sink-rule-and-no-from-code-rule:-the-tag-is-0', lambda c: z3.Implies(
                         z3.And(z3.Length(sinks(c)) == 0, z3.Length(c.pre.list(c.pre.attr(c.pre.attr(c.p.self, 'rule_manager'), 'all_sinks_from_code'))) == 0),
                         S.ival(S.at(S.items(c.res), 0)) == 0)),
                         ('the-tag-is-a-bit-vector', lambda c: z3.And(S.ival(S.at(S.items(c.res), 0)) >= 0, S.ival(S.at(S.items(c.res), 0)) < 2 ** BITW)),
                         ('a-node-that-is-not-a-statement-has-tag-0', lambda c: z3.Implies(c.pre.attr(c.p.node, 'node_type') != S.mk_int(z3.IntVal(STMT)), S.ival(S.at(S.items(c.res), 0)) == 0))],
                     modifies=lambda c: {}))
    # ---- sink appliers: True only through a rule whose stated restrictions hold -------------------------------------------------------------------------------
    TS = 'src/lian/taint/taint_structs.py'

    def restrictions(c, st, rule, with_path):
        """every restriction the rule states on unit name / unit path / line holds for the node"""
        h = c.cur
        truthy = lambda v: ex_truth(c, st, v)
        un, up, ln = h.attr(rule, 'unit_name'), h.attr(rule, 'unit_path'), h.attr(rule, 'line_num')
        out = [z3.Or(z3.Not(truthy(un)), un == st.env['unit_name'].t),
               z3.Or(z3.Not(truthy(ln)), ln == S.mk_int(S.ival(h.attr(c.p.node, 'line_no')) + 1))]
        if with_path:
            out.append(z3.Or(z3.Not(truthy(up)), up == st.env['unit_path'].t))
        return z3.And(*out)

    def ex_truth(c, st, term):
        return c.ex.truth(V(term, Any), st)

    def applier(qual, rule_list, opname, with_path, clause, clause_name):
        def hook(ex, st, node):
            if 'rule' not in st.env:
                return
            c = ex.ctx(st)
            rule = st.env['rule'].t
            rules = c.pre.list(c.pre.attr(c.pre.attr(c.p.self, 'rule_manager'), rule_list))
            ex.oblige(st, 'justified:True-only-through-a-configured-rule-of-this-kind-whose-stated-unit-and-line-restrictions-hold-and-' + clause_name,
                      z3.And(S.member(rules, rule), c.cur.attr(rule, 'operation') == sv(opname), restrictions(c, st, rule, with_path), clause(c, st, rule)), kind='lemma')
        reg.add(Contract(TA, 'TaintRuleApplier.' + qual, dict(self=APP, node=NODE), returns=Bool, ghost_hooks={'before_stmt:return True': hook},
                         loops={1: LoopSpec(invariants=[], modifies=lambda c: {}), 2: LoopSpec(invariants=[], modifies=lambda c: {})},
                         ensures=[('no-configured-rule-of-this-kind:-False', lambda c: z3.Implies(
                             z3.Length(c.pre.list(c.pre.attr(c.pre.attr(c.p.self, 'rule_manager'), rule_list))) == 0, z3.Not(S.bval(c.res))))],
                         local_types=dict(method_state_nodes=Opt(List(Obj('StateNode')))), modifies=lambda c: {}, fresh_fields=['attr:original_path', 'list']))
    applier('should_apply_call_stmt_sink_rules', 'all_sinks', 'call_stmt', False, lambda c, st, rule: st.ghost['cmn_result'], 'its-name-matches-the-callee')
    reg.contracts[(TA, 'TaintRuleApplier.should_apply_call_stmt_sink_rules')].ghost_hooks['after_call:TaintRuleApplier.check_method_name'] = hook_cmn
    applier('apply_record_write_sink_rules', 'all_sinks', 'record_write', True,
            lambda c, st, rule: z3.And(ex_truth(c, st, c.cur.attr(rule, 'key')), c.cur.attr(rule, 'key') == c.cur.attr(c.cur.attr(c.p.node, 'stmt'), 'key')), 'its-key-is-the-written-key')
    applier('apply_field_write_sink_rules', 'all_sinks', 'field_write', True,
            lambda c, st, rule: z3.Contains(S.sval(c.cur.attr(c.p.node, 'operation')), S.sval(c.cur.attr(rule, 'name'))), 'its-name-occurs-in-the-operation')

    # ---- find_flows ---------------------------------------------------------------------------------------------------------------------------------------------
    reg.classes['TaintEnv'].file = TS
    reg.classes['Flow'].file = TS
    reg.add(Contract(TS, 'TaintEnv.__init__', dict(self=Obj('TaintEnv')), returns=NoneT, opaque=True, modifies=lambda c: {}, note='a fresh, empty taint environment'))

    @reg.extern_method('PathFinder', 'propagate_taint', 'PathFinder.propagate_taint(source): the tag bit assigned to the source (propagation itself is C10/C13 territory)')
    def _prop(ex, st, node, recv, args, kwargs):
        t = S.fresh('tag', z3.IntSort())
        st.assume(z3.And(t >= 0, t < 2 ** BITW))
        return V(S.mk_int(t), Int)

    @reg.extern_method('PathFinder', 'reconstruct_define_use_path', 'PathFinder.reconstruct_define_use_path(source, sink): a fresh Flow record')
    def _recon(ex, st, node, recv, args, kwargs):
        return V(ex.alloc(st, 'Flow'), Obj('Flow'))
    for q, params in (('save_graph_to_dot', dict(graph=Any, entry_point=Any, phase_id=Any, taint_manager=Any)), ('dump_tainted_sfg_by_method', dict(source=Any, phase_id=Any, taint_manager=Any))):
        reg.add(Contract(TA, 'TaintAnalysis.' + q, dict(self=TAN, **params), returns=Any, opaque=True, modifies=lambda c: {}, note='graph dump (C18 covers where it writes); assumed not to touch the analysis state'))

    def hook_flow(ex, st, node):
        c = ex.ctx(st)
        from lianvc.engine import bitop
        ex.oblige(st, 'justified:a-flow-is-reported-only-for-a-pair-whose-sink-tag-shares-a-bit-with-the-tag-propagated-from-the-source',
                  bitop(ast.BitAnd, S.ival(st.env['sink_tag'].t), S.ival(st.env['tag'].t)) != 0, kind='lemma')

    def hook_fresh_env(ex, st, node):
        c = ex.ctx(st)
        tm = c.cur.attr(c.p.self, 'taint_manager')
        ex.oblige(st, 'isolation:every-(source,sink)-pair-is-propagated-in-a-fresh-taint-environment', z3.And(S.is_ref(tm), S.addr(tm) >= st.ghost['next_at_pair']), kind='lemma')

    def hook_pair_start(ex, st, node):
        st.ghost['next_at_pair'] = st.next_ref
    ff_inv = lambda c: z3.And(c.cur.attr(c.p.self, 'taint_manager') == c.pre.attr(c.p.self, 'taint_manager'), c.cur.attr(c.p.self, 'rule_applier') == c.pre.attr(c.p.self, 'rule_applier'),
                              c.cur.attr(c.p.self, 'path_finder') == c.pre.attr(c.p.self, 'path_finder'), S.addr(c.l.flow_list) >= c.pre.next, S.addr(c.l.dumped_sources) >= c.pre.next,
                              z3.Implies(z3.Length(c.pre.list(c.p.sinks)) == 0, z3.Length(c.cur.list(c.l.flow_list)) == 0))
    ff_mod = lambda c: {'list': [c.l.flow_list], 'dom': [c.l.dumped_sources], 'attr:taint_manager': [c.p.self], 'attr:vuln_type': (lambda a: a >= c.pre.next)}
    reg.add(Contract(TA, 'TaintAnalysis.find_flows', dict(self=TAN, sources=List(NODE), sinks=List(NODE)), returns=List(Obj('Flow')),
                     requires=[('the-two-node-lists-are-not-the-same-object-as-the-result', lambda c: z3.BoolVal(True))],
                     ghost_hooks={'before_stmt:original_manager = self.taint_manager': hook_pair_start, 'before_stmt:tag = self.path_finder.propagate_taint(source)': hook_fresh_env,
                                  'before_stmt:flow_list.append(flow)': hook_flow},
                     ghost_init=lambda ex, st: st.ghost.__setitem__('next_at_pair', z3.IntVal(0)),
                     loops={1: LoopSpec(invariants=[('the-analysis-wide-environment-is-restored-after-every-pair', lambda c: z3.And(ff_inv(c), z3.Implies(c.i == 0, z3.Length(c.cur.list(c.l.flow_list)) == 0)))],
                                        modifies=ff_mod),
                            2: LoopSpec(invariants=[('the-analysis-wide-environment-is-restored-after-every-pair', ff_inv)], modifies=ff_mod)},
                     ensures=[('the-analysis-wide-environment-is-restored', lambda c: c.new.attr(c.p.self, 'taint_manager') == c.old.attr(c.p.self, 'taint_manager')),
                              ('no-source-or-no-sink:-no-flow', lambda c: z3.Implies(z3.Or(z3.Length(c.old.list(c.p.sources)) == 0, z3.Length(c.old.list(c.p.sinks)) == 0),
                                                                                   z3.Length(c.new.list(c.res)) == 0))],
                     modifies=lambda c: {'attr:taint_manager': [c.p.self]}))
    # ---- parameter sources ---------------------------------------------------------------------------------------------------------------------------------------------------
    @reg.extern('lian.util.util.graph_successors', 'util.graph_successors(g, node): fresh list of the successors')
    def _gs(ex, st, node, args, kwargs):
        return _succs(ex, st, node, args[0], [args[1]], {})

    def hook_param_true(ex, st, node):
        if 'rule' not in st.env:
            return
        c = ex.ctx(st)
        rule = st.env['rule'].t
        rules = c.pre.list(c.pre.attr(c.pre.attr(c.p.self, 'rule_manager'), 'all_sources'))
        un, ln = c.cur.attr(rule, 'unit_name'), c.cur.attr(rule, 'line_num')
        tr = lambda v: ex_truth(c, st, v)
        ex.oblige(st, 'justified:a-parameter-is-a-source-only-through-a-configured-source-rule-with-its-name-whose-stated-unit-name-and-line-restrictions-hold',
                  z3.And(S.member(rules, rule), c.cur.attr(rule, 'name') == c.cur.attr(st.env['parameter_symbol'].t, 'name'),
                         z3.Or(z3.Not(tr(un)), un == st.env['unit_name'].t),
                         z3.Or(z3.Not(tr(ln)), ln == S.mk_int(S.ival(c.cur.attr(c.cur.attr(c.p.node, 'stmt'), 'start_row')) + 1))), kind='lemma')
        ex.oblige(st, 'justified:the-rule-that-makes-a-parameter-a-source-is-a-parameter_decl-rule', c.cur.attr(rule, 'operation') == sv('parameter_decl'), kind='lemma')
    reg.add(Contract(TA, 'TaintRuleApplier.apply_parameter_source_rules', dict(self=APP, node=NODE), returns=Bool,
                     requires=[('the-parameter-declaration-has-its-symbol-as-successor', lambda c: z3.Length(
                         z3.Function('sfg_successors', z3.IntSort(), S.PyObj(), S.SeqP())(S.addr(c.old.attr(c.p.self, 'sfg')), c.p.node)) >= 1)],
                     ghost_hooks={'before_stmt:return True': hook_param_true}, loops={1: LoopSpec(invariants=[], modifies=lambda c: {})},
                     ensures=[('no-configured-source-rule:-False', lambda c: z3.Implies(z3.Length(c.pre.list(c.pre.attr(c.pre.attr(c.p.self, 'rule_manager'), 'all_sources'))) == 0, z3.Not(S.bval(c.res))))],
                     modifies=lambda c: {}, fresh_fields=['attr:original_path', 'list']))
    return reg


def static_language_restriction(reg, tier):
    """every loop over a rule list in TaintRuleApplier reads the rule's language (syntactic; on the unchanged tree none does: known finding F6)"""
    from lianvc import source
    m = source.load(TA)
    offenders, loops_seen = [], 0
    for q in sorted(m.functions):
        if not q.startswith('TaintRuleApplier.'):
            continue
        fn = m.function(q)
        for n in ast.walk(fn):
            if isinstance(n, ast.For) and 'rule_manager.all_' in ast.unparse(n.iter) or (isinstance(n, ast.For) and ast.unparse(n.iter) == 'rules'):
                loops_seen += 1
                if not any(isinstance(x, ast.Attribute) and x.attr == 'lang' for x in ast.walk(n)):
                    offenders.append(f'{q}:{n.lineno} for {ast.unparse(n.target)} in {ast.unparse(n.iter)}')
    ok = loops_seen > 0 and not offenders
    return [dict(name=f'{PROPERTY}:static:every-rule-applier-honours-the-language-restriction-of-a-rule', kind='static', verdict='unsat' if ok else 'sat', backend='ast-evaluation',
                 time_s=0.0, model=None if ok else {'detail': offenders[:12]}, reason='' if ok else f'{len(offenders)} of {loops_seen} rule loops never read rule.lang: {offenders[:3]}')]


def static_rule_lists_append_only(reg, tier):
    """"adding rules never removes previously reported flows" starts at the rule lists: every configured rule entry becomes one element of its list. Structural (writer
    inventory over all of src/lian + shape of RuleManager.init): the five lists are bound once to [] in RuleManager.__init__, their only other writer is an UNCONDITIONAL
    `.append(new_rule)` directly in a `for rule in rules:` body of RuleManager.init, no alias of a list is mutated, and every attribute of the constructed rule except
    kind/lang is read from the entry under its own name (`x=rule.get("x", ...)`)."""
    import os
    from lianvc import source
    LISTS = ('all_sources', 'all_sinks', 'all_propagations', 'all_sources_from_code', 'all_sinks_from_code')
    MUT = ('remove', 'pop', 'clear', 'insert', 'extend', 'sort', 'reverse', '__setitem__', '__delitem__', 'append')
    bad, appends, ctor_bad = [], 0, []
    root = os.path.join(source.REPO, 'src', 'lian')
    for dp, dn, fns in os.walk(root):
        for f_ in sorted(fns):
            if not f_.endswith('.py'):
                continue
            pth = os.path.join(dp, f_)
            rel = os.path.relpath(pth, source.REPO)
            try:
                tree = ast.parse(open(pth, encoding='utf-8').read())
            except SyntaxError:
                continue
            par = {}
            for n in ast.walk(tree):
                for ch in ast.iter_child_nodes(n):
                    par[id(ch)] = n

            def enclosing(n, kinds):
                n = par.get(id(n))
                while n is not None and not isinstance(n, kinds):
                    n = par.get(id(n))
                return n
            for n in ast.walk(tree):
                if not (isinstance(n, ast.Attribute) and n.attr in LISTS):
                    continue
                p_ = par.get(id(n))
                stmt = n if isinstance(n, ast.stmt) else enclosing(n, ast.stmt)
                fn = enclosing(n, (ast.FunctionDef, ast.AsyncFunctionDef))
                cls = enclosing(fn, ast.ClassDef) if fn is not None else None
                fq = (cls.name + '.' if cls is not None else '') + (fn.name if fn is not None else '<module>')
                where = f'{rel}:{n.lineno} {fq}: {ast.unparse(stmt)[:70]}'
                if isinstance(n.ctx, (ast.Store, ast.Del)):
                    if not (fq == 'RuleManager.__init__' and isinstance(stmt, ast.Assign) and isinstance(stmt.value, ast.List) and not stmt.value.elts):
                        bad.append('re-bound: ' + where)
                elif isinstance(p_, ast.Attribute) and p_.value is n:
                    if p_.attr == 'append' and fq == 'RuleManager.init':
                        loop = par.get(id(stmt))
                        if isinstance(stmt, ast.Expr) and isinstance(loop, ast.For) and stmt in loop.body and ast.unparse(loop.target) == 'rule' and ast.unparse(loop.iter) == 'rules' \
                                and not any(isinstance(x, (ast.Continue, ast.Break, ast.Return)) for b_ in loop.body for x in ast.walk(b_)):
                            appends += 1
                            ctor = [b_ for b_ in loop.body if isinstance(b_, ast.Assign) and ast.unparse(b_.targets[0]) == ast.unparse(stmt.value.args[0]) and isinstance(b_.value, ast.Call)]
                            if len(ctor) != 1:
                                ctor_bad.append(f'{where}: the appended object is not constructed once in the loop body')
                            else:
                                for kw in ctor[0].value.keywords:
                                    if kw.arg in ('kind', 'lang'):
                                        continue
                                    v = kw.value
                                    if not (isinstance(v, ast.Call) and ast.unparse(v.func) == 'rule.get' and v.args and isinstance(v.args[0], ast.Constant) and v.args[0].value == kw.arg):
                                        ctor_bad.append(f'{rel}:{v.lineno} {kw.arg}={ast.unparse(v)[:40]}')
                        else:
                            bad.append('conditional / misplaced append: ' + where)
                    elif p_.attr in MUT:
                        bad.append(f'mutated ({p_.attr}): ' + where)
                elif isinstance(p_, ast.Subscript) and p_.value is n and isinstance(p_.ctx, (ast.Store, ast.Del)):
                    bad.append('item write: ' + where)
                elif isinstance(p_, ast.AugAssign) and p_.target is n:
                    bad.append('augmented: ' + where)
                elif isinstance(p_, ast.Assign) and p_.value is n and fn is not None:
                    for t_ in p_.targets:
                        if isinstance(t_, ast.Name):
                            for x in ast.walk(fn):
                                if isinstance(x, ast.Attribute) and isinstance(x.value, ast.Name) and x.value.id == t_.id and x.attr in MUT and isinstance(par.get(id(x)), ast.Call):
                                    bad.append(f'mutated through alias {t_.id}: ' + where)
                                if isinstance(x, ast.Subscript) and isinstance(x.value, ast.Name) and x.value.id == t_.id and isinstance(x.ctx, (ast.Store, ast.Del)):
                                    bad.append(f'item write through alias {t_.id}: ' + where)
    ok = appends == 5 and not bad and not ctor_bad
    detail = (bad + ctor_bad)[:8] or [f'expected 5 unconditional appends in RuleManager.init, found {appends}']
    return [dict(name=f'{PROPERTY}:static:rule-lists-are-append-only-(one-element-per-configured-rule,-attributes-taken-from-the-entry)', kind='static',
                 verdict='unsat' if ok else 'sat', backend='ast-evaluation', time_s=0.0, model=None if ok else {'detail': detail}, reason='' if ok else str(detail[:3]))]


EXTRA_OBLIGATIONS = [static_language_restriction, static_rule_lists_append_only]

ASSUMPTIONS = [
    'THE DATA-DEPENDENCE HALF IS NOT PROVED: that a non-zero intersection of the propagated tag and the sink tag implies a dependence in the program needs soundness of the SFG '
    'construction and of PathFinder.propagate_taint (whole points-to engine); only the rule side of the statement is decided',
    'the state flow graph is an opaque networkx DiGraph: predecessors/get_edge_data are uninterpreted functions of (graph, node); edge attribute dicts hold SFGEdge objects',
    f'taint tags are treated as {BITW}-bit vectors (|, & encoded over the bits); get_stmt_used_symbol_and_state_by_pos is a pure read (assumed); TaintEnv.get_state_tag/get_symbol_tag are uninterpreted functions of (environment object, id); the work queue (collections.deque) content is not modelled',
    "str.split('.') is an uninterpreted function from a string to a sequence of strings; util.access_path_formatter returns some string; os.path.basename as in C18",
    'rule records are well-typed: names / symbol names are strings, keys strings or None (a nameless field_write rule would raise TypeError in `rule.name in node.operation`)',
    'the source appliers apply_field_read/call_stmt/object_call_stmt_source_rules (which also write tags), should_apply_object_call_stmt_sink_rules, find_sources, '
    'find_sinks, apply_propagation_rules and TaintAnalysis.run are not under contract',
    'monotonicity under rule-set extension is not stated as a lemma: the proved justifications are existentials over the rule lists, which are monotone, but propagation rules can '
    'also cut flows (unset), so "adding rules never removes flows" is not decided',
    'PathFinder.propagate_taint / reconstruct_define_use_path, save_graph_to_dot, dump_tainted_sfg_by_method are opaque with an assumed frame (do not touch the analysis-wide '
    'taint environment attribute)',
]
EXPLANATION = ('Deductive proof on the real taint_analysis.py of the rule side: which rules may be taken as matching a sink, over which edges and argument positions a tag may '
               'enter the sink tag (documented %arg mapping, receiver shift for object calls), that evaluating a sink changes nothing in the graph, and that find_flows reports a '
               'pair only on a non-zero tag intersection, in a fresh environment per pair, restoring the analysis-wide one. The language restriction is a recorded finding (F6).')
QUICK_CANARIES = {
    'TaintRuleApplier.check_method_name': ['flip-comparison', 'negate-condition', 'flip-bool'],
    'TaintRuleApplier.get_sink_tag_by_rules': ['off-by-one', 'flip-comparison'],
    'TaintRuleApplier.should_apply_call_stmt_sink_rules': ['flip-comparison', 'negate-condition'],
    'TaintRuleApplier.apply_record_write_sink_rules': ['flip-comparison', 'negate-condition'],
    'TaintRuleApplier.apply_field_write_sink_rules': ['flip-comparison', 'negate-condition'],
    'TaintAnalysis.get_state_with_inclusion_tag': ['delete-stmt[tag |= self.taint_manager.get_state_tag(curr_state.node_id)]'],
    'TaintAnalysis.get_state_with_inclusion_tag': ['delete-stmt[tag |= self.taint_manager.get_state_tag(curr_state.node_id)]'],
    'TaintAnalysis.find_flows': ['flip-comparison', 'delete-stmt[self.taint_manager = original_manager]', 'delete-stmt[self.taint_manager = TaintEnv()]'],
}
MIN_CANARY_KILL_RATIO = 0.6
