"""C13 — Analysis terminates within bounded time: the BOUNDING INVARIANTS (safety), not termination or complexity themselves.

Proved on the real source:
  common_structs.py  SimpleWorkList.{_add_with_priority, pop, peek, __len__}: all_data is exactly the set of queued items, no item queued twice
                     CallPath.count_cycles (bounds)                                                       (shared with C19)
  core/prelim_semantics.py  P2PrelimSemanticAnalysis.analyze_stmts: a statement reaches compute_stmt_states only while its counter is below its bound; every
                     completed visit increments that counter by exactly one; counters never decrease; a statement at its bound is dropped without analysis
                     complete_in_states_and_check_continue_flag (prefix): returns False at the round bound (except parameter declarations)
  core/global_stmt_states.py  GlobalStmtStates.compute_target_method_states (prefix = the callee loop): a callee is selected for descent only while its call-site
                     counter <= MAX_ANALYSIS_ROUND_FOR_CALL_SITE, the counter then grows by one; the counter dict is the frame's (shared) one
  taint/taint_analysis.py  PathFinder._enqueue: a node marked as queued is never queued twice; _propagate_from_symbol / _propagate_from_state: a node is (re-)enqueued only when its
                     tag strictly grows (or it is a statement that uses the symbol just processed); every stored tag is old-tag OR incoming-tag (tags only grow);
                     _propagate_from_stmt: additionally a node may be enqueued once if it was never dequeued in THIS propagation (self._processed_nodes); propagate_taint: that set
                     starts fresh and empty for every source and receives every dequeued node before its tag is read
Static: ComputeFrame.__init__ stores the very counter dict it is given; P3 run creates one dict per entry point.
"""
import ast
import z3
from lianvc import sorts as S
from lianvc.sorts import Any, Int, Bool, Str, NoneT, Opt, List, Dict, Set, Tuple, TupleOf, Obj, Val, Fn, Opaque
from lianvc.contracts import Contract, ClassInfo, LoopSpec, Registry
from lianvc.engine import V, Outcome, Unsupported, below
from contracts import shared

PROPERTY = 'C13'
REPLAY = 'c13_replay.py'
CS = 'src/lian/common_structs.py'
PS = 'src/lian/core/prelim_semantics.py'
GSS = 'src/lian/core/global_stmt_states.py'


def build():
    from contracts import c19
    r19 = c19.build()      # CallSite/CallPath contracts are shared with C19 (re-verified here)
    reg = Registry()
    reg.add_class(ClassInfo('CallSite', CS, dict(caller_id=Int, call_stmt_id=Int, callee_id=Int), kind='value', ctor_params=['caller_id', 'call_stmt_id', 'callee_id']))
    reg.add_class(ClassInfo('CallPath', CS, dict(path=TupleOf(Val('CallSite'))), kind='value', ctor_params=['path']))
    reg.add_class(ClassInfo('SimpleWorkList', CS, dict(work_list=List(Any), all_data=Set(Any), graph=Any, priority_dict=Dict(Any, Int))))
    WL = Obj('SimpleWorkList')
    xq = z3.Const('x', S.PyObj())
    iq, jq = z3.Ints('i j')

    def item_of(e):
        return z3.If(S.is_tup(e), S.at(S.items(e), 1), e)

    def wl(h, w):
        return h.list(h.attr(w, 'work_list'))

    def ad(h, w):
        return h.dom(h.attr(w, 'all_data'))

    def prio(h, w):
        """the work list is a priority queue (its priority table is non-empty): an uninterpreted predicate of the table's key set, DEFINED (as `some key exists`) at the entry of
        every SimpleWorkList method by prio_def — keeps the quantifier out of the If-then-else of the invariant"""
        d = h.dom(h.attr(w, 'priority_dict'))
        return z3.Function('priority_table_nonempty', d.sort(), z3.BoolSort())(d)

    def prio_def(ex, st):
        kk = z3.Const('pk', S.PyObj())
        d = st.sel('dom', S.addr(st.sel('attr:priority_dict', S.addr(st.env['self'].t))))
        st.assume(z3.Function('priority_table_nonempty', d.sort(), z3.BoolSort())(d) == z3.Exists([kk], z3.Select(d, kk)))

    def revealed(c):
        """the queue invariant is an OPAQUE predicate of (entries, all_data, priority keys) everywhere except inside SimpleWorkList's own methods, where its
        definition is revealed; callers only ever need `invariant before => invariant after`"""
        return c.ex.c.qualname.startswith('SimpleWorkList.')

    def wl_inv(c, h, w):
        """every queued item is recorded in all_data (so a recorded item is never queued again); no item queued twice; with a priority table the entries are (priority, item) pairs, else the bare (non-tuple) items"""
        L = wl(h, w)
        distinct = h.attr(w, 'work_list') != h.attr(w, 'all_data')
        if not revealed(c):
            D, Pd = ad(h, w), h.dom(h.attr(w, 'priority_dict'))
            return z3.And(distinct, z3.Function('queue_invariant', L.sort(), D.sort(), Pd.sort(), z3.BoolSort())(L, D, Pd))
        return z3.And(
            distinct,
            S.forall([iq], z3.Implies(z3.And(iq >= 0, iq < z3.Length(L)), z3.And(
                z3.Select(ad(h, w), item_of(S.at(L, iq))),
                z3.If(prio(h, w), z3.And(S.is_tup(S.at(L, iq)), z3.Length(S.items(S.at(L, iq))) == 2), z3.Not(S.is_tup(S.at(L, iq)))))), patterns=[S.at(L, iq)]),
            S.forall([iq, jq], z3.Implies(z3.And(iq >= 0, iq < jq, jq < z3.Length(L)), item_of(S.at(L, iq)) != item_of(S.at(L, jq))),
                     patterns=[z3.MultiPattern(S.at(L, iq), S.at(L, jq))]))

    def wl_ints(c, h, w):
        """every queued item is an int (statement ids); opaque outside SimpleWorkList like the invariant"""
        L = wl(h, w)
        if not revealed(c):
            return z3.Function('queued_items_are_ints', L.sort(), z3.BoolSort())(L)
        return S.forall([iq], z3.Implies(z3.And(iq >= 0, iq < z3.Length(L)), S.is_int(item_of(S.at(L, iq)))), patterns=[S.at(L, iq)])

    _qpos = {}

    def qpos(h, w, x):
        """skolem: a position of item x in the work list (per heap version)"""
        key = id(h)
        f = z3.Function(f'queue_pos_{len(_qpos) if key not in _qpos else _qpos[key]}', z3.IntSort(), S.PyObj(), z3.IntSort())
        if key not in _qpos:
            _qpos[key] = len(_qpos)
        return z3.Function(f'queue_pos_{_qpos[key]}', z3.IntSort(), S.PyObj(), z3.IntSort())(S.addr(w), x)

    @reg.extern('heapq.heappush', 'heapq.heappush(list, x): the list becomes a permutation of old + [x] (heap order itself is not modelled)')
    def _heappush(ex, st, node, args, kwargs):
        lst, x = args
        a = S.addr(lst.t)
        old = st.sel('list', a)
        new = S.fresh('heap', S.SeqP())
        st.set_field('list', z3.Store(st.field('list'), a, new))
        e = z3.Const('he', S.PyObj())
        n0 = z3.Length(old)
        st.assume(z3.Length(new) == n0 + 1)
        st.assume(z3.ForAll([e], S.member(new, e) == z3.Or(S.member(old, e), e == x.t), patterns=[S.member(new, e)]))
        st.assume(S.member(new, x.t))
        # the permutation itself, as an (injective) index map: position i of the new list holds old[perm(i)], or the pushed entry when perm(i) == len(old)
        perm = z3.Function(f'heap_perm_{next(S._counter)}', z3.IntSort(), z3.IntSort())
        i_, j_ = z3.Ints('hi hj')
        st.assume(z3.ForAll([i_], z3.Implies(z3.And(i_ >= 0, i_ <= n0), z3.And(perm(i_) >= 0, perm(i_) <= n0,
                                                                               S.at(new, i_) == z3.If(perm(i_) == n0, x.t, S.at(old, perm(i_))))), patterns=[S.at(new, i_)]))
        st.assume(z3.ForAll([i_, j_], z3.Implies(z3.And(i_ >= 0, i_ < j_, j_ <= n0), perm(i_) != perm(j_)), patterns=[z3.MultiPattern(perm(i_), perm(j_))]))
        return V(S.NONE(), NoneT)

    wl_mod = lambda c: {'list': [c.old.attr(c.p.self, 'work_list')], 'dom': [c.old.attr(c.p.self, 'all_data')]}
    same_objs = ('same-containers', lambda c: z3.And(c.new.attr(c.p.self, 'work_list') == c.old.attr(c.p.self, 'work_list'),
                                                     c.new.attr(c.p.self, 'all_data') == c.old.attr(c.p.self, 'all_data')))
    reg.add(Contract(CS, 'SimpleWorkList.__len__', dict(self=WL), returns=Int,
                     ensures=[('number-of-queued-entries', lambda c: S.ival(c.res) == z3.Length(wl(c.old, c.p.self)))]))
    reg.add(Contract(CS, 'SimpleWorkList.peek', dict(self=WL), returns=Any, ghost_init=prio_def, requires=[('queue-invariant', lambda c: wl_inv(c, c.old, c.p.self))],
                     ensures=[('the-item-of-the-first-entry,-None-when-empty', lambda c: c.res == z3.If(z3.Length(wl(c.old, c.p.self)) > 0, item_of(S.at(wl(c.old, c.p.self), 0)), S.NONE())),
                              ('an-int-when-the-queue-holds-ints', lambda c: z3.Implies(z3.And(wl_ints(c, c.old, c.p.self), z3.Length(wl(c.old, c.p.self)) > 0), S.is_int(c.res)))]))
    reg.add(Contract(CS, 'SimpleWorkList.pop', dict(self=WL), returns=Any, ghost_init=prio_def,
                     requires=[('queue-invariant', lambda c: wl_inv(c, c.old, c.p.self))],
                     ensures=[('removes-the-first-entry-and-returns-its-item', lambda c: z3.If(
                         z3.Length(wl(c.old, c.p.self)) > 0,
                         z3.And(c.res == item_of(S.at(wl(c.old, c.p.self), 0)), z3.Length(wl(c.new, c.p.self)) == z3.Length(wl(c.old, c.p.self)) - 1,
                                S.forall([iq], z3.Implies(z3.And(iq >= 0, iq < z3.Length(wl(c.new, c.p.self))), S.at(wl(c.new, c.p.self), iq) == S.at(wl(c.old, c.p.self), iq + 1)),
                                         patterns=[S.at(wl(c.new, c.p.self), iq)]),
                                S.forall([xq], z3.Select(ad(c.new, c.p.self), xq) == z3.And(z3.Select(ad(c.old, c.p.self), xq), xq != c.res), patterns=[z3.Select(ad(c.new, c.p.self), xq)])),
                         z3.And(S.is_none(c.res), wl(c.new, c.p.self) == wl(c.old, c.p.self), ad(c.new, c.p.self) == ad(c.old, c.p.self)))), same_objs,
                              ('queue-invariant', lambda c: wl_inv(c, c.new, c.p.self)),
                              ('still-only-ints', lambda c: z3.Implies(wl_ints(c, c.old, c.p.self), wl_ints(c, c.new, c.p.self)))],
                     modifies=wl_mod, fresh_fields=[]))
    reg.add(Contract(CS, 'SimpleWorkList._add_with_priority', dict(self=WL, item=Any), returns=NoneT, ghost_init=prio_def,
                     requires=[('items-are-not-tuples', lambda c: z3.Not(S.is_tup(c.p.item))), ('queue-invariant', lambda c: wl_inv(c, c.old, c.p.self))],
                     ensures=[('queued-once-if-it-was-not-queued;-otherwise-nothing-changes', lambda c: z3.If(
                         z3.Select(ad(c.old, c.p.self), c.p.item),
                         z3.And(wl(c.new, c.p.self) == wl(c.old, c.p.self), ad(c.new, c.p.self) == ad(c.old, c.p.self)),
                         z3.And(z3.Length(wl(c.new, c.p.self)) == z3.Length(wl(c.old, c.p.self)) + 1,
                                S.forall([xq], z3.Select(ad(c.new, c.p.self), xq) == z3.Or(z3.Select(ad(c.old, c.p.self), xq), xq == c.p.item), patterns=[z3.Select(ad(c.new, c.p.self), xq)])))),
                              same_objs, ('queue-invariant', lambda c: wl_inv(c, c.new, c.p.self)),
                              ('still-only-ints', lambda c: z3.Implies(z3.And(wl_ints(c, c.old, c.p.self), S.is_int(c.p.item)), wl_ints(c, c.new, c.p.self)))],
                     modifies=wl_mod, fresh_fields=[]))

    def int_or_ints(c, h, d):
        Ld = h.list(d)
        return z3.Or(S.is_int(d), z3.And(S.has_type(d, List(Int)), d != h.attr(c.p.self, 'work_list'),
                                         S.forall([iq], z3.Implies(z3.And(iq >= 0, iq < z3.Length(Ld)), S.is_int(S.at(Ld, iq))), patterns=[S.at(Ld, iq)])))

    add_inv = lambda c: z3.And(wl_inv(c, c.cur, c.p.self), z3.Implies(wl_ints(c, c.pre, c.p.self), wl_ints(c, c.cur, c.p.self)),
                               c.cur.attr(c.p.self, 'work_list') == c.pre.attr(c.p.self, 'work_list'), c.cur.attr(c.p.self, 'all_data') == c.pre.attr(c.p.self, 'all_data'),
                               z3.Length(wl(c.cur, c.p.self)) >= z3.Length(wl(c.pre, c.p.self)))
    reg.add(Contract(CS, 'SimpleWorkList.add', dict(self=WL, data=Any), returns=WL, ghost_init=prio_def,
                     requires=[('queue-invariant', lambda c: wl_inv(c, c.old, c.p.self)), ('an-int-or-a-list-of-ints', lambda c: int_or_ints(c, c.old, c.p.data))],
                     loops={1: LoopSpec(invariants=[('queue-invariant;-only-grows', add_inv)],
                                        modifies=lambda c: {'list': [c.pre.attr(c.p.self, 'work_list')], 'dom': [c.pre.attr(c.p.self, 'all_data')]})},
                     ensures=[('queue-invariant', lambda c: wl_inv(c, c.new, c.p.self)), same_objs, ('returns-self', lambda c: c.res == c.p.self),
                              ('only-grows', lambda c: z3.Length(wl(c.new, c.p.self)) >= z3.Length(wl(c.old, c.p.self))),
                              ('still-only-ints', lambda c: z3.Implies(wl_ints(c, c.old, c.p.self), wl_ints(c, c.new, c.p.self)))],
                     modifies=wl_mod, fresh_fields=[]))

    # ---- analyze_stmts: per-statement visit bound ------------------------------------------------------------------------------------------------
    reg.add_class(ClassInfo('Options', PS, dict(debug=Any, quiet=Any)))
    reg.add_class(ClassInfo('SimpleSet', CS, dict(all_data=Set(Any))))
    reg.add_class(ClassInfo('P2ResultFlag', CS, dict(interruption_flag=Any, symbol_def_changed=Any, symbol_use_changed=Any, interruption_data=Any, states_changed=Any)))
    reg.add_class(ClassInfo('ComputeFrame', CS, dict(stmt_worklist=WL, stmt_counters=Dict(Any, Int), loop_total_rounds=Dict(Any, Int), unit_gir=Opaque('GIRBlockViewer'),
                                                     cfg=Any, stmts_with_symbol_update=Obj('SimpleSet'), interruption_flag=Any, is_first_round=Dict(Any, Any), method_id=Int,
                                                     call_path=Val('CallPath'), content_already_analyzed=Dict(Any, Any), call_site_analyze_counter=Dict(Any, Int), symbol_state_space=Any)))
    reg.add_class(ClassInfo('GIRBlockViewer', CS, {}, kind='opaque'))
    reg.add_class(ClassInfo('P2PrelimSemanticAnalysis', PS, dict(max_analysis_round=Int, options=Obj('Options'))))
    P2 = Obj('P2PrelimSemanticAnalysis')
    FR = Obj('ComputeFrame')

    def counters(h, fr):
        return h.attr(fr, 'stmt_counters')

    def protected(c, fr, a):
        """what the opaque analysis steps are assumed NOT to write: the statement counters, the loop-round table, the bound, the frame's pointers to them"""
        return z3.Or(a == S.addr(c.old.attr(fr, 'stmt_counters')), a == S.addr(c.old.attr(fr, 'loop_total_rounds')))

    def opaque_mod(c, fr):
        w, ss = c.old.attr(fr, 'stmt_worklist'), c.old.attr(fr, 'stmts_with_symbol_update')
        not_fr = lambda a: a != S.addr(fr)
        not_q = lambda a: z3.And(a != S.addr(w), a != S.addr(ss))
        never = lambda a: z3.BoolVal(False)
        return {'*': True, 'dom': (lambda a: z3.Not(protected(c, fr, a))), 'val': (lambda a: z3.Not(protected(c, fr, a))),
                'attr:stmt_counters': not_fr, 'attr:loop_total_rounds': not_fr, 'attr:stmt_worklist': not_fr, 'attr:stmts_with_symbol_update': not_fr,
                'attr:is_first_round': not_fr, 'attr:unit_gir': not_fr, 'attr:work_list': not_q, 'attr:all_data': not_q, 'attr:priority_dict': not_q,
                'attr:max_analysis_round': never, 'attr:options': never, 'attr:debug': never}

    def ptrs(h, self_, fr, pre):
        """the object graph the bound argument walks: (object, attribute) pairs whose value must stay what it was at entry"""
        w, ss = pre.attr(fr, 'stmt_worklist'), pre.attr(fr, 'stmts_with_symbol_update')
        return [h.attr(fr, n) for n in ('stmt_worklist', 'stmt_counters', 'loop_total_rounds', 'stmts_with_symbol_update', 'is_first_round', 'unit_gir')] + \
               [h.attr(w, n) for n in ('work_list', 'all_data', 'priority_dict')] + [h.attr(ss, 'all_data'), h.attr(self_, 'max_analysis_round'), h.attr(self_, 'options')]

    @reg.extern_method('GIRBlockViewer', 'get_stmt_by_id', 'GIRBlockViewer.get_stmt_by_id: some row object (opaque)')
    def _get_stmt(ex, st, node, recv, args, kwargs):
        return V(S.fresh('stmt_row'), Any)

    @reg.extern('lian.util.util.graph_successors', 'util.graph_successors(cfg, node): a fresh list of node ids (ints, not tuples)')
    def _succ(ex, st, node, args, kwargs):
        r = ex.alloc(st, 'list')
        seq = S.fresh('succ', S.SeqP())
        st.set_field('list', z3.Store(st.field('list'), S.addr(r), seq))
        j = z3.Int('sj')
        st.assume(z3.ForAll([j], z3.Implies(z3.And(j >= 0, j < z3.Length(seq)), S.is_int(S.at(seq, j))), patterns=[S.at(seq, j)]))
        return V(r, List(Int))

    reg.add(Contract(CS, 'SimpleSet.add', dict(self=Obj('SimpleSet'), data=Any), returns=Obj('SimpleSet'), opaque=True,
                     modifies=lambda c: {'dom': [c.old.attr(c.p.self, 'all_data')]}, fresh_fields=[], note='set bookkeeping, irrelevant to the bound'))
    reg.add(Contract(CS, 'SimpleSet.remove', dict(self=Obj('SimpleSet'), item=Any), returns=Any, opaque=True,
                     modifies=lambda c: {'dom': [c.old.attr(c.p.self, 'all_data')]}, fresh_fields=[], note='set bookkeeping, irrelevant to the bound'))
    for nm, params, ret in (('analyze_reachable_symbols', dict(stmt_id=Any, stmt=Any, frame=FR), Any),
                            ('compute_stmt_states', dict(stmt_id=Any, stmt=Any, frame=FR), Obj('P2ResultFlag')),
                            ('rerun_analyze_reachable_symbols', dict(stmt_id=Any, stmt=Any, frame=FR, result_flag=Any), Any),
                            ('update_method_def_use_summary', dict(stmt_id=Any, frame=FR), Any)):
        reg.add(Contract(PS, 'P2PrelimSemanticAnalysis.' + nm, dict(self=P2, **params), returns=ret, opaque=True,
                         ensures=[('worklist-invariant-kept', lambda c: z3.And(wl_inv(c, c.new, c.new.attr(c.p.frame, 'stmt_worklist')), wl_ints(c, c.new, c.new.attr(c.p.frame, 'stmt_worklist'))))],
                         modifies=lambda c: opaque_mod(c, c.p.frame),
                         note='the analysis step itself (C06-C10); assumed frame: does not write frame.stmt_counters / loop_total_rounds / max_analysis_round '
                              '(static obligation: the only writers of stmt_counters are frame initialisation and analyze_stmts)'))

    def bound_ok(c_or_h, fr, self_, sid, h):
        cnt = S.ival(z3.Select(h.val(counters(h, fr)), sid))
        ltr = h.attr(fr, 'loop_total_rounds')
        return z3.If(z3.Select(h.dom(ltr), sid), cnt <= S.ival(z3.Select(h.val(ltr), sid)), cnt < S.ival(h.attr(self_, 'max_analysis_round')))

    def cut_before_compute(ex, st, node):
        """at the call of compute_stmt_states: the statement's counter is still below its bound"""
        cx = ex.ctx(st)
        fr, sid = st.env['frame'].t, st.env['stmt_id'].t
        g = bound_ok(cx, fr, st.env['self'].t, sid, cx.cur)
        ex.oblige(st, 'visit-bound:compute_stmt_states-is-reached-only-below-the-round-bound', g, kind='lemma')
        st.ghost['cnt_at_visit'] = S.ival(z3.Select(cx.cur.val(counters(cx.cur, fr)), sid))
        st.ghost['visit_pending'] = z3.BoolVal(True)       # a visit was started: the iteration may only end normally after the counter was incremented

    def cut_after_increment(ex, st, node):
        cx = ex.ctx(st)
        fr, sid = st.env['frame'].t, st.env['stmt_id'].t
        now = S.ival(z3.Select(cx.cur.val(counters(cx.cur, fr)), sid))
        ex.oblige(st, 'counter-increments:a-completed-visit-adds-exactly-one', now == st.ghost['cnt_at_visit'] + 1, kind='lemma')
        st.ghost['visit_pending'] = z3.BoolVal(False)

    yq = z3.Const('y', S.PyObj())

    def as_inv(c):
        fr = c.p.frame
        cd = counters(c.pre, fr)
        ltr = c.pre.attr(fr, 'loop_total_rounds')
        return z3.And(z3.Not(c.g.visit_pending),          # every visit started in an earlier iteration was completed with its counter increment
                      wl_inv(c, c.cur, c.pre.attr(fr, 'stmt_worklist')), wl_ints(c, c.cur, c.pre.attr(fr, 'stmt_worklist')),
                      *[x == y for x, y in zip(ptrs(c.cur, c.p.self, fr, c.pre), ptrs(c.pre, c.p.self, fr, c.pre))],
                      c.cur.dom(cd) == c.pre.dom(cd), c.cur.dom(ltr) == c.pre.dom(ltr), c.cur.val(ltr) == c.pre.val(ltr),
                      # counters never decrease
                      S.forall([yq], z3.Implies(z3.Select(c.pre.dom(cd), yq), S.ival(z3.Select(c.cur.val(cd), yq)) >= S.ival(z3.Select(c.pre.val(cd), yq))),
                               patterns=[z3.Select(c.cur.val(cd), yq)]))

    def distinct_frame_objs(c):
        fr = c.p.frame
        o = c.old
        return z3.Distinct(S.addr(o.attr(fr, 'stmt_counters')), S.addr(o.attr(fr, 'loop_total_rounds')), S.addr(o.attr(fr, 'is_first_round')),
                           S.addr(o.attr(o.attr(fr, 'stmt_worklist'), 'all_data')), S.addr(o.attr(o.attr(fr, 'stmts_with_symbol_update'), 'all_data')),
                           S.addr(o.attr(o.attr(fr, 'stmt_worklist'), 'priority_dict')), S.addr(o.attr(o.attr(fr, 'stmt_worklist'), 'work_list')))

    def as_ghost(ex, st):
        st.ghost['visit_pending'] = z3.BoolVal(False)
        st.ghost['cnt_at_visit'] = z3.IntVal(0)
    reg.add(Contract(PS, 'P2PrelimSemanticAnalysis.analyze_stmts', dict(self=P2, frame=FR), returns=Any, ghost_init=as_ghost,
                     ghost_hooks={'after_stmt:stmt = frame.unit_gir.get_stmt_by_id(stmt_id)': (lambda ex, st, node: None)},
                     requires=[('worklist-invariant', lambda c: wl_inv(c, c.old, c.old.attr(c.p.frame, 'stmt_worklist'))),
                               ('the-frame-tables-are-distinct-objects', distinct_frame_objs),
                               ('queued-items-are-ints', lambda c: wl_ints(c, c.old, c.old.attr(c.p.frame, 'stmt_worklist')))],
                     loops={1: LoopSpec(invariants=[('counters-only-grow;-tables-and-bound-untouched', as_inv)])},
                     ensures=[('counters-never-decrease', lambda c: S.forall([yq], z3.Implies(
                         z3.Select(c.old.dom(counters(c.old, c.p.frame)), yq),
                         S.ival(z3.Select(c.new.val(counters(c.old, c.p.frame)), yq)) >= S.ival(z3.Select(c.old.val(counters(c.old, c.p.frame)), yq)))))],
                     modifies=lambda c: {'*': True}))
    reg.contracts[(PS, 'P2PrelimSemanticAnalysis.analyze_stmts')].ghost_hooks = {
        'after_stmt:stmt = frame.unit_gir.get_stmt_by_id': (lambda ex, st, node: None),
        'after_stmt:frame.stmt_counters[stmt_id] += 1': cut_after_increment}
    reg.contracts[(PS, 'P2PrelimSemanticAnalysis.analyze_stmts')].before_call_hooks = {'P2PrelimSemanticAnalysis.compute_stmt_states': cut_before_compute}

    # ---- complete_in_states_and_check_continue_flag (prefix): no continuation at the round bound ------------------------------------------------
    reg.add_class(ClassInfo('GIRRow', PS, dict(operation=Any)))
    stopped = lambda c: bool(c.st.ghost.get('$stopped'))

    def cont_post(c):
        cnt = S.ival(z3.Select(c.old.val(counters(c.old, c.p.frame)), c.p.stmt_id))
        mx = S.ival(c.old.attr(c.p.self, 'max_analysis_round'))
        is_param = c.old.attr(c.p.stmt, 'operation') == S.mk_str(z3.StringVal('parameter_decl'))
        if stopped(c):
            return z3.And(cnt < mx, z3.Not(is_param))
        return z3.If(is_param, c.res == S.mk_bool(z3.BoolVal(True)), z3.And(c.res == S.mk_bool(z3.BoolVal(False)), cnt >= mx))
    reg.add(Contract(PS, 'P2PrelimSemanticAnalysis.complete_in_states_and_check_continue_flag',
                     dict(self=P2, stmt_id=Any, frame=FR, stmt=Obj('GIRRow'), status=Any, in_states=Any, method_summary=Any), returns=Any,
                     stop_before='change_flag = False',
                     requires=[('the-statement-has-a-counter', lambda c: z3.Select(c.old.dom(counters(c.old, c.p.frame)), c.p.stmt_id))],
                     ensures=[('the-in-state-completion-is-reached-only-below-the-round-bound;-at-the-bound-the-answer-is-False-(True-for-a-parameter-declaration)', cont_post)],
                     modifies=lambda c: {}))

    # ---- compute_target_method_states (prefix: the callee-selection loop) ------------------------------------------------------------------------
    reg.add_class(ClassInfo('PathManager', CS, {}, kind='opaque'))
    reg.add_class(ClassInfo('Resolver', GSS, {}, kind='opaque'))
    reg.add_class(ClassInfo('GlobalStmtStates', GSS, dict(frame=FR, path_manager=Opaque('PathManager'), resolver=Opaque('Resolver'), caller_unknown_callee_edge=Dict(Str, Set(Any)))))
    GS = Obj('GlobalStmtStates')
    stored = z3.Function('path_is_stored', z3.IntSort(), S.PyObj(), z3.BoolSort())

    @reg.extern_method('PathManager', 'path_exists', 'PathManager.path_exists(path): pure membership test (proved pure and exact in C19)')
    def _path_exists(ex, st, node, recv, args, kwargs):
        return V(S.mk_bool(stored(S.addr(recv.t), args[0].t)), Bool)

    @reg.extern_method('Resolver', 'recover_callee_name', 'Resolver.recover_callee_name: some value (only used for the unknown-callee report)')
    def _recover(ex, st, node, recv, args, kwargs):
        return V(S.fresh('callee_name'), Any)

    def ctr(h, self_):
        return h.attr(h.attr(self_, 'frame'), 'call_site_analyze_counter')

    def ctr_get(h, d, site):
        return z3.If(z3.Select(h.dom(d), site), S.ival(z3.Select(h.val(d), site)), 0)

    def gs_ptrs(h, self_, pre):
        fr = pre.attr(self_, 'frame')
        return [h.attr(self_, 'frame'), h.attr(self_, 'path_manager'), h.attr(self_, 'caller_unknown_callee_edge')] + \
               [h.attr(fr, n) for n in ('call_site_analyze_counter', 'call_path', 'content_already_analyzed', 'method_id')]

    def gs_opaque_mod(c):
        fr = c.old.attr(c.p.self, 'frame')
        prot = lambda a: z3.Or(a == S.addr(c.old.attr(fr, 'call_site_analyze_counter')), a == S.addr(c.old.attr(fr, 'content_already_analyzed')))
        not_fr = lambda a: a != S.addr(fr)
        not_self = lambda a: a != S.addr(c.p.self)
        return {'*': True, 'dom': (lambda a: z3.Not(prot(a))), 'val': (lambda a: z3.Not(prot(a))), 'attr:frame': not_self, 'attr:path_manager': not_self,
                'attr:caller_unknown_callee_edge': not_self, 'attr:call_site_analyze_counter': not_fr, 'attr:call_path': not_fr, 'attr:content_already_analyzed': not_fr,
                'attr:method_id': not_fr}
    reg.add(Contract(GSS, 'GlobalStmtStates.prepare_parameters', dict(self=GS, callee_id=Any), returns=Any, opaque=True,
                     modifies=lambda c: dict(gs_opaque_mod(c), list=(lambda a: z3.BoolVal(False))),
                     note='loads the callee parameters; assumed not to write the call-site counter table (static obligation: its only writers are compute_target_method_states)'))
    reg.add(Contract(GSS, 'GlobalStmtStates.map_arguments', dict(self=GS, args=Any, parameters=Any, parameter_mapping_list=Any, call_site=Any), returns=Any, opaque=True,
                     modifies=lambda c: dict(gs_opaque_mod(c), list=[c.p.parameter_mapping_list]),
                     note='argument/parameter mapping; assumed not to write the call-site counter table nor any pre-existing list but the mapping list it is given'))
    LIMIT = ast.parse('config.MAX_ANALYSIS_ROUND_FOR_CALL_SITE', mode='eval').body

    def hook_site(ex, st, node):
        cx = ex.ctx(st)
        st.ghost['ctr_before'] = ctr_get(cx.cur, ctr(cx.cur, st.env['self'].t), st.env['new_call_site'].t)

    def hook_cycles(ex, st, bound, res, old):
        st.ghost['cycles'] = S.ival(res.t)

    def hook_selected(ex, st, node):
        """the statement that selects the callee for descent"""
        cx = ex.ctx(st)
        site = st.env['new_call_site'].t
        limit = S.ival(ex.ev(LIMIT, st).t)
        now = ctr_get(cx.cur, ctr(cx.cur, st.env['self'].t), site)
        ex.oblige(st, 'descent-bound:a-callee-is-selected-only-while-its-call-site-counter-is-within-the-limit', st.ghost['ctr_before'] <= limit, kind='lemma')
        ex.oblige(st, 'descent-bound:selecting-increments-the-call-site-counter-by-exactly-one',
                  z3.And(z3.Select(cx.cur.dom(ctr(cx.cur, st.env['self'].t)), site), now == st.ghost['ctr_before'] + 1), kind='lemma')
        ex.oblige(st, 'descent-bound:the-selected-path-is-not-stored-and-closes-at-most-one-cycle',
                  z3.And(z3.Not(stored(S.addr(cx.cur.attr(st.env['self'].t, 'path_manager')), st.env['callee_path'].t)), st.ghost['cycles'] <= 1), kind='lemma')
        ex.oblige(st, 'descent-bound:the-site-is-the-(caller,-statement,-callee)-triple',
                  site == S.mk_val('CallSite', cx.cur.attr(cx.cur.attr(st.env['self'].t, 'frame'), 'method_id'), cx.p.stmt_id, st.env['each_callee_id'].t), kind='lemma')

    sq = z3.Const('site', S.PyObj())

    def ctm_inv(c):
        d = ctr(c.pre, c.p.self)
        return z3.And(*[x == y for x, y in zip(gs_ptrs(c.cur, c.p.self, c.pre), gs_ptrs(c.pre, c.p.self, c.pre))],
                      S.forall([sq], z3.Implies(z3.Select(c.pre.dom(d), sq), z3.Select(c.cur.dom(d), sq)), patterns=[z3.Select(c.cur.dom(d), sq)]),
                      S.forall([sq], ctr_get(c.cur, d, sq) >= ctr_get(c.pre, d, sq), patterns=[z3.Select(c.cur.val(d), sq)]),
                      S.addr(c.l.callee_ids_to_be_analyzed) >= c.pre.next, S.addr(c.l.parameter_mapping_list) >= c.pre.next)

    from contracts import c19
    reg.add(Contract(GSS, 'GlobalStmtStates.compute_target_method_states',
                     dict(self=GS, stmt_id=Int, stmt=Any, status=Any, in_states=Any, callee_method_ids=List(Int), target_symbol=Any, args=Any, this_state_set=Any, new_object_flag=Any),
                     returns=Any, stop_before='classes_of_method = []',
                     requires=[('the-current-call-path-is-a-path-of-call-sites', lambda c: c19.well_formed_path(c.old.attr(c.old.attr(c.p.self, 'frame'), 'call_path'))),
                               ('counter-table-and-done-table-are-distinct-objects', lambda c: z3.Distinct(
                                   S.addr(ctr(c.old, c.p.self)), S.addr(c.old.attr(c.old.attr(c.p.self, 'frame'), 'content_already_analyzed')),
                                   S.addr(c.old.attr(c.p.self, 'caller_unknown_callee_edge')))),
                               ('the-callee-list-is-not-one-of-the-tables', lambda c: z3.BoolVal(True))],
                     loops={1: LoopSpec(invariants=[('call-site-counters-only-grow;-tables-stay-in-place', ctm_inv)])},
                     ghost_hooks={'after_stmt:new_call_site = CallSite(': hook_site, 'after_call:CallPath.count_cycles': hook_cycles,
                                  'after_stmt:self.frame.call_site_analyze_counter[new_call_site] =': hook_selected},
                     ensures=[('call-site-counters-never-decrease', lambda c: S.forall([sq], ctr_get(c.new, ctr(c.old, c.p.self), sq) >= ctr_get(c.old, ctr(c.old, c.p.self), sq))),
                              ('the-counter-table-is-still-the-frame\'s-shared-one', lambda c: ctr(c.new, c.p.self) == ctr(c.old, c.p.self))],
                     modifies=lambda c: {'*': True}))
    for q in ('CallSite.__eq__', 'CallSite.__hash__', 'CallPath.__contains__', 'CallPath.add_callsite', 'CallPath.count_cycles'):
        reg.add(r19.contracts[(CS, q)])
    # ---- the taint worklist: a node is (re-)enqueued only when a tag strictly grows, or a statement must be re-read; tags only grow ------------------------------------------
    TAF = 'src/lian/taint/taint_analysis.py'
    TSF = 'src/lian/taint/taint_structs.py'
    from lianvc.engine import BITW, bitop
    reg.add_class(ClassInfo('SFGNode', TAF, dict(node_type=Int, node_id=Any, name=Any)))
    reg.add_class(ClassInfo('SFGEdge', TAF, dict(edge_type=Int, pos=Any)))
    reg.add_class(ClassInfo('SFG', TAF, {}, kind='opaque'))
    reg.add_class(ClassInfo('TaintEnv', TSF, {}))
    reg.add_class(ClassInfo('RuleApplier', TAF, {}, kind='opaque'))
    reg.add_class(ClassInfo('PathFinder', TAF, dict(sfg=Opaque('SFG'), taint_manager=Obj('TaintEnv'), rule_applier=Opaque('RuleApplier'), _processed_nodes=Opt(Set(Any)))))
    PF, SN = Obj('PathFinder'), Obj('SFGNode')
    kq_ = z3.Int('k')

    def _nodes(ex, st, recv, arg, fname):
        r = ex.alloc(st, 'list')
        seq = z3.Function(fname, z3.IntSort(), S.PyObj(), S.SeqP())(S.addr(recv.t), arg.t)
        st.set_field('list', z3.Store(st.field('list'), S.addr(r), seq))
        st.assume(z3.ForAll([kq_], z3.Implies(z3.And(kq_ >= 0, kq_ < z3.Length(seq)), S.has_type(S.at(seq, kq_), SN, z3.Int('next_ref0'))), patterns=[S.at(seq, kq_)]))
        return V(r, List(SN))

    @reg.extern_method('SFG', 'successors', 'DiGraph.successors(node): fresh list of nodes')
    def _sfg_succ(ex, st, node, recv, args, kwargs):
        return _nodes(ex, st, recv, args[0], 'sfg_successors')

    @reg.extern_method('SFG', 'predecessors', 'DiGraph.predecessors(node): fresh list of nodes')
    def _sfg_pred(ex, st, node, recv, args, kwargs):
        return _nodes(ex, st, recv, args[0], 'sfg_predecessors')

    @reg.extern_method('SFG', 'get_edge_data', 'DiGraph.get_edge_data(u, v): None or the attribute dict (values: SFGEdge objects)')
    def _sfg_edge(ex, st, node, recv, args, kwargs):
        t = z3.Function('sfg_edge_attrs', z3.IntSort(), S.PyObj(), S.PyObj(), S.PyObj())(S.addr(recv.t), args[0].t, args[1].t)
        st.assume(z3.Or(S.is_none(t), S.has_type(t, Dict(Any, Obj('SFGEdge')), z3.Int('next_ref0'))))
        return V(t, Opt(Dict(Any, Obj('SFGEdge'))))
    for q, params in (('get_state_tag', dict(state_id=Any)), ('get_symbol_tag', dict(symbol_id=Any))):
        reg.add(Contract(TSF, 'TaintEnv.' + q, dict(self=Obj('TaintEnv'), **params), returns=Int, opaque=True, modifies=lambda c: {},
                         ensures=[('a-tag-bit-vector', lambda c: z3.And(S.ival(c.res) >= 0, S.ival(c.res) < 2 ** BITW))], note='tag lookup (16-bit vector)'))
    reg.add(Contract(TSF, 'TaintEnv.set_states_tag', dict(self=Obj('TaintEnv'), state_ids=List(Any), tag=Int), returns=Any, opaque=True, modifies=lambda c: {}, note='tag store (content of the environment is not modelled here)'))
    reg.add(Contract(TSF, 'TaintEnv.set_symbol_tag', dict(self=Obj('TaintEnv'), symbol_id=Any, tag=Int), returns=Any, opaque=True, modifies=lambda c: {}, note='tag store'))
    reg.add(Contract(TAF, 'PathFinder._enqueue', dict(self=PF, worklist=List(SN), in_worklist=Set(Any), node=SN), returns=NoneT,
                     ensures=[('a-node-already-marked-as-queued-is-not-queued-again;-otherwise-it-is-appended-once-and-marked', lambda c: z3.If(
                         z3.Select(c.old.dom(c.p.in_worklist), c.p.node),
                         z3.And(c.new.list(c.p.worklist) == c.old.list(c.p.worklist), c.new.dom(c.p.in_worklist) == c.old.dom(c.p.in_worklist)),
                         z3.And(c.new.list(c.p.worklist) == z3.Concat(c.old.list(c.p.worklist), z3.Unit(c.p.node)),
                                c.new.dom(c.p.in_worklist) == z3.Store(c.old.dom(c.p.in_worklist), c.p.node, True))))],
                     modifies=lambda c: {'list': [c.p.worklist], 'dom': [c.p.in_worklist]}, fresh_fields=[]))

    @reg.extern_method('RuleApplier', 'apply_propagation_rules', 'TaintRuleApplier.apply_propagation_rules(stmt node): whether the statement propagates taint (some bool)')
    def _apr(ex, st, node, recv, args, kwargs):
        return V(S.mk_bool(S.fresh('propagates', z3.BoolSort())), Bool)

    def hook_enqueue(ex, st, node):
        """before a call of self._enqueue in a propagation step"""
        env = st.env
        call = [n for n in ast.walk(node) if isinstance(n, ast.Call) and ast.unparse(n.func) == 'self._enqueue'][0]
        target_src = ast.unparse(call.args[2])
        target = ex.ev(call.args[2], st).t
        et = env['etype'].t if 'etype' in env else st.sel('attr:edge_type', S.addr(env['data'].t))
        tag_var = 'pred_tag' if target_src == 'pred' else 'v_tag'
        reasons = []
        if tag_var in env:
            u, v = S.ival(env['u_tag'].t), S.ival(env[tag_var].t)
            reasons.append(bitop(ast.BitOr, u, v) != v)
        if ex.c.qualname.endswith('_propagate_from_symbol'):
            reasons.append(et == S.mk_int(z3.IntVal(2)))          # SYMBOL_IS_USED: the statement reads the symbol and must be re-read
        if ex.c.qualname.endswith('_propagate_from_stmt'):
            # the "never processed" rule: the node has not been dequeued in THIS propagation (self._processed_nodes, filled by the main loop)
            pn = st.sel('attr:_processed_nodes', S.addr(env['self'].t))
            reasons.append(z3.And(z3.Not(S.is_none(pn)), z3.Not(z3.Select(st.sel('dom', S.addr(pn)), target))))
        ex.oblige(st, 'taint-worklist:a-node-is-(re-)enqueued-only-when-its-tag-strictly-grows,-or-it-is-a-statement-using-the-symbol-just-processed,-or-it-was-never-dequeued-in-this-propagation',
                  z3.Or(*reasons) if reasons else z3.BoolVal(False), kind='lemma')

    def hook_set(ex, st, node):
        """before a tag store: the stored tag is the old tag of the target OR the incoming tag (tags only grow)"""
        call = [n for n in ast.walk(node) if isinstance(n, ast.Call) and ast.unparse(n.func).startswith('self.taint_manager.set_')][0]
        arg = ex.ev(call.args[1], st)
        tag_var = 'pred_tag' if 'pred.node_id' in ast.unparse(call.args[0]) else 'v_tag'
        u, v = S.ival(st.env['u_tag'].t), S.ival(st.env[tag_var].t)
        ex.oblige(st, 'taint-worklist:a-stored-tag-is-the-target\'s-old-tag-OR-the-incoming-tag-(tags-only-grow)', S.ival(arg.t) == bitop(ast.BitOr, u, v), kind='lemma')
    PP = dict(self=PF, u=SN, u_tag=Int, worklist=List(SN), in_worklist=Set(Any))
    pf_mod = lambda c: {'list': [c.p.worklist], 'dom': [c.p.in_worklist]}
    for q in ('_propagate_from_symbol', '_propagate_from_state', '_propagate_from_stmt'):
        reg.add(Contract(TAF, 'PathFinder.' + q, PP, returns=NoneT,
                         requires=[('the-incoming-tag-is-a-bit-vector', lambda c: z3.And(S.ival(c.p.u_tag) >= 0, S.ival(c.p.u_tag) < 2 ** BITW))],
                         ghost_hooks={'before_stmt:self._enqueue(worklist, in_worklist, v)': hook_enqueue, 'before_stmt:self._enqueue(worklist, in_worklist, pred)': hook_enqueue,
                                      'before_stmt:self.taint_manager.set_states_tag(': hook_set,
                                      'before_stmt:self.taint_manager.set_symbol_tag(': hook_set},
                         loops={k: LoopSpec(invariants=[], modifies=pf_mod) for k in (1, 2, 3, 4)}, local_types=dict(weight=Obj('SFGEdge')),
                         modifies=lambda c: {'list': (lambda a: z3.Or(a == S.addr(c.p.worklist), a >= c.old.next)), 'dom': [c.p.in_worklist]}))
    # ---- propagate_taint: the "never dequeued in this propagation" rule is backed by a per-propagation set that receives every dequeued node ------------------------------------
    @reg.extern('collections.deque', 'collections.deque(): modelled as an empty list (append / popleft == pop(0) / truth)')
    def _deque(ex, st, node, args, kwargs):
        if args:
            raise Unsupported('deque(iterable)')
        r = ex.alloc(st, 'list')
        st.set_field('list', z3.Store(st.field('list'), S.addr(r), S.empty_seq()))
        return V(r, List(SN))

    @reg.extern('lian.taint.rule_manager.Rule', 'Rule(...): a tag-info record')
    def _rule(ex, st, node, args, kwargs):
        return V(S.fresh('tag_info'), Any)
    reg.add(Contract(TSF, 'TaintEnv.add_and_update_tag_bv', dict(self=Obj('TaintEnv'), tag_info=Any, current_taint=Any), returns=Int, opaque=True, modifies=lambda c: {},
                     ensures=[('a-tag-bit-vector', lambda c: z3.And(S.ival(c.res) >= 0, S.ival(c.res) < 2 ** BITW))], note='allocates the tag bit of the source'))
    reg.add(Contract(TSF, 'TaintEnv.mark_processed_node', dict(self=Obj('TaintEnv'), node=Any), returns=Any, opaque=True, modifies=lambda c: {}, allow_raise=('Exception',),
                     note='colouring bookkeeping for the graph dump'))
    reg.classes['SFGNode'].fields.update(dict(def_stmt_id=Any))
    STEP = dict(self=PF, u=SN, u_tag=Int, worklist=List(Any), in_worklist=Set(Any))
    reg.add(Contract(TAF, 'PathFinder._init_source_contamination', dict(self=PF, source=SN, tag=Int, worklist=List(SN), in_worklist=Set(Any)), returns=NoneT, opaque=True,
                     modifies=lambda c: {'list': [c.p.worklist], 'dom': [c.p.in_worklist]}, note='initial contamination of the source (enqueues through _enqueue)'))
    reg.add(Contract(TAF, 'PathFinder._get_node_tag', dict(self=PF, u=SN), returns=Int, opaque=True, modifies=lambda c: {},
                     ensures=[('a-tag-bit-vector', lambda c: z3.And(S.ival(c.res) >= 0, S.ival(c.res) < 2 ** BITW))], note='tag of a node in the current environment'))

    def hook_dequeued(ex, st, node):
        """before the tag of the dequeued node is read: the node is recorded as processed in THIS propagation"""
        c = ex.ctx(st)
        pn = c.cur.attr(c.p.self, '_processed_nodes')
        ex.oblige(st, 'taint-worklist:every-dequeued-node-is-recorded-in-the-per-propagation-set-that-the-never-processed-rule-reads',
                  z3.And(z3.Not(S.is_none(pn)), z3.Select(c.cur.dom(pn), st.env['u'].t), S.addr(pn) >= c.pre.next), kind='lemma')

    def hook_fresh_set(ex, st, node):
        c = ex.ctx(st)
        pn = c.cur.attr(c.p.self, '_processed_nodes')
        x_ = z3.Const('x', S.PyObj())
        ex.oblige(st, 'taint-worklist:the-per-propagation-set-starts-empty-for-every-source', z3.And(z3.Not(S.is_none(pn)), S.addr(pn) >= c.pre.next,
                                                                                                z3.ForAll([x_], z3.Not(z3.Select(c.cur.dom(pn), x_)))), kind='lemma')
    reg.add(Contract(TAF, 'PathFinder.propagate_taint', dict(self=PF, source=SN), returns=Int,
                     ghost_hooks={'before_stmt:self._init_source_contamination(': hook_fresh_set, 'before_stmt:u_tag = self._get_node_tag(u)': hook_dequeued},
                     loops={1: LoopSpec(invariants=[('the-per-propagation-set-stays-the-fresh-one', lambda c: z3.And(
                         c.cur.attr(c.p.self, '_processed_nodes') == c.head.attr(c.p.self, '_processed_nodes'), z3.Not(S.is_none(c.cur.attr(c.p.self, '_processed_nodes'))),
                         S.addr(c.cur.attr(c.p.self, '_processed_nodes')) >= c.pre.next, S.addr(c.l.worklist) >= c.pre.next, S.addr(c.l.in_worklist) >= c.pre.next,
                         c.l.worklist != c.l.in_worklist,
                         c.cur.attr(c.p.self, 'taint_manager') == c.pre.attr(c.p.self, 'taint_manager'), c.cur.attr(c.p.self, 'sfg') == c.pre.attr(c.p.self, 'sfg'),
                         z3.BoolVal(True)))], modifies=lambda c: {'list': (lambda a: a >= c.pre.next), 'dom': (lambda a: a >= c.pre.next)})},
                     ensures=[('the-tag-of-the-source-is-a-bit-vector', lambda c: z3.And(S.ival(c.res) >= 0, S.ival(c.res) < 2 ** BITW))],
                     modifies=lambda c: {'attr:_processed_nodes': [c.p.self], 'list': (lambda a: a >= c.old.next), 'dom': (lambda a: a >= c.old.next)}))
    return reg


def static_obligations(reg, tier):
    """what the frames assumed for the opaque analysis steps rest on, decided on the AST of every file under src/lian (syntactic, all files, every run):
    the round counters, the loop-round table, the round bound and the call-site counter table have exactly the known writers, and never escape into an alias"""
    import os
    from lianvc import source
    out = []

    def res(name, okv, detail=''):
        out.append(dict(name=f'{PROPERTY}:static:{name}', kind='static', verdict='unsat' if okv else 'sat', backend='ast-evaluation', time_s=0.0,
                        model=None if okv else {'detail': detail}, reason='' if okv else detail))
    TABLES = ('stmt_counters', 'loop_total_rounds', 'call_site_analyze_counter', 'max_analysis_round')
    # structural, not textual: (file, enclosing function, table, shape of the write).  Renaming locals or reformatting does not matter; a new writer, a writer in
    # another function, or a different kind of value does.
    ALLOWED = {
        ('src/lian/common_structs.py', 'ComputeFrame.__init__', 'stmt_counters', 'attr = {}'), ('src/lian/common_structs.py', 'ComputeFrame.__init__', 'loop_total_rounds', 'attr = {}'),
        ('src/lian/common_structs.py', 'ComputeFrame.__init__', 'call_site_analyze_counter', 'attr = parameter'),
        ('src/lian/taint/taint_structs.py', '*', 'stmt_counters', 'attr = {}'),
        ('src/lian/core/global_semantics.py', '*.__init__', 'max_analysis_round', 'attr = config constant'),
        ('src/lian/core/global_semantics.py', '*.__init__', 'call_site_analyze_counter', 'attr = {}'),
        ('src/lian/core/global_semantics.py', '*.run', 'call_site_analyze_counter', 'attr = {}'),
        ('src/lian/core/global_semantics.py', '*.init_compute_frame', 'stmt_counters', 'item = config constant'),
        ('src/lian/core/prelim_semantics.py', '*.__init__', 'max_analysis_round', 'attr = config constant'),
        ('src/lian/core/prelim_semantics.py', '*.init_compute_frame', 'stmt_counters', 'item = config constant'),
        ('src/lian/core/prelim_semantics.py', '*.analyze_stmts', 'stmt_counters', 'item += 1'),
        ('src/lian/core/global_stmt_states.py', '*.compute_target_method_states', 'call_site_analyze_counter', 'item = same item (default 0) + 1'),
    }

    def allowed(w):
        rel, fn, tbl, shape = w
        return any(a_[0] == rel and a_[2] == tbl and a_[3] == shape and (a_[1] == '*' or a_[1] == fn or (a_[1].startswith('*.') and fn.endswith(a_[1][1:])))
                   for a_ in ALLOWED)

    def is_config_const(e, fn_node):
        if isinstance(e, ast.Attribute) and isinstance(e.value, ast.Name) and e.value.id == 'config':
            return True
        if isinstance(e, ast.Name) and fn_node is not None:
            vals = [s_.value for s_ in ast.walk(fn_node) if isinstance(s_, ast.Assign) and any(isinstance(t_, ast.Name) and t_.id == e.id for t_ in s_.targets)]
            return bool(vals) and all(is_config_const(v_, None) for v_ in vals)
        return False

    def shape_of(stmt, target, fn_node):
        kind = 'item' if isinstance(target, ast.Subscript) else 'attr'
        if isinstance(stmt, ast.AugAssign):
            return f'{kind} += 1' if isinstance(stmt.op, ast.Add) and isinstance(stmt.value, ast.Constant) and stmt.value.value == 1 else f'{kind} augmented: {ast.unparse(stmt)[:60]}'
        if isinstance(stmt, (ast.Assign, ast.AnnAssign)) and stmt.value is not None:
            v = stmt.value
            if isinstance(v, ast.Dict) and not v.keys:
                return f'{kind} = {{}}'
            if is_config_const(v, fn_node):
                return f'{kind} = config constant'
            if isinstance(v, ast.Name) and fn_node is not None and v.id in [a_.arg for a_ in fn_node.args.args + fn_node.args.kwonlyargs] and not any(
                    isinstance(s_, (ast.Assign, ast.AugAssign, ast.AnnAssign)) and any(isinstance(t_, ast.Name) and t_.id == v.id for t_ in (s_.targets if isinstance(s_, ast.Assign) else [s_.target]))
                    for s_ in ast.walk(fn_node)):
                return f'{kind} = parameter'
            if kind == 'item' and isinstance(v, ast.BinOp) and isinstance(v.op, ast.Add) and isinstance(v.left, ast.Name) and fn_node is not None:
                # an explaining temporary bound exactly once in the function: look through it
                binds = [s_.value for s_ in ast.walk(fn_node) if isinstance(s_, ast.Assign) and any(isinstance(t_, ast.Name) and t_.id == v.left.id for t_ in s_.targets)]
                others = [s_ for s_ in ast.walk(fn_node) if isinstance(s_, (ast.AugAssign, ast.AnnAssign, ast.For, ast.NamedExpr)) and any(
                    isinstance(t_, ast.Name) and t_.id == v.left.id and isinstance(t_.ctx, ast.Store) for t_ in ast.walk(s_.target))]
                if len(binds) == 1 and not others:
                    v = ast.BinOp(left=binds[0], op=v.op, right=v.right)
            if kind == 'item' and isinstance(v, ast.BinOp) and isinstance(v.op, ast.Add) and isinstance(v.right, ast.Constant) and v.right.value == 1 and \
                    isinstance(v.left, ast.Call) and isinstance(v.left.func, ast.Attribute) and v.left.func.attr == 'get' and \
                    ast.unparse(v.left.func.value) == ast.unparse(target.value) and len(v.left.args) == 2 and ast.unparse(v.left.args[0]) == ast.unparse(target.slice) and \
                    isinstance(v.left.args[1], ast.Constant) and v.left.args[1].value == 0:
                return 'item = same item (default 0) + 1'
        return f'{kind} other: {ast.unparse(stmt)[:70]}'

    writers, escapes, ctor_sites = [], [], []
    root = os.path.join(source.REPO, 'src', 'lian')
    for dp, dn, fn in os.walk(root):
        for f_ in sorted(fn):
            if not f_.endswith('.py'):
                continue
            pth = os.path.join(dp, f_)
            rel = os.path.relpath(pth, source.REPO)
            try:
                tree = ast.parse(open(pth, encoding='utf-8').read())
            except SyntaxError:
                continue
            parents = {}
            for n in ast.walk(tree):
                for ch in ast.iter_child_nodes(n):
                    parents[id(ch)] = n
            for n in ast.walk(tree):
                if isinstance(n, ast.Call) and isinstance(n.func, ast.Name) and n.func.id == 'ComputeFrame' and rel.endswith('global_semantics.py'):
                    kw = {k.arg: ast.unparse(k.value) for k in n.keywords}
                    ctor_sites.append((n.lineno, kw.get('call_site_analyze_counter')))
                if not (isinstance(n, ast.Attribute) and n.attr in TABLES):
                    continue
                par = parents.get(id(n))
                stmt = par
                while stmt is not None and not isinstance(stmt, ast.stmt):
                    stmt = parents.get(id(stmt))
                src = ast.unparse(stmt)[:90] if stmt is not None else ''
                fn_node, cls_node = stmt, None
                while fn_node is not None and not isinstance(fn_node, (ast.FunctionDef, ast.AsyncFunctionDef)):
                    fn_node = parents.get(id(fn_node))
                cls_node = parents.get(id(fn_node)) if fn_node is not None else None
                fq = (f'{cls_node.name}.' if isinstance(cls_node, ast.ClassDef) else '') + (fn_node.name if fn_node is not None else '<module>')
                if isinstance(n.ctx, (ast.Store, ast.Del)):
                    writers.append((rel, fq, n.attr, shape_of(stmt, n, fn_node)))               # x.table = ...
                elif isinstance(par, ast.Subscript) and par.value is n:
                    if isinstance(par.ctx, (ast.Store, ast.Del)):
                        writers.append((rel, fq, n.attr, shape_of(stmt, par, fn_node)))         # x.table[k] = ... / += / del
                elif isinstance(par, ast.Attribute) and par.value is n:
                    if par.attr not in ('get', 'items', 'keys', 'values'):
                        if par.attr in ('pop', 'clear', 'update', 'setdefault', 'popitem', '__setitem__'):
                            writers.append((rel, fq, n.attr, f'method {par.attr}: {src}'))
                        else:
                            escapes.append((rel, src))
                elif isinstance(par, ast.Compare) or (isinstance(par, ast.Call) and isinstance(par.func, ast.Name) and par.func.id == 'len'):
                    pass                                                                    # `k in x.table`, comparisons of the bound, len()
                elif isinstance(par, ast.keyword) and par.arg == 'call_site_analyze_counter' and n.attr == 'call_site_analyze_counter':
                    pass                                                                    # handed to ComputeFrame(...): checked below
                elif isinstance(par, (ast.BinOp, ast.UnaryOp, ast.BoolOp, ast.IfExp, ast.FormattedValue, ast.JoinedStr)) and n.attr == 'max_analysis_round':
                    pass                                                                    # the bound is an int: reading it into an expression is not an alias
                else:
                    escapes.append((rel, src))
    bad_w = sorted({w for w in writers if not allowed(w)})
    res('the-round-counters,-the-bound-and-the-call-site-table-have-only-their-known-writers', not bad_w, f'unexpected writer(s): {bad_w[:4]}')
    res('no-alias-of-a-counter-table-escapes', not escapes, f'reference escapes: {sorted(set(escapes))[:4]}')
    bad_c = [c_ for c_ in ctor_sites if c_[1] != 'self.call_site_analyze_counter']
    res('every-ComputeFrame-of-the-global-phase-is-given-the-analysis-wide-call-site-table', bool(ctor_sites) and not bad_c, f'ComputeFrame(...) at {bad_c or "no site found"}')
    m = source.load(CS)
    init = m.function('ComputeFrame.__init__')
    rebinds = [ast.unparse(s_) for s_ in ast.walk(init) if isinstance(s_, (ast.Assign, ast.AugAssign, ast.AnnAssign)) and any(
        isinstance(t_, ast.Name) and t_.id == 'call_site_analyze_counter' for t_ in (s_.targets if isinstance(s_, ast.Assign) else [s_.target]))]
    stores = [ast.unparse(s_) for s_ in ast.walk(init) if isinstance(s_, (ast.Assign, ast.AnnAssign)) and any(
        isinstance(t_, ast.Attribute) and t_.attr == 'call_site_analyze_counter' for t_ in (s_.targets if isinstance(s_, ast.Assign) else [s_.target]))]
    res('ComputeFrame.__init__-keeps-the-very-table-it-is-given', stores == ['self.call_site_analyze_counter = call_site_analyze_counter'] and not rebinds, str((stores, rebinds)))
    # run(): one fresh table per entry point
    g = source.load('src/lian/core/global_semantics.py')
    run = g.function('GlobalAnalysis.run') if 'GlobalAnalysis.run' in g.functions else None
    if run is None:
        cands = [q for q in g.functions if q.endswith('.run')]
        run = g.function(cands[0]) if cands else None
    ok_run = False
    if run is not None:
        for n in ast.walk(run):
            if isinstance(n, ast.For) and 'get_entry_points' in ast.unparse(n.iter):
                body = [ast.unparse(s_) for s_ in n.body]
                if 'self.call_site_analyze_counter = {}' in body and any('init_frame_stack' in b for b in body) and \
                        body.index('self.call_site_analyze_counter = {}') < min(i for i, b in enumerate(body) if 'init_frame_stack' in b):
                    ok_run = True
    res('the-global-phase-starts-every-entry-point-with-a-fresh-call-site-table', ok_run, 'run(): no `self.call_site_analyze_counter = {}` before init_frame_stack in the entry-point loop')
    # phase-II frame driver: a frame leaves the stack only after its method was recorded as analysed. The caller that was interrupted for it pushes a callee again
    # whenever it is `not in self.analyzed_method_list` (and compute_target_method_states interrupts for every callee that is neither analysed nor on the stack), so a
    # frame popped without the record is pushed and popped forever: the per-statement counter only moves on completed visits. Structural (dominance in the block
    # structure of the loop body), not symbolic.
    am = source.load(PS).function('P2PrelimSemanticAnalysis.analyze_method')
    loops_ = [n for n in ast.walk(am) if isinstance(n, ast.While) and 'frame_stack' in ast.unparse(n.test)]
    pops, bad_pops, hazards = [], [], []
    RECORD = 'self.analyzed_method_list.add(frame.method_id)'
    if loops_:
        loop_ = loops_[0]
        par = {}
        for n in ast.walk(loop_):
            for fld in ('body', 'orelse', 'finalbody'):
                blk = getattr(n, fld, None)
                if isinstance(blk, list):
                    for i_, ch in enumerate(blk):
                        if isinstance(ch, ast.stmt):
                            par[id(ch)] = (n, blk, i_)
        for n in ast.walk(loop_):
            if isinstance(n, ast.Expr) and ast.unparse(n) == 'frame_stack.pop()':
                pops.append(n)
                cur, found = n, False
                while id(cur) in par and not found:
                    owner, blk, i_ = par[id(cur)]
                    found = any(isinstance(b_, ast.Expr) and ast.unparse(b_) == RECORD for b_ in blk[:i_])
                    if owner is loop_:
                        break
                    cur = owner
                if not found:
                    bad_pops.append(n.lineno)
            if isinstance(n, ast.Call) and isinstance(n.func, ast.Attribute) and ast.unparse(n.func.value) == 'self.analyzed_method_list' and \
                    n.func.attr in ('remove', 'discard', 'clear', 'pop', 'difference_update', 'intersection_update'):
                hazards.append(ast.unparse(n))
            if isinstance(n, (ast.Assign, ast.AugAssign, ast.AnnAssign)):
                for t_ in (n.targets if isinstance(n, ast.Assign) else [n.target]):
                    if (isinstance(t_, ast.Name) and t_.id == 'frame' and ast.unparse(n) != 'frame = frame_stack.peek()') or ast.unparse(t_) in ('self.analyzed_method_list', 'frame.method_id'):
                        hazards.append(ast.unparse(n)[:60])
    # merging callee fields into argument states: the descent over (possibly cyclic / shared) object graphs is cut by a marker keyed by what is being merged. The key must be
    # able to REPEAT when the graph comes back to the same pair of state sets: it may mention the statement, the two state sets and the symbol only — not the access path,
    # which grows with every descent — and the in-progress marker is set before anything descends. Structural.
    ss = source.load('src/lian/core/stmt_states.py').function('StmtStates.recursively_collect_children_fields')
    inner = [n for n in ast.walk(ss) if isinstance(n, ast.FunctionDef) and n.name == '_recursively_collect_children_fields']
    guard_ok, guard_detail = False, 'nested function _recursively_collect_children_fields not found'
    if inner:
        fn_ = inner[0]
        body = [b_ for b_ in fn_.body if not (isinstance(b_, ast.Expr) and isinstance(b_.value, ast.Constant))]
        params = [a_.arg for a_ in fn_.args.args]
        allowed_names = {'stmt_id', 'state_set_in_summary_field', 'state_set_in_arg_field', 'source_symbol_id', 'frozenset', 'tuple', 'sorted'}
        k0 = body[0] if body else None
        key_ok = isinstance(k0, ast.Assign) and ast.unparse(k0.targets[0]) == 'cache_key' and isinstance(k0.value, ast.Tuple) and \
            {n.id for n in ast.walk(k0.value) if isinstance(n, ast.Name)} <= allowed_names and \
            {'state_set_in_summary_field', 'state_set_in_arg_field'} <= {n.id for n in ast.walk(k0.value) if isinstance(n, ast.Name)} and \
            not any(isinstance(n, ast.Call) and ast.unparse(n.func) not in ('frozenset', 'tuple', 'sorted') for n in ast.walk(k0.value))
        rebinds = [ast.unparse(n)[:40] for n in ast.walk(fn_) if isinstance(n, (ast.Assign, ast.AugAssign)) and n is not k0 and any(
            ast.unparse(t_) == 'cache_key' for t_ in (n.targets if isinstance(n, ast.Assign) else [n.target]))]
        check = body[1] if len(body) > 1 else None
        check_ok = isinstance(check, ast.If) and ast.unparse(check.test) == 'cache_key in cache' and isinstance(check.body[-1], ast.Return)
        mark_pos = [i_ for i_, b_ in enumerate(body) if ast.unparse(b_) == 'cache[cache_key] = None']
        descents = [i_ for i_, b_ in enumerate(body) if any(isinstance(n, ast.Call) and ast.unparse(n.func) in ('_recursively_collect_children_fields', '_collect_children_fields',
                                                                                                              '_merge_fields', '_recursively_merge') or
                                                             (isinstance(n, ast.Call) and isinstance(n.func, ast.Name) and n.func.id.startswith('_') and n.func.id != '_recursively_collect_children_fields')
                                                             for n in ast.walk(b_))]
        guard_ok = bool(key_ok and not rebinds and check_ok and mark_pos and mark_pos[0] == 2 and all(d_ > mark_pos[0] for d_ in descents) and 'access_path' in params)
        guard_detail = f'key: {ast.unparse(k0)[:160] if k0 is not None else None}; rebinds {rebinds}; check_ok {check_ok}; marker at {mark_pos}; descents at {descents[:4]}'
    res('field-merge-descent:the-recursion-guard-is-keyed-by-the-merged-state-sets-only-(a-key-that-repeats-on-cyclic-and-shared-object-graphs)-and-is-set-before-descending',
        guard_ok, guard_detail)
    res('phase-II-frame-driver:a-frame-is-popped-only-after-its-method-is-recorded-in-analyzed_method_list', bool(pops) and not bad_pops and not hazards,
        f'analyze_method: frame_stack.pop() at line(s) {bad_pops} not preceded by `{RECORD}` in its block / an enclosing block of the same iteration; hazards {hazards}; pops found {len(pops)}')
    return out


EXTRA_OBLIGATIONS = [static_obligations]

ASSUMPTIONS = [
    'TERMINATION AND RUNNING TIME ARE NOT DECIDED. The statement is a liveness + complexity claim; what is proved are the safety invariants of the bounding mechanisms the '
    'anchors name (per-statement round counters, per-call-site counters, the cut-off predicate). That these bounds make the whole pipeline terminate in polynomial time '
    '(interruptions, frame stack, P2, imports, taint worklist) is not proved.',
    'the analysis steps called by analyze_stmts (analyze_reachable_symbols, compute_stmt_states, rerun_analyze_reachable_symbols, update_method_def_use_summary) are opaque: '
    'assumed to keep the queue invariant and not to write frame.stmt_counters / loop_total_rounds / max_analysis_round or re-point the frame tables; the static obligations '
    '(all writers of those names in src/lian, no escaping alias) back the counter part of that assumption syntactically',
    'prepare_parameters / map_arguments are opaque: assumed not to write the call-site counter table or the done-table and to leave pre-existing lists alone '
    '(except the mapping list passed in)',
    'heapq.heappush is trusted as "the list becomes a permutation of old + [x]" (heap order not modelled, not needed for the bound)',
    'PathManager.path_exists is used as a pure membership test (its exactness is proved in C19); util.graph_successors returns a fresh list of ints; '
    'GIRBlockViewer.get_stmt_by_id returns some row',
    'analyze_stmts precondition: queued items are ints and the frame tables are pairwise distinct objects (true after ComputeFrame.__init__: each is a fresh literal)',
    'taint worklist: _enqueue, the three propagation steps and the main loop of propagate_taint are proved as far as the RE-ENQUEUE RULE goes (strict tag growth, statement re-read, '
    'or never dequeued in this propagation; the per-propagation set is fresh and receives every dequeued node); that the worklist therefore drains within 16*|V| + |V| + |E| steps is '
    'not stated as a lemma; _init_source_contamination and _get_node_tag are opaque; collections.deque is modelled as a list; self.sfg / self.taint_manager are properties read as '
    'stable attributes; getattr(self, "_processed_nodes", None) is read as the attribute (its presence is assumed)',
    'the size caps named in the anchors are not under contract: MAX_ARRAY_ELEMENT_STATES, MAX_TYPE_CAST_SOURCE_STATES, '
    'MAX_METHOD_CALL_COUNT, MAX_STMT_TAINT_ANALYSIS_COUNT are defined in config.py and referenced nowhere; loop_total_rounds is never written, so that branch is dead',
    'static obligations are syntactic facts about every file under src/lian (AST evaluation), not deductive proofs',
]
EXPLANATION = ('Deductive proof on the real code of the bounding invariants: in analyze_stmts a statement reaches compute_stmt_states only while its round counter is below its '
               'bound, every completed visit adds exactly one to that counter, counters never decrease and the tables stay in place; complete_in_states_and_check_continue_flag '
               'answers False at the bound; compute_target_method_states selects a callee only while its call-site counter is within MAX_ANALYSIS_ROUND_FOR_CALL_SITE, the '
               'path is not stored and closes at most one cycle, and selecting adds exactly one; SimpleWorkList never queues an item twice. Termination/complexity: not decided.')
QUICK_CANARIES = {
    'P2PrelimSemanticAnalysis.analyze_stmts': ['delete-stmt[frame.stmt_counters[stmt_id] += 1]', 'off-by-one', 'flip-comparison'],
    'P2PrelimSemanticAnalysis.complete_in_states_and_check_continue_flag': ['flip-comparison', 'negate-condition'],
    'GlobalStmtStates.compute_target_method_states': ['flip-comparison', 'delete-stmt[self.frame.call_site_analyze_counter[new_call_site] =', 'delete-stmt[continue]'],
    'SimpleWorkList._add_with_priority': ['negate-condition', 'delete-stmt[self.all_data.add(item)]'],
    'SimpleWorkList.pop': ['delete-stmt[self.all_data.remove(result)]', 'flip-comparison'],
    'PathFinder._enqueue': ['negate-condition', 'delete-stmt[in_worklist.add(node)]'],
    'PathFinder._propagate_from_symbol': ['flip-comparison'],
    'PathFinder._propagate_from_stmt': ['flip-comparison', 'negate-condition'],
    'PathFinder.propagate_taint': ['delete-stmt[self._processed_nodes.add(u)]', 'delete-stmt[self._processed_nodes = set()]'],
}
MIN_CANARY_KILL_RATIO = 0.8
# survivors that do not touch the bounding mechanism: the unknown-callee report, and a statement after the verified prefix
EQUIVALENT_MUTANTS = ('flip-comparison @L105: len(callee_method_ids) == 0', 'flip-comparison @L143: len(callee_ids_to_be_analyzed) != 0')
