"""C04 — Every concrete execution of a method is a path in its control-flow graph: the edge-producing handlers, proved on the real control_flow.py.

The CFG under construction is read through a ghost LOG of the calls `self.cfg.add_edge(src, dst, kind)` (append-only); BasicGraph._add_one_edge is proved against the edge
relation of the networkx graph (an edge is added iff src != dst, src >= 0 and no edge src->dst exists; nothing is ever removed).

Proved (all frontiers, all statement rows, all iterations):
  link_parent_stmts_to_current_stmt : exactly one add_edge per frontier element, in order: (node.stmt, current, node.edge) for a CFGNode, (node, current, EMPTY) otherwise
  analyze_return_stmt / analyze_break_stmt / analyze_continue_stmt : the frontier is linked to the statement; return adds (stmt, -1, RETURN); break/continue are collected for
      the enclosing loop; the frontier is cut ([] , boundary -1)
  deal_with_last_stmts_of_loop_body : every element of the body frontier gets an edge to the loop header (LOOP_BACK for plain statements, its own kind for a CFGNode); every
      element of the result but the last is a break statement collected for THIS loop; the last one is CFGNode(header, LOOP_FALSE) (the normal exit) unless the condition is the
      literal true; a collected continue is linked to the header with CONTINUE; nothing else is added to the graph
  analyze_while_stmt : the body is analysed from [CFGNode(header, LOOP_TRUE)] with a FRESH collector; an else body is analysed with the ENCLOSING collector and replaces
      exactly the normal exit CFGNode(header, LOOP_FALSE) of the frontier (fix 36fdbc5)
  analyze_if_stmt : missing arms are stood in for by CFGNode(cond, IF_TRUE) / CFGNode(cond, IF_FALSE); the frontier is then-exits ++ else-exits
  analyze_dowhile_stmt : the body is analysed from (a copy of) the incoming frontier plus CFGNode(header, LOOP_TRUE) with a fresh collector; the loop is closed on its own header
  analyze_for_stmt : init block from the incoming frontier, condition block from the init exits (both with the enclosing collector), body from [CFGNode(header, LOOP_TRUE)] with a
      fresh collector, update + condition blocks after the body with the loop's own collector, closed on its own header
analyze_block is used through an ASSUMED contract (recursion: the handlers call it, it calls the handlers).
"""
import ast
import z3
from lianvc import sorts as S
from lianvc.sorts import Any, Int, Bool, Str, NoneT, Opt, List, Dict, Set, Tuple, TupleOf, Obj, Val, Fn, Opaque
from lianvc.contracts import Contract, ClassInfo, LoopSpec, Registry
from lianvc.engine import V, Outcome, Unsupported, below
from lianvc import engine
from contracts import shared

PROPERTY = 'C04'
REPLAY = 'c04_replay.py'
CF = 'src/lian/basics/control_flow.py'
CS = 'src/lian/common_structs.py'
KIND = dict(EMPTY=0, IF_TRUE=1, IF_FALSE=2, LOOP_TRUE=4, LOOP_FALSE=5, LOOP_BACK=6, BREAK=7, CONTINUE=8, RETURN=9)


def build():
    reg = Registry()
    shared.register_util(reg)
    engine.GHOST_FIELD_SORTS['ghost:cfg_log'] = lambda: z3.ArraySort(z3.IntSort(), S.SeqP())
    engine.GHOST_FIELD_SORTS['ghost:nx_edge'] = lambda: z3.ArraySort(z3.IntSort(), z3.ArraySort(S.PyObj(), z3.ArraySort(S.PyObj(), z3.BoolSort())))
    reg.add_class(ClassInfo('CFGNode', CS, dict(stmt=Any, edge=Any)))
    reg.add_class(ClassInfo('ControlFlowGraph', CS, {}, kind='opaque'))
    reg.add_class(ClassInfo('GIRBlockViewer', CF, {}, kind='opaque'))
    reg.add_class(ClassInfo('GIRRow', CF, dict(operation=Any, condition=Opt(Str), body=Any, else_body=Any, then_body=Any, stmt_id=Int)))
    reg.add_class(ClassInfo('ControlFlowAnalysis', CF, dict(cfg=Opaque('ControlFlowGraph'), method_body=Opaque('GIRBlockViewer'))))
    CFA, ROW, NODE = Obj('ControlFlowAnalysis'), Obj('GIRRow'), Obj('CFGNode')
    kq = z3.Int('k')
    ik = lambda name: S.mk_int(z3.IntVal(KIND[name]))
    for k_, v_ in KIND.items():
        reg.const_values['CONTROL_FLOW_KIND.' + k_] = (lambda ex, st, _v=v_: V(S.mk_int(z3.IntVal(_v)), Int))

    def log(h, self_):
        return z3.Select(h.ghost('cfg_log'), S.addr(h.attr(self_, 'cfg')))

    @reg.extern_method('ControlFlowGraph', 'add_edge', 'ControlFlowGraph.add_edge(src, dst, kind): recorded in the ghost log of the graph (its effect on the networkx graph: BasicGraph.add_edge / _add_one_edge)')
    def _add_edge(ex, st, node, recv, args, kwargs):
        kind = args[2].t if len(args) > 2 else kwargs.get('control_flow_type', V(S.NONE(), NoneT)).t
        a = S.addr(recv.t)
        old = z3.Select(st.field('ghost:cfg_log'), a)
        st.set_field('ghost:cfg_log', z3.Store(st.field('ghost:cfg_log'), a, z3.Concat(old, z3.Unit(S.mk_tup(S.seq_of(args[0].t, args[1].t, kind))))))
        return V(S.NONE(), NoneT)
    reg.add(Contract(CS, 'CFGNode.__init__', dict(self=NODE, stmt=Any, edge=Any), returns=NoneT,
                     ensures=[('stores-its-two-arguments', lambda c: z3.And(c.new.attr(c.p.self, 'stmt') == c.p.stmt, c.new.attr(c.p.self, 'edge') == c.p.edge))],
                     modifies=lambda c: {'attr:stmt': [c.p.self], 'attr:edge': [c.p.self]}))

    # ---- the networkx side: _add_one_edge ---------------------------------------------------------------------------------------------------------------------
    reg.add_class(ClassInfo('NxGraph', CS, {}, kind='opaque'))
    reg.add_class(ClassInfo('BasicGraph', CS, dict(graph=Opaque('NxGraph'))))

    def E(h, g):
        return z3.Select(h.ghost('nx_edge'), S.addr(g))

    @reg.extern_method('NxGraph', 'has_edge', 'MultiDiGraph.has_edge(u, v): some edge u->v exists')
    def _has(ex, st, node, recv, args, kwargs):
        return V(S.mk_bool(z3.Select(z3.Select(z3.Select(st.field('ghost:nx_edge'), S.addr(recv.t)), args[0].t), args[1].t)), Bool)

    @reg.extern_method('NxGraph', 'add_edge', 'MultiDiGraph.add_edge(u, v, weight=w): an edge u->v exists afterwards; no other pair changes')
    def _nx_add(ex, st, node, recv, args, kwargs):
        a = S.addr(recv.t)
        rel = z3.Select(st.field('ghost:nx_edge'), a)
        st.set_field('ghost:nx_edge', z3.Store(st.field('ghost:nx_edge'), a, z3.Store(rel, args[0].t, z3.Store(z3.Select(rel, args[0].t), args[1].t, True))))
        return V(S.NONE(), NoneT)
    uq, vq = z3.Consts('u v', S.PyObj())
    reg.add(Contract(CS, 'BasicGraph._add_one_edge', dict(self=Obj('BasicGraph'), src_stmt_id=Int, dst_stmt_id=Int, weight=Any), returns=NoneT,
                     ensures=[('the-edge-exists-afterwards-unless-it-is-a-self-loop-or-starts-at-a-negative-id;-no-other-pair-changes;-nothing-is-removed', lambda c: z3.ForAll([uq, vq], z3.Select(z3.Select(
                         E(c.new, c.old.attr(c.p.self, 'graph')), uq), vq) == z3.Or(z3.Select(z3.Select(E(c.old, c.old.attr(c.p.self, 'graph')), uq), vq), z3.And(
                             uq == c.p.src_stmt_id, vq == c.p.dst_stmt_id, c.p.src_stmt_id != c.p.dst_stmt_id, S.ival(c.p.src_stmt_id) >= 0))))],
                     modifies=lambda c: {'ghost:nx_edge': [c.old.attr(c.p.self, 'graph')]}))

    # ---- link_parent_stmts_to_current_stmt -------------------------------------------------------------------------------------------------------------------------
    def is_node(x):
        return z3.And(S.is_ref(x), S.tyof(S.addr(x)) == S.type_id('CFGNode'))

    def entry(h, node, cur):
        return z3.If(is_node(node), S.mk_tup(S.seq_of(h.attr(node, 'stmt'), cur, h.attr(node, 'edge'))), S.mk_tup(S.seq_of(node, cur, ik('EMPTY'))))

    def linked(c, h_after, Fseq, cur, base, n):
        """the log after == log before(base) ++ [entry(F[k]) for k < n]"""
        L1 = log(h_after, c.p.self)
        return z3.And(z3.Length(L1) == z3.Length(base) + n,
                      S.forall([kq], z3.Implies(z3.And(kq >= 0, kq < z3.Length(base)), S.at(L1, kq) == S.at(base, kq)), patterns=[S.at(L1, kq)]),
                      S.forall([kq], z3.Implies(z3.And(kq >= 0, kq < n), S.at(L1, z3.Length(base) + kq) == entry(c.pre, S.at(Fseq, kq), cur)), patterns=[S.at(Fseq, kq)]),
                      # the same fact, triggered from the log side
                      S.forall([kq], z3.Implies(z3.And(kq >= z3.Length(base), kq < z3.Length(base) + n), S.at(L1, kq) == entry(c.pre, S.at(Fseq, kq - z3.Length(base)), cur)), patterns=[S.at(L1, kq)]))
    reg.linked, reg.log, reg.entry = linked, log, entry
    reg.add(Contract(CF, 'ControlFlowAnalysis.link_parent_stmts_to_current_stmt', dict(self=CFA, parent_stmts=List(Any), current_stmt=Any), returns=NoneT,
                     loops={1: LoopSpec(invariants=[('one-add_edge-per-frontier-element-seen-so-far,-in-order', lambda c: z3.And(
                         c.cur.attr(c.p.self, 'cfg') == c.pre.attr(c.p.self, 'cfg'), linked(c, c.cur, c.pre.list(c.p.parent_stmts), c.p.current_stmt, log(c.pre, c.p.self), c.i)))],
                                        modifies=lambda c: {'ghost:cfg_log': [c.pre.attr(c.p.self, 'cfg')]})},
                     ensures=[('exactly-one-add_edge-per-frontier-element,-in-order:-(node.stmt,-current,-node.edge)-for-a-CFGNode,-(node,-current,-EMPTY)-otherwise',
                               lambda c: linked(c, c.new, c.old.list(c.p.parent_stmts), c.p.current_stmt, log(c.old, c.p.self), z3.Length(c.old.list(c.p.parent_stmts))))],
                     modifies=lambda c: {'ghost:cfg_log': [c.old.attr(c.p.self, 'cfg')]}, fresh_fields=[]))

    # ---- leaf handlers -------------------------------------------------------------------------------------------------------------------------------------------------
    def cut_frontier(c):
        r = S.items(c.res)
        return z3.And(z3.Length(c.new.list(S.at(r, 0))) == 0, S.at(r, 1) == S.mk_int(z3.IntVal(-1)), S.addr(S.at(r, 0)) >= c.old.next)
    HP = dict(self=CFA, current_block=Any, current_stmt=ROW, parent_stmts=List(Any), global_special_stmts=List(Any))
    n_par = lambda c: z3.Length(c.old.list(c.p.parent_stmts))
    reg.add(Contract(CF, 'ControlFlowAnalysis.analyze_return_stmt', HP, returns=Tuple(List(Any), Int),
                     ensures=[('the-frontier-is-linked-to-the-return-statement,-then-(stmt,--1,-RETURN)-is-added', lambda c: z3.And(
                         z3.Length(log(c.new, c.p.self)) == z3.Length(log(c.old, c.p.self)) + n_par(c) + 1,
                         S.at(log(c.new, c.p.self), z3.Length(log(c.old, c.p.self)) + n_par(c)) == S.mk_tup(S.seq_of(c.p.current_stmt, S.mk_int(z3.IntVal(-1)), ik('RETURN'))),
                         S.forall([kq], z3.Implies(z3.And(kq >= 0, kq < n_par(c)), S.at(log(c.new, c.p.self), z3.Length(log(c.old, c.p.self)) + kq) ==
                                                    entry(c.old, S.at(c.old.list(c.p.parent_stmts), kq), c.p.current_stmt))))),
                         ('the-frontier-is-cut', cut_frontier)],
                     modifies=lambda c: {'ghost:cfg_log': [c.old.attr(c.p.self, 'cfg')]}))
    for q in ('analyze_break_stmt', 'analyze_continue_stmt'):
        reg.add(Contract(CF, 'ControlFlowAnalysis.' + q, HP, returns=Tuple(List(Any), Int),
                         requires=[('frontier-and-collector-are-different-lists', lambda c: c.p.parent_stmts != c.p.global_special_stmts)],
                         ensures=[('the-frontier-is-linked-to-the-statement', lambda c: linked(c, c.new, c.old.list(c.p.parent_stmts), c.p.current_stmt, log(c.old, c.p.self), n_par(c))),
                                  ('the-statement-is-collected-for-the-enclosing-loop', lambda c: c.new.list(c.p.global_special_stmts) == z3.Concat(
                                      c.old.list(c.p.global_special_stmts), z3.Unit(c.p.current_stmt))),
                                  ('the-frontier-is-cut', cut_frontier)],
                         modifies=lambda c: {'ghost:cfg_log': [c.old.attr(c.p.self, 'cfg')], 'list': [c.p.global_special_stmts]}))
    # ---- loops ------------------------------------------------------------------------------------------------------------------------------------------------------------
    def lit_true(h, stmt):
        cnd = h.attr(stmt, 'condition')
        return z3.And(z3.Not(shared.empty(cnd, h)), z3.Or(cnd == S.mk_str(z3.StringVal('true')), cnd == S.mk_str(z3.StringVal('True'))))

    def is_break_of(c, x):
        """x is a break statement that was collected for this loop (an element of the collector at entry)"""
        return z3.And(S.member(c.pre.list(c.p.special_stmts), x), c.pre.attr(x, 'operation') == S.mk_str(z3.StringVal('break_stmt')))

    def normal_exit(h, x, stmt):
        return z3.And(S.is_ref(x), S.tyof(S.addr(x)) == S.type_id('CFGNode'), h.attr(x, 'stmt') == stmt, h.attr(x, 'edge') == ik('LOOP_FALSE'))
    reg.normal_exit, reg.lit_true = normal_exit, lit_true

    def back_entry(h, x, cur):
        return z3.If(is_node(x), S.mk_tup(S.seq_of(h.attr(x, 'stmt'), cur, h.attr(x, 'edge'))), S.mk_tup(S.seq_of(x, cur, ik('LOOP_BACK'))))

    exit_pos_of = z3.Function('normal_exit_position', S.PyObj(), z3.IntSort())

    def dw_result(c):
        """order-agnostic: the result holds breaks collected for this loop and the normal exit, nothing else; no collected break is lost"""
        R = c.new.list(c.res)
        n = z3.Length(R)
        SP = c.old.list(c.p.special_stmts)
        only = S.forall([kq], z3.Implies(z3.And(kq >= 0, kq < n), z3.Or(is_break_of(c, S.at(R, kq)), z3.And(z3.Not(lit_true(c.old, c.p.current_stmt)), normal_exit(c.new, S.at(R, kq), c.p.current_stmt)))),
                        patterns=[S.at(R, kq)])
        pos = exit_pos_of(c.res)        # skolem witness: where the normal exit was put (defined, for this fresh list, at the statement that appends it)
        has_exit = z3.Implies(z3.Not(lit_true(c.old, c.p.current_stmt)), z3.And(pos >= 0, pos < n, normal_exit(c.new, S.at(R, pos), c.p.current_stmt)))
        no_break_lost = S.forall([kq], z3.Implies(z3.And(kq >= 0, kq < z3.Length(SP), c.old.attr(S.at(SP, kq), 'operation') == S.mk_str(z3.StringVal('break_stmt'))), S.member(R, S.at(SP, kq))),
                                 patterns=[S.at(SP, kq)])
        return z3.And(S.addr(c.res) >= c.old.next, only, has_exit, no_break_lost)

    def dw_back_edges(c):
        L0, L1 = log(c.old, c.p.self), log(c.new, c.p.self)
        F = c.old.list(c.p.last_stmts)
        return z3.And(z3.Length(L1) >= z3.Length(L0) + z3.Length(F),
                      S.forall([kq], z3.Implies(z3.And(kq >= 0, kq < z3.Length(L0)), S.at(L1, kq) == S.at(L0, kq)), patterns=[S.at(L1, kq)]),
                      S.forall([kq], z3.Implies(z3.And(kq >= 0, kq < z3.Length(F)), S.at(L1, z3.Length(L0) + kq) == back_entry(c.old, S.at(F, kq), c.p.current_stmt)), patterns=[S.at(F, kq)]),
                      # everything after the back edges is a CONTINUE edge from a collected continue statement to this header
                      S.forall([kq], z3.Implies(z3.And(kq >= z3.Length(L0) + z3.Length(F), kq < z3.Length(L1)), z3.And(
                          S.at(S.items(S.at(L1, kq)), 1) == c.p.current_stmt, S.at(S.items(S.at(L1, kq)), 2) == ik('CONTINUE'),
                          S.member(c.old.list(c.p.special_stmts), S.at(S.items(S.at(L1, kq)), 0)),
                          c.old.attr(S.at(S.items(S.at(L1, kq)), 0), 'operation') == S.mk_str(z3.StringVal('continue_stmt')))), patterns=[S.at(L1, kq)]))

    def log_tail(c):
        """(loop 2) the log is: entry log ++ back edges ++ CONTINUE edges of collected continues"""
        L0, L1 = log(c.pre, c.p.self), log(c.cur, c.p.self)
        F = c.pre.list(c.p.last_stmts)
        return z3.And(z3.Length(L1) >= z3.Length(L0) + z3.Length(F),
                      S.forall([kq], z3.Implies(z3.And(kq >= 0, kq < z3.Length(L0)), S.at(L1, kq) == S.at(L0, kq)), patterns=[S.at(L1, kq)]),
                      S.forall([kq], z3.Implies(z3.And(kq >= 0, kq < z3.Length(F)), S.at(L1, z3.Length(L0) + kq) == back_entry(c.pre, S.at(F, kq), c.p.current_stmt)), patterns=[S.at(F, kq)]),
                      S.forall([kq], z3.Implies(z3.And(kq >= z3.Length(L0) + z3.Length(F), kq < z3.Length(L1)), z3.And(
                          S.at(S.items(S.at(L1, kq)), 1) == c.p.current_stmt, S.at(S.items(S.at(L1, kq)), 2) == ik('CONTINUE'),
                          S.member(c.pre.list(c.p.special_stmts), S.at(S.items(S.at(L1, kq)), 0)),
                          c.pre.attr(S.at(S.items(S.at(L1, kq)), 0), 'operation') == S.mk_str(z3.StringVal('continue_stmt')))), patterns=[S.at(L1, kq)]))
    sp_n = lambda c: z3.Length(c.pre.list(c.p.special_stmts))
    reg.add(Contract(CF, 'ControlFlowAnalysis.deal_with_last_stmts_of_loop_body',
                     dict(self=CFA, current_stmt=ROW, last_stmts=List(Any), special_stmts=List(ROW), global_special_stmts=List(Any), current_stmt_edge=Any), returns=List(Any),
                     requires=[('the-three-lists-are-different-objects', lambda c: z3.Distinct(c.p.last_stmts, c.p.special_stmts, c.p.global_special_stmts))],
                     ghost_hooks={'after_stmt:result.append(CFGNode(current_stmt, CONTROL_FLOW_KIND.LOOP_FALSE))': (lambda ex, st, node: st.assume(
                         exit_pos_of(st.env['result'].t) == z3.Length(st.sel('list', S.addr(st.env['result'].t))) - 1))},
                     loops={1: LoopSpec(invariants=[('the-frontier-elements-seen-so-far-are-wrapped-or-kept', lambda c: z3.And(
                         S.addr(c.l.last_stmt_nodes) >= c.pre.next, z3.Length(c.cur.list(c.l.last_stmt_nodes)) == c.i, log(c.cur, c.p.self) == log(c.pre, c.p.self),
                         c.cur.attr(c.p.self, 'cfg') == c.pre.attr(c.p.self, 'cfg'),
                         S.forall([kq], z3.Implies(z3.And(kq >= 0, kq < c.i), z3.And(
                             is_node(S.at(c.cur.list(c.l.last_stmt_nodes), kq)),
                             S.mk_tup(S.seq_of(c.cur.attr(S.at(c.cur.list(c.l.last_stmt_nodes), kq), 'stmt'), c.p.current_stmt, c.cur.attr(S.at(c.cur.list(c.l.last_stmt_nodes), kq), 'edge'))) ==
                             back_entry(c.pre, S.at(c.pre.list(c.p.last_stmts), kq), c.p.current_stmt))), patterns=[S.at(c.cur.list(c.l.last_stmt_nodes), kq)])))],
                         modifies=lambda c: {'list': [c.l.last_stmt_nodes], 'attr:stmt': (lambda a: a >= c.pre.next), 'attr:edge': (lambda a: a >= c.pre.next)}),
                            2: LoopSpec(invariants=[('collected-so-far:-breaks-go-to-the-result,-continues-are-linked-to-the-header,-the-unseen-prefix-of-the-collector-is-untouched', lambda c: z3.And(
                                S.addr(c.l.result) >= c.pre.next, c.cur.attr(c.p.self, 'cfg') == c.pre.attr(c.p.self, 'cfg'),
                                z3.Length(c.cur.list(c.p.special_stmts)) >= sp_n(c) - c.i, z3.Length(c.cur.list(c.p.special_stmts)) <= sp_n(c),
                                S.forall([kq], z3.Implies(z3.And(kq >= 0, kq < sp_n(c) - c.i), S.at(c.cur.list(c.p.special_stmts), kq) == S.at(c.pre.list(c.p.special_stmts), kq)),
                                          patterns=[S.at(c.cur.list(c.p.special_stmts), kq)]),
                                S.forall([kq], z3.Implies(z3.And(kq >= 0, kq < z3.Length(c.cur.list(c.l.result))), z3.Or(
                                    is_break_of(c, S.at(c.cur.list(c.l.result), kq)), z3.And(z3.Not(lit_true(c.pre, c.p.current_stmt)), normal_exit(c.cur, S.at(c.cur.list(c.l.result), kq), c.p.current_stmt)))),
                                          patterns=[S.at(c.cur.list(c.l.result), kq)]),
                                z3.Length(c.cur.list(c.l.result)) >= z3.Length(c.head.list(c.l.result)),
                                S.forall([kq], z3.Implies(z3.And(kq >= 0, kq < z3.Length(c.head.list(c.l.result))), S.at(c.cur.list(c.l.result), kq) == S.at(c.head.list(c.l.result), kq)),
                                          patterns=[S.at(c.cur.list(c.l.result), kq)]),
                                S.forall([kq], z3.Implies(z3.And(kq >= sp_n(c) - c.i, kq < sp_n(c), c.pre.attr(S.at(c.pre.list(c.p.special_stmts), kq), 'operation') == S.mk_str(z3.StringVal('break_stmt'))),
                                                          S.member(c.cur.list(c.l.result), S.at(c.pre.list(c.p.special_stmts), kq))), patterns=[S.at(c.pre.list(c.p.special_stmts), kq)]),
                                log_tail(c)))],
                                modifies=lambda c: {'list': [c.l.result, c.p.special_stmts], 'ghost:cfg_log': [c.pre.attr(c.p.self, 'cfg')],
                                                    'attr:stmt': (lambda a: a >= c.pre.next), 'attr:edge': (lambda a: a >= c.pre.next)})},
                     ensures=[('every-element-of-the-body-frontier-gets-an-edge-to-the-header;-after-those-only-CONTINUE-edges-of-collected-continue-statements', dw_back_edges),
                              ('the-result-holds-exactly-the-breaks-collected-for-this-loop-and-the-normal-exit-CFGNode(header,-LOOP_FALSE)-(absent-for-a-literal-true-condition);-no-break-is-lost', dw_result)],
                     modifies=lambda c: {'list': [c.p.special_stmts, c.p.global_special_stmts], 'ghost:cfg_log': [c.old.attr(c.p.self, 'cfg')]}))
    # ---- composite handlers over an ASSUMED analyze_block -----------------------------------------------------------------------------------------------------------------
    block_of = z3.Function('gir_block', z3.IntSort(), S.PyObj(), S.PyObj())
    blk_len = z3.Function('gir_block_len', S.PyObj(), z3.IntSort())
    bnd = z3.Function('boundary_of_blocks', S.PyObj(), S.SeqP(), z3.IntSort())

    @reg.extern_method('GIRBlockViewer', 'read_block', 'GIRBlockViewer.read_block(block_id): the view of that block (uninterpreted)')
    def _rb(ex, st, node, recv, args, kwargs):
        t = block_of(S.addr(recv.t), args[0].t)
        st.assume(S.has_type(t, Opaque('GIRBlockViewer'), z3.Int('next_ref0')))
        return V(t, Opaque('GIRBlockViewer'))

    @reg.extern_method('GIRBlockViewer', '__len__', 'len(block view): number of rows (uninterpreted, >= 0)')
    def _bl(ex, st, node, recv, args, kwargs):
        st.assume(blk_len(recv.t) >= 0)
        return V(S.mk_int(blk_len(recv.t)), Int)

    @reg.extern_method('GIRBlockViewer', 'boundary_of_multi_blocks', 'GIRBlockViewer.boundary_of_multi_blocks(ids): index of the last row of those blocks (uninterpreted)')
    def _bd(ex, st, node, recv, args, kwargs):
        return V(S.mk_int(bnd(recv.t, st.sel('list', S.addr(args[0].t)))), Int)
    reg.add(Contract(CF, 'ControlFlowAnalysis.read_block', dict(self=CFA, block_id=Any), returns=Opaque('GIRBlockViewer'),
                     ensures=[('the-view-of-that-block-of-the-method-body', lambda c: c.res == block_of(S.addr(c.old.attr(c.p.self, 'method_body')), c.p.block_id))], modifies=lambda c: {}))
    reg.add(Contract(CF, 'ControlFlowAnalysis.boundary_of_multi_blocks', dict(self=CFA, block=Opaque('GIRBlockViewer'), block_ids=List(Any)), returns=Int,
                     ensures=[('delegates-to-the-block-view', lambda c: S.ival(c.res) == bnd(c.p.block, c.old.list(c.p.block_ids)))], modifies=lambda c: {}))

    def ab_post(c):
        L0, L1 = log(c.old, c.p.self), log(c.new, c.p.self)
        G0, G1 = c.old.list(c.p.special_stmts), c.new.list(c.p.special_stmts)
        return z3.And(z3.Length(L1) >= z3.Length(L0), S.forall([kq], z3.Implies(z3.And(kq >= 0, kq < z3.Length(L0)), S.at(L1, kq) == S.at(L0, kq)), patterns=[S.at(L1, kq)]),
                      z3.Length(G1) >= z3.Length(G0), S.forall([kq], z3.Implies(z3.And(kq >= 0, kq < z3.Length(G0)), S.at(G1, kq) == S.at(G0, kq)), patterns=[S.at(G1, kq)]),
                      S.forall([kq], z3.Implies(z3.And(kq >= z3.Length(G0), kq < z3.Length(G1)), S.has_type(S.at(G1, kq), ROW, c.new.next)), patterns=[S.at(G1, kq)]),
                      z3.Or(c.res == c.p.parent_stmts, S.addr(c.res) >= c.old.next), c.new.attr(c.p.self, 'cfg') == c.old.attr(c.p.self, 'cfg'),
                      c.new.attr(c.p.self, 'method_body') == c.old.attr(c.p.self, 'method_body'))
    reg.add(Contract(CF, 'ControlFlowAnalysis.analyze_block', dict(self=CFA, current_block=Any, parent_stmts=List(Any), special_stmts=List(Any)), returns=List(Any), opaque=True,
                     ensures=[('ASSUMED:-edges-are-only-added,-collected-statements-only-appended,-the-result-is-the-given-frontier-or-a-fresh-list', ab_post)],
                     modifies=lambda c: {'ghost:cfg_log': [c.old.attr(c.p.self, 'cfg')], 'list': (lambda a: z3.Or(a == S.addr(c.p.special_stmts), a >= c.old.next)),
                                         'attr:stmt': (lambda a: a >= c.old.next), 'attr:edge': (lambda a: a >= c.old.next)},
                     note='the recursion: handlers call analyze_block, which dispatches to the handlers; its contract (append-only effects) is assumed here and not proved'))

    def single(c, lst, stmt, kind, h=None):
        h = h or c.cur
        Ls = h.list(lst)
        x = S.at(Ls, 0)
        return z3.And(z3.Length(Ls) == 1, is_node(x), h.attr(x, 'stmt') == stmt, h.attr(x, 'edge') == ik(kind))

    def hook_ab_while(ex, st, node):
        """before a call of analyze_block inside analyze_while_stmt: which frontier, which collector"""
        call = node
        n_call = st.ghost.get('ab_calls', 0)
        st.ghost['ab_calls'] = n_call + 1
        frontier = ex.ev(call.args[1], st).t
        collector = ex.ev(call.args[2], st).t
        c = ex.ctx(st)
        if n_call == 0:
            ex.oblige(st, 'loop:the-body-is-analysed-from-[CFGNode(header,-LOOP_TRUE)]-with-a-FRESH-collector-of-its-own',
                      z3.And(single(c, frontier, c.p.current_stmt, 'LOOP_TRUE'), S.addr(collector) >= c.pre.next, z3.Length(c.cur.list(collector)) == 0,
                             ex.ev(call.args[0], st).t == block_of(S.addr(c.pre.attr(c.p.self, 'method_body')), c.pre.attr(c.p.current_stmt, 'body'))), kind='lemma')
        else:
            ex.oblige(st, 'loop:the-else-body-is-analysed-with-the-ENCLOSING-collector-(its-break/continue-belong-to-the-enclosing-loop)',
                      z3.And(collector == c.p.global_special_stmts,
                             ex.ev(call.args[0], st).t == block_of(S.addr(c.pre.attr(c.p.self, 'method_body')), c.pre.attr(c.p.current_stmt, 'else_body'))), kind='lemma')

    def hook_pop(ex, st, node):
        c = ex.ctx(st)
        Ls = c.cur.list(st.env['last_stmts'].t)
        ex.oblige(st, 'loop:the-element-the-else-body-replaces-is-the-normal-exit-CFGNode(header,-LOOP_FALSE)', z3.And(
            z3.Length(Ls) >= 1, normal_exit(c.cur, S.at(Ls, z3.Length(Ls) - 1), c.p.current_stmt)), kind='lemma')
    WP = dict(self=CFA, current_block=Opaque('GIRBlockViewer'), current_stmt=ROW, parent_stmts=List(Any), global_special_stmts=List(Any))

    class CallHook:
        """adapter: before_stmt hooks see the statement; dig out the analyze_block call in it"""
        def __init__(self, f):
            self.f = f

        def __call__(self, ex, st, node):
            calls = [n for n in ast.walk(node) if isinstance(n, ast.Call) and ast.unparse(n.func) == 'self.analyze_block']
            if calls:
                self.f(ex, st, calls[0])
    reg.add(Contract(CF, 'ControlFlowAnalysis.analyze_while_stmt', WP, returns=Tuple(List(Any), Int),
                     requires=[('frontier-and-collector-are-different-lists', lambda c: c.p.parent_stmts != c.p.global_special_stmts),
                               ('block-ids-are-ints-or-missing', lambda c: z3.And(*[z3.Or(S.is_none(c.old.attr(c.p.current_stmt, f)), S.is_int(c.old.attr(c.p.current_stmt, f)), S.is_flt(c.old.attr(c.p.current_stmt, f)))
                                                                                   for f in ('body', 'else_body')]))],
                     ghost_hooks={'before_stmt:last_stmts_of_body = self.analyze_block(': CallHook(hook_ab_while), 'before_stmt:last_stmts_of_else_body = self.analyze_block(': CallHook(hook_ab_while),
                                  'before_stmt:last_stmts.pop()': hook_pop},
                     ensures=[('the-frontier-is-linked-to-the-header-first', lambda c: z3.And(
                         z3.Length(log(c.new, c.p.self)) >= z3.Length(log(c.old, c.p.self)) + n_par(c),
                         S.forall([kq], z3.Implies(z3.And(kq >= 0, kq < n_par(c)), S.at(log(c.new, c.p.self), z3.Length(log(c.old, c.p.self)) + kq) ==
                                                   entry(c.old, S.at(c.old.list(c.p.parent_stmts), kq), c.p.current_stmt)))))],
                     modifies=lambda c: {'ghost:cfg_log': [c.old.attr(c.p.self, 'cfg')], 'list': (lambda a: z3.Or(a == S.addr(c.p.global_special_stmts), a >= c.old.next)),
                                         'attr:stmt': (lambda a: a >= c.old.next), 'attr:edge': (lambda a: a >= c.old.next)}))

    def hook_ab_if(ex, st, node):
        n_call = 0 if 'last_stmts_of_else_body' not in st.env else 1
        frontier = ex.ev(node.args[1], st).t
        collector = ex.ev(node.args[2], st).t
        c = ex.ctx(st)
        arm, kind = (('then_body', 'IF_TRUE'), ('else_body', 'IF_FALSE'))[n_call]
        ex.oblige(st, f'branch:the-{arm.split("_")[0]}-arm-is-analysed-from-[CFGNode(condition,-{kind})]-with-the-enclosing-collector',
                  z3.And(single(c, frontier, c.p.current_stmt, kind), collector == c.p.global_special_stmts,
                         ex.ev(node.args[0], st).t == block_of(S.addr(c.pre.attr(c.p.self, 'method_body')), c.pre.attr(c.p.current_stmt, arm))), kind='lemma')

    def if_result(c):
        """a missing / empty arm is stood in for by the condition node with its branch kind"""
        r = S.items(c.res)
        F = c.new.list(S.at(r, 0))
        st_ = c.p.current_stmt
        missing = lambda f: z3.Or(shared.isna_spec(c.old.attr(st_, f)) if hasattr(shared, 'isna_spec') else S.is_none(c.old.attr(st_, f)),
                                  blk_len(block_of(S.addr(c.old.attr(c.p.self, 'method_body')), c.old.attr(st_, f))) == 0)
        both = z3.And(missing('then_body'), missing('else_body'))
        return z3.Implies(both, z3.And(z3.Length(F) == 2, is_node(S.at(F, 0)), c.new.attr(S.at(F, 0), 'stmt') == st_, c.new.attr(S.at(F, 0), 'edge') == ik('IF_TRUE'),
                                       is_node(S.at(F, 1)), c.new.attr(S.at(F, 1), 'stmt') == st_, c.new.attr(S.at(F, 1), 'edge') == ik('IF_FALSE')))
    reg.add(Contract(CF, 'ControlFlowAnalysis.analyze_if_stmt', WP, returns=Tuple(List(Any), Int),
                     requires=[('frontier-and-collector-are-different-lists', lambda c: c.p.parent_stmts != c.p.global_special_stmts),
                               ('block-ids-are-ints-or-missing', lambda c: z3.And(*[z3.Or(S.is_none(c.old.attr(c.p.current_stmt, f)), S.is_int(c.old.attr(c.p.current_stmt, f)), S.is_flt(c.old.attr(c.p.current_stmt, f)))
                                                                                   for f in ('then_body', 'else_body')]))],
                     ghost_hooks={'before_stmt:last_stmts_of_then_body = self.analyze_block(': CallHook(hook_ab_if), 'before_stmt:last_stmts_of_else_body = self.analyze_block(': CallHook(hook_ab_if)},
                     ensures=[('the-frontier-is-linked-to-the-condition-first', lambda c: z3.And(
                         z3.Length(log(c.new, c.p.self)) >= z3.Length(log(c.old, c.p.self)) + n_par(c),
                         S.forall([kq], z3.Implies(z3.And(kq >= 0, kq < n_par(c)), S.at(log(c.new, c.p.self), z3.Length(log(c.old, c.p.self)) + kq) ==
                                                   entry(c.old, S.at(c.old.list(c.p.parent_stmts), kq), c.p.current_stmt))))),
                              ('without-arms-the-frontier-is-[CFGNode(cond,-IF_TRUE),-CFGNode(cond,-IF_FALSE)]', if_result)],
                     modifies=lambda c: {'ghost:cfg_log': [c.old.attr(c.p.self, 'cfg')], 'list': (lambda a: z3.Or(a == S.addr(c.p.global_special_stmts), a >= c.old.next)),
                                         'attr:stmt': (lambda a: a >= c.old.next), 'attr:edge': (lambda a: a >= c.old.next)}))
    # ---- do-while and counted for ------------------------------------------------------------------------------------------------------------------------------------------
    def hook_ab_dowhile(ex, st, node):
        frontier = ex.ev(node.args[1], st).t
        collector = ex.ev(node.args[2], st).t
        c = ex.ctx(st)
        F, P = c.cur.list(frontier), c.pre.list(c.p.parent_stmts)
        last = S.at(F, z3.Length(P))
        ex.oblige(st, 'loop:the-do-while-body-is-analysed-from-the-incoming-frontier-plus-CFGNode(header,-LOOP_TRUE),-with-a-FRESH-collector', z3.And(
            z3.Length(F) == z3.Length(P) + 1, S.forall([kq], z3.Implies(z3.And(kq >= 0, kq < z3.Length(P)), S.at(F, kq) == S.at(P, kq)), patterns=[S.at(F, kq)]),
            is_node(last), c.cur.attr(last, 'stmt') == c.p.current_stmt, c.cur.attr(last, 'edge') == ik('LOOP_TRUE'),
            frontier != c.p.parent_stmts, S.addr(collector) >= c.pre.next, z3.Length(c.cur.list(collector)) == 0,
            ex.ev(node.args[0], st).t == block_of(S.addr(c.pre.attr(c.p.self, 'method_body')), c.pre.attr(c.p.current_stmt, 'body'))), kind='lemma')

    def hook_close(ex, st, node):
        """before the call of deal_with_last_stmts_of_loop_body: the loop is closed on ITS OWN header, with its own collector and the enclosing one"""
        calls = [n for n in ast.walk(node) if isinstance(n, ast.Call) and ast.unparse(n.func) == 'self.deal_with_last_stmts_of_loop_body']
        a = calls[0].args
        hdr, own, outer = ex.ev(a[0], st).t, ex.ev(a[2], st).t, ex.ev(a[3], st).t
        c = ex.ctx(st)
        ex.oblige(st, 'loop:the-loop-is-closed-on-its-own-header-with-its-own-collector;-what-is-left-escapes-to-the-enclosing-collector',
                  z3.And(hdr == c.p.current_stmt, S.addr(own) >= c.pre.next, outer == c.p.global_special_stmts), kind='lemma')
    reg.add(Contract(CF, 'ControlFlowAnalysis.analyze_dowhile_stmt', WP, returns=Tuple(List(Any), Int),
                     requires=[('frontier-and-collector-are-different-lists', lambda c: c.p.parent_stmts != c.p.global_special_stmts)],
                     ghost_hooks={'before_stmt:last_stmts_of_body = self.analyze_block(': CallHook(hook_ab_dowhile), 'before_stmt:last_stmts = self.deal_with_last_stmts_of_loop_body(': hook_close},
                     ensures=[('the-incoming-frontier-list-itself-is-not-modified', lambda c: c.new.list(c.p.parent_stmts) == c.old.list(c.p.parent_stmts))],
                     modifies=lambda c: {'ghost:cfg_log': [c.old.attr(c.p.self, 'cfg')], 'list': (lambda a: z3.Or(a == S.addr(c.p.global_special_stmts), a >= c.old.next)),
                                         'attr:stmt': (lambda a: a >= c.old.next), 'attr:edge': (lambda a: a >= c.old.next)}))
    reg.classes['GIRRow'].fields.update(dict(init_body=Any, condition_prebody=Any, update_body=Any))

    def hook_ab_for(ex, st, node):
        n_call = st.ghost.get('ab_calls', 0)
        st.ghost['ab_calls'] = n_call + 1
        frontier = ex.ev(node.args[1], st).t
        collector = ex.ev(node.args[2], st).t
        blk = ex.ev(node.args[0], st).t
        c = ex.ctx(st)
        mb = S.addr(c.pre.attr(c.p.self, 'method_body'))
        blk_is = lambda f: blk == block_of(mb, c.pre.attr(c.p.current_stmt, f))
        if n_call == 0:
            ex.oblige(st, 'for:the-init-block-is-analysed-from-the-incoming-frontier-with-the-enclosing-collector',
                      z3.And(frontier == c.p.parent_stmts, collector == c.p.global_special_stmts, blk_is('init_body')), kind='lemma')
        elif n_call == 1:
            ex.oblige(st, 'for:the-condition-block-is-analysed-from-the-exits-of-the-init-block-with-the-enclosing-collector',
                      z3.And(frontier == st.env['last_stmts'].t, collector == c.p.global_special_stmts, blk_is('condition_prebody')), kind='lemma')
        elif n_call == 2:
            ex.oblige(st, 'for:the-body-is-analysed-from-[CFGNode(header,-LOOP_TRUE)]-with-a-FRESH-collector',
                      z3.And(single(c, frontier, c.p.current_stmt, 'LOOP_TRUE'), S.addr(collector) >= c.pre.next, z3.Length(c.cur.list(collector)) == 0, blk_is('body')), kind='lemma')
        else:
            ex.oblige(st, 'for:update-and-condition-blocks-after-the-body-are-analysed-from-the-running-frontier-with-the-loop\'s-own-collector',
                      z3.And(frontier == st.env['last_stmts'].t, collector == st.env['new_special_stmts'].t, blk_is('update_body' if n_call == 3 else 'condition_prebody')), kind='lemma')
    reg.add(Contract(CF, 'ControlFlowAnalysis.analyze_for_stmt', WP, returns=Tuple(List(Any), Int),
                     requires=[('frontier-and-collector-are-different-lists', lambda c: c.p.parent_stmts != c.p.global_special_stmts)],
                     ghost_hooks={'before_stmt:last_stmts = self.analyze_block(': CallHook(hook_ab_for), 'before_stmt:last_stmts_condition_prebody = self.analyze_block(': CallHook(hook_ab_for),
                                  'before_stmt:last_stmts = self.deal_with_last_stmts_of_loop_body(': hook_close},
                     modifies=lambda c: {'ghost:cfg_log': [c.old.attr(c.p.self, 'cfg')], 'list': (lambda a: z3.Or(a == S.addr(c.p.global_special_stmts), a >= c.old.next)),
                                         'attr:stmt': (lambda a: a >= c.old.next), 'attr:edge': (lambda a: a >= c.old.next)}))
    return reg


def bounded_family(tier, seed):
    """BOUNDED stand-in (never counted as proved) for what the proofs assume — analyze_block's recursion and the composition of the handlers: every method body of a small
    program family through the REAL ControlFlowAnalysis, DataModel and GIRBlockViewer against a reference interpreter (all branch-decision vectors)"""
    from lianvc import runner
    size = '3' if tier == 'quick' else '5'
    out, err = runner.run_replay(REPLAY, ['--bounded', size], timeout=3000)
    if out is None:
        return dict(name='composition of the CFG handlers vs reference executions', failed=True, is_violation=False, detail=err, bound=f'size {size}')
    return dict(name='composition of the CFG handlers (analyze_block recursion) vs reference executions', kind='bounded', bound=out.get('bound'), cases=out.get('cases'),
                failed=bool(out.get('witnesses')), is_violation=True, detail=out.get('witnesses', [])[:2], failing_input=(out.get('witnesses') or [None])[0])


bounded_family.quick = True
BOUNDED_CHECKS = [bounded_family]

ASSUMPTIONS = [
    'analyze_block is under an ASSUMED contract (append-only effects on the edge log and the collector; result is the given frontier or a fresh list): the handlers call it and it '
    'dispatches back to the handlers; the induction over the block structure (First/Exits/Step of the structured semantics, "every execution is a path") is NOT proved — it is '
    'checked only by the bounded stand-in on a small program family',
    'the graph is read through the ghost log of ControlFlowGraph.add_edge calls; that each logged call adds the corresponding networkx edges is BasicGraph.add_edge (not under '
    'contract: it normalises rows/ids/lists and recurses over lists) + _add_one_edge (proved); self-loops are dropped by _add_one_edge (a loop whose body frontier is the header '
    'itself gets no header->header edge)',
    'analyze_switch_stmt, analyze_try_stmt, analyze_yield_stmt, analyze_method_decl_stmt, analyze_decl_stmt, analyze_init_block, analyze() '
    '(exit edge, goto/label rewiring, merge_multiple_edges_between_two_nodes) are not under contract',
    'GIRBlockViewer.read_block / len / boundary_of_multi_blocks are uninterpreted; block ids are ints, NaN or None; statement rows are heap objects with the listed columns',
    'the "endless loop" test is textual (`condition in ("true", "True")`): a Python VARIABLE named `true` used as a loop condition is treated as the literal and the loop gets no '
    'normal exit (seen by a sub-agent on the unchanged tree; outside the contracts, which take the textual test as the definition of a literal-true condition)',
    'nothing about the frontends: the Python frontend drops the else body of `for ... else` (its statements are missing from the GIR); "in every frontend" is not decided',
]
EXPLANATION = ('Deductive proof on the real control_flow.py of the edge-producing handlers (frontier linking, return/break/continue, loop closing with LOOP_BACK/CONTINUE edges, '
               'breaks and the normal exit in the result, while/for-in with else bodies, if arms) over a ghost log of add_edge calls, and of _add_one_edge against the networkx '
               'edge relation. The recursion through analyze_block is assumed; the composition is covered by a bounded stand-in (reference interpreter).')
QUICK_CANARIES = {
    'ControlFlowAnalysis.link_parent_stmts_to_current_stmt': ['negate-condition', 'delete-stmt[self.cfg.add_edge(node.stmt, current_stmt, node.edge)]'],
    'ControlFlowAnalysis.analyze_return_stmt': ['delete-stmt[self.cfg.add_edge(current_stmt, -1, CONTROL_FLOW_KIND.RETURN)]', 'delete-stmt[self.link_parent_stmts_to_current_stmt(parent_stmts, current_stmt)]'],
    'ControlFlowAnalysis.analyze_break_stmt': ['delete-stmt[global_special_stmts.append(current_stmt)]'],
    'ControlFlowAnalysis.deal_with_last_stmts_of_loop_body': ['negate-condition', 'flip-comparison', 'delete-stmt[result.append(CFGNode(current_stmt, CONTROL_FLOW_KIND.LOOP_FALSE))]',
                                                              'delete-stmt[del special_stmts[counter]]'],
    'ControlFlowAnalysis.analyze_while_stmt': ['negate-condition', 'delete-stmt[last_stmts.pop()]'],
    'ControlFlowAnalysis.analyze_dowhile_stmt': ['delete-stmt[previous.append(CFGNode(current_stmt, CONTROL_FLOW_KIND.LOOP_TRUE))]', 'delete-stmt[new_special_stmts = []]'],
    'ControlFlowAnalysis.analyze_for_stmt': ['negate-condition', 'flip-comparison'],
    'BasicGraph._add_one_edge': ['flip-comparison', 'negate-condition'],
}
MIN_CANARY_KILL_RATIO = 0.6
EQUIVALENT_MUTANTS = ('delete-stmt[return True] @L18', 'delete-stmt[return True] @L29')
