"""C15 — Every result saved through the loader is what later reads and the files return (util/loader.py, util/util.py).

Proved on the real source: util.LRUCache as a faithful map (get returns the value last put for that key; put/remove touch no other key except
by eviction), GeneralLoader.{new_bundle_id, get_bundle_path, contain, save, get_raw_item_by_id, export} against the representation invariant
LoaderInv (index, active bundle, bundle files, bundle cache and item cache all describe the LATEST content saved per id), OneToManyMapLoader
forward/backward maps.  DataModel / feather are trusted and uninterpreted (table tokens); the subclass hooks flatten/query/unflatten are opaque.
"""
import z3
from lianvc import sorts as S
from lianvc.sorts import Any, Int, Bool, Str, NoneT, Opt, List, Dict, Set, Tuple, TupleOf, Obj, Val, Fn, Opaque
from lianvc.contracts import Contract, ClassInfo, LoopSpec, Registry
from lianvc.engine import V, Outcome, Unsupported, below
from lianvc import engine
from contracts import shared

PROPERTY = 'C15'
REPLAY = 'c15_replay.py'
LD = 'src/lian/util/loader.py'
UTIL = 'src/lian/util/util.py'
DM = Opaque('DataModel')
I_ = z3.IntSort()
_f = {}


def fn(name, *sorts):
    if name not in _f:
        _f[name] = z3.Function(name, *sorts)
    return _f[name]


def table_of(flat): return fn('table_of_flattened_item', S.PyObj(), I_)(flat)          # DataModel(flattened_item, columns=schema)
def rows_of(tbl, i): return fn('rows_of_item_in_bundle', I_, S.PyObj(), I_)(tbl, i)     # query_flattened_item_when_loading(i, bundle)
def flat(i, content): return fn('flatten_item_when_saving', S.PyObj(), S.PyObj(), S.PyObj())(i, content)
def path_of(summary, b): return fn('bundle_path', z3.StringSort(), I_, z3.StringSort())(summary, b)
def unflat(i, tbl): return fn('unflatten_item_dataframe_when_loading', S.PyObj(), I_, S.PyObj())(i, tbl)


def build():
    reg = Registry()
    shared.register_util(reg)
    engine.GHOST_FIELD_SORTS['ghost:tbl'] = lambda: z3.ArraySort(I_, I_)                                  # DataModel object -> table token
    engine.GHOST_FIELD_SORTS['ghost:disk'] = lambda: z3.ArraySort(I_, z3.ArraySort(z3.StringSort(), I_))    # loader -> (path -> table token written)
    engine.GHOST_FIELD_SORTS['ghost:latest'] = lambda: z3.ArraySort(I_, z3.ArraySort(S.PyObj(), S.PyObj()))  # loader -> (id -> latest flattened item)
    reg.add_class(ClassInfo('DataModel', LD, {}, kind='opaque'))
    reg.add_class(ClassInfo('CacheNode', UTIL, dict(_id=Any, _data=Any, prev=Opt(Obj('CacheNode')), next=Opt(Obj('CacheNode')))))
    reg.add_class(ClassInfo('LRUCache', UTIL, dict(capacity=Int, cache=Dict(Any, Obj('CacheNode')), head=Obj('CacheNode'), tail=Obj('CacheNode'))))
    reg.add_class(ClassInfo('ActiveItem', LD, dict(flattened_item=Any, data_model=Opt(DM))))
    reg.add_class(ClassInfo('GeneralLoader', LD, dict(options=Any, item_schema=Any, bundle_path_summary=Str, loader_indexing_path=Str,
                                                     item_cache=Obj('LRUCache'), bundle_cache=Obj('LRUCache'),
                                                     active_bundle=Dict(Any, Obj('ActiveItem')), active_bundle_length=Int,
                                                     item_id_to_bundle_id=Dict(Any, Int), bundle_count=Int)))
    kq = z3.Const('k', S.PyObj())
    GL = Obj('GeneralLoader')
    LRU = Obj('LRUCache')

    # ---- LRUCache as a map: view(cache)[k] = cache.cache[k]._data -------------------------------------------------------------------
    def has(h, c, k):
        return z3.Select(h.dom(h.attr(c, 'cache')), k)

    def get(h, c, k):
        return h.attr(z3.Select(h.val(h.attr(c, 'cache')), k), '_data')

    def node(h, c, k):
        return z3.Select(h.val(h.attr(c, 'cache')), k)

    def lru_inv(h, c):
        """the dict maps each key to its own allocated node (node._id == key); distinct keys have distinct nodes; sentinels are not entries"""
        k2 = z3.Const('k2', S.PyObj())
        d = h.attr(c, 'cache')
        return z3.And(
            S.forall([kq], z3.Implies(has(h, c, kq), z3.And(S.has_type(node(h, c, kq), Obj('CacheNode'), h.next), h.attr(node(h, c, kq), '_id') == kq,
                                                            node(h, c, kq) != h.attr(c, 'head'), node(h, c, kq) != h.attr(c, 'tail'))),
                     patterns=[z3.Select(h.val(d), kq)]),
            S.forall([kq, k2], z3.Implies(z3.And(has(h, c, kq), has(h, c, k2), kq != k2), node(h, c, kq) != node(h, c, k2)),
                     patterns=[z3.MultiPattern(z3.Select(h.val(d), kq), z3.Select(h.val(d), k2))]))

    node_fields = lambda c: {'attr:prev': (lambda a: S.tyof(a) == S.type_id('CacheNode')), 'attr:next': (lambda a: S.tyof(a) == S.type_id('CacheNode'))}
    reg.add(Contract(UTIL, 'CacheNode.__init__', dict(self=Obj('CacheNode'), _id=Any, _data=Any), returns=NoneT,
                     ensures=[('stores-key-and-value,-unlinked', lambda c: z3.And(c.new.attr(c.p.self, '_id') == c.p._id, c.new.attr(c.p.self, '_data') == c.p._data,
                                                                                  S.is_none(c.new.attr(c.p.self, 'prev')), S.is_none(c.new.attr(c.p.self, 'next'))))],
                     modifies=lambda c: {'attr:_id': [c.p.self], 'attr:_data': [c.p.self], 'attr:prev': [c.p.self], 'attr:next': [c.p.self]}, fresh_fields=[]))
    # the recency list: only its frame is proved (prev/next links of cache nodes); well-formedness of the list (no None link is dereferenced,
    # the evicted node is an entry) is NOT proved here -> AttributeError/KeyError are declared possible and covered by the bounded replay
    reg.add(Contract(UTIL, 'LRUCache._remove_node', dict(self=LRU, node=Opt(Obj('CacheNode'))), returns=NoneT,
                     ensures=[('only-list-links-change', lambda c: z3.BoolVal(True))], modifies=node_fields, fresh_fields=[], allow_raise=('AttributeError',)))
    reg.add(Contract(UTIL, 'LRUCache._add_node', dict(self=LRU, node=Obj('CacheNode')), returns=NoneT,
                     ensures=[('only-list-links-change', lambda c: z3.BoolVal(True))], modifies=node_fields, fresh_fields=[], allow_raise=('AttributeError',)))
    reg.add(Contract(UTIL, 'LRUCache.contain', dict(self=LRU, _id=Any), returns=Bool,
                     ensures=[('key-present', lambda c: S.bval(c.res) == has(c.old, c.p.self, c.p._id))]))

    def submap(c, k, v):
        """the map after put(k, v) is contained in old[k := v]: no other key appears or changes (entries may be evicted)"""
        return S.forall([kq], z3.Implies(has(c.new, c.p.self, kq), z3.If(kq == k, get(c.new, c.p.self, kq) == v,
                                                                         z3.And(has(c.old, c.p.self, kq), get(c.new, c.p.self, kq) == get(c.old, c.p.self, kq)))),
                        patterns=[z3.Select(c.new.dom(c.new.attr(c.p.self, 'cache')), kq)])

    lru_mod = lambda c: {'dom': [c.old.attr(c.p.self, 'cache')], 'val': [c.old.attr(c.p.self, 'cache')], **node_fields(c)}
    same_cache_obj = ('same-dict-and-sentinels', lambda c: z3.And(c.new.attr(c.p.self, 'cache') == c.old.attr(c.p.self, 'cache'),
                                                                   c.new.attr(c.p.self, 'head') == c.old.attr(c.p.self, 'head'),
                                                                   c.new.attr(c.p.self, 'tail') == c.old.attr(c.p.self, 'tail')))
    reg.add(Contract(UTIL, 'LRUCache.get', dict(self=LRU, _id=Any), returns=Any,
                     requires=[('map-invariant', lambda c: lru_inv(c.old, c.p.self))],
                     ensures=[('the-value-last-put-for-the-key,-or-None', lambda c: c.res == z3.If(has(c.old, c.p.self, c.p._id), get(c.old, c.p.self, c.p._id), S.NONE())),
                              ('map-unchanged', lambda c: z3.And(c.new.dom(c.old.attr(c.p.self, 'cache')) == c.old.dom(c.old.attr(c.p.self, 'cache')),
                                                                 c.new.val(c.old.attr(c.p.self, 'cache')) == c.old.val(c.old.attr(c.p.self, 'cache')))),
                              ('map-invariant', lambda c: lru_inv(c.new, c.p.self)), same_cache_obj],
                     modifies=node_fields, fresh_fields=[], allow_raise=('AttributeError',)))
    reg.add(Contract(UTIL, 'LRUCache.put', dict(self=LRU, _id=Any, _data=Any), returns=NoneT,
                     requires=[('map-invariant', lambda c: lru_inv(c.old, c.p.self))],
                     ensures=[('no-other-key-appears-or-changes', lambda c: submap(c, c.p._id, c.p._data)),
                              ('map-invariant', lambda c: lru_inv(c.new, c.p.self)), same_cache_obj],
                     modifies=lambda c: {**lru_mod(c), 'attr:_id': (lambda a: a >= c.old.next), 'attr:_data': (lambda a: a >= c.old.next)},
                     fresh_fields=[], allow_raise=('AttributeError', 'KeyError')))
    reg.add(Contract(UTIL, 'LRUCache.remove', dict(self=LRU, _id=Any), returns=NoneT,
                     requires=[('map-invariant', lambda c: lru_inv(c.old, c.p.self))],
                     ensures=[('exactly-that-key-removed', lambda c: S.forall([kq], z3.And(
                         has(c.new, c.p.self, kq) == z3.And(has(c.old, c.p.self, kq), kq != c.p._id),
                         z3.Implies(has(c.new, c.p.self, kq), get(c.new, c.p.self, kq) == get(c.old, c.p.self, kq))),
                         patterns=[z3.Select(c.new.dom(c.new.attr(c.p.self, 'cache')), kq)])),
                              ('map-invariant', lambda c: lru_inv(c.new, c.p.self)), same_cache_obj],
                     modifies=lru_mod, fresh_fields=[], allow_raise=('AttributeError',)))
    reg.add(Contract(UTIL, 'LRUCache.__init__', dict(self=LRU, capacity=Int), returns=NoneT,
                     ensures=[('empty-map', lambda c: S.forall([kq], z3.Not(has(c.new, c.p.self, kq)))), ('map-invariant', lambda c: lru_inv(c.new, c.p.self)),
                              ('own-fresh-dict', lambda c: S.addr(c.new.attr(c.p.self, 'cache')) >= c.old.next)],
                     modifies=lambda c: {'attr:capacity': [c.p.self], 'attr:cache': [c.p.self], 'attr:head': [c.p.self], 'attr:tail': [c.p.self],
                                         'attr:prev': (lambda a: a >= c.old.next), 'attr:next': (lambda a: a >= c.old.next)},
                     fresh_fields=['dom', 'val', 'attr:_id', 'attr:_data', 'attr:prev', 'attr:next']))

    # ---- trusted: DataModel / feather as table tokens -----------------------------------------------------------------------------------
    sq, bq = z3.String('ps'), z3.Int('pb')
    b2 = z3.Int('pb2')
    # bundle_path(s, b) is opaque in the invariants; its definition  s + ".bundle" + str(b)  is revealed (ground instance) only at the two places that
    # build a path, and its injectivity in b (needed so that a new bundle file never overwrites an older one) is lemma C15:lemma:bundle-path-injective
    reg.axioms.append(z3.ForAll([sq, bq, b2], z3.Implies(z3.And(bq >= 0, b2 >= 0, path_of(sq, bq) == path_of(sq, b2)), bq == b2),
                                patterns=[z3.MultiPattern(path_of(sq, bq), path_of(sq, b2))]))

    def gsel(st, g, a):
        return z3.Select(st.field('ghost:' + g), a)

    def gstore(st, g, a, v):
        st.set_field('ghost:' + g, z3.Store(st.field('ghost:' + g), a, v))

    def new_dm(ex, st, tok):
        r = ex.alloc(st, 'DataModel')
        gstore(st, 'tbl', S.addr(r), tok)
        return V(r, DM)

    @reg.extern('lian.util.data_model.DataModel', 'DataModel(rows, columns=schema): a table that is a function of the rows value (table_of); DataModel(): an empty table')
    def _DataModel(ex, st, node, args, kwargs):
        if not args:
            return new_dm(ex, st, S.fresh('empty_table', I_))
        return new_dm(ex, st, table_of(args[0].t))

    @reg.extern_method('DataModel', 'save', 'DataModel.save(path): writes the table to the feather file (the write is assumed to succeed; the except branch prints and returns None)')
    def _dm_save(ex, st, node, recv, args, kwargs):
        L = st.ghost['cur_loader']
        if args[0].ty.kind != 'str':
            ex.safety(st, 'TypeError', 'save path', S.is_str(args[0].t))
        gstore(st, 'disk', L, z3.Store(gsel(st, 'disk', L), S.sval(args[0].t), gsel(st, 'tbl', S.addr(recv.t))))
        return V(recv.t, DM)

    @reg.extern_method('DataModel', 'load', 'DataModel.load(path): the table last written to that path (feather round trip is the identity on tables)')
    def _dm_load(ex, st, node, recv, args, kwargs):
        L = st.ghost['cur_loader']
        if args[0].ty.kind != 'str':
            ex.safety(st, 'TypeError', 'load path', S.is_str(args[0].t))
        gstore(st, 'tbl', S.addr(recv.t), z3.Select(gsel(st, 'disk', L), S.sval(args[0].t)))
        return V(recv.t, DM)

    def path_def(sv, b):
        return path_of(sv, b) == z3.Concat(sv, z3.StringVal('.bundle'), z3.IntToStr(b))

    def reveal_path_in_get_bundle_path(ex, st):
        st.assume(path_def(S.sval(z3.Select(st.field('attr:bundle_path_summary'), S.addr(st.env['self'].t))), S.ival(st.env['bundle_id'].t)))

    def set_loader(ex, st):
        st.ghost['cur_loader'] = S.addr(st.env['self'].t)

    # ---- GeneralLoader -----------------------------------------------------------------------------------------------------------------
    def G(h, L): return z3.Select(h.ghost('latest'), S.addr(L))
    def disk(h, L): return z3.Select(h.ghost('disk'), S.addr(L))
    def tbl(h, d): return z3.Select(h.ghost('tbl'), S.addr(d))
    iq = z3.Const('i', S.PyObj())
    i2 = z3.Const('i2', S.PyObj())

    def idx(h, L): return h.attr(L, 'item_id_to_bundle_id')
    def ab(h, L): return h.attr(L, 'active_bundle')
    def ic(h, L): return h.attr(L, 'item_cache')
    def bc(h, L): return h.attr(L, 'bundle_cache')
    def summ(h, L): return S.sval(h.attr(L, 'bundle_path_summary'))

    def entry_ok(h, L, i):
        b = S.ival(z3.Select(h.val(idx(h, L)), i))
        item = z3.Select(h.val(ab(h, L)), i)
        dmv = h.attr(item, 'data_model')
        return z3.And(S.is_int(z3.Select(h.val(idx(h, L)), i)), z3.If(
            b == -1,
            z3.And(z3.Select(h.dom(ab(h, L)), i), S.has_type(item, Obj('ActiveItem'), h.next), h.attr(item, 'flattened_item') == z3.Select(G(h, L), i),
                   z3.Implies(z3.Not(S.is_none(dmv)), tbl(h, dmv) == table_of(z3.Select(G(h, L), i)))),
            z3.And(b >= 0, b < S.ival(h.attr(L, 'bundle_count')), rows_of(z3.Select(disk(h, L), path_of(summ(h, L), b)), i) == table_of(z3.Select(G(h, L), i)))))

    def loader_inv(h, L):
        icd, bcd = h.attr(ic(h, L), 'cache'), h.attr(bc(h, L), 'cache')
        return z3.And(
            lru_inv(h, ic(h, L)), lru_inv(h, bc(h, L)), ic(h, L) != bc(h, L),
            z3.Distinct(S.addr(icd), S.addr(bcd), S.addr(idx(h, L)), S.addr(ab(h, L))),
            S.ival(h.attr(L, 'bundle_count')) >= 0,
            S.forall([iq], z3.Implies(z3.Select(h.dom(idx(h, L)), iq), entry_ok(h, L, iq)), patterns=[z3.Select(h.dom(idx(h, L)), iq), z3.Select(h.val(idx(h, L)), iq)]),
            S.forall([iq, i2], z3.Implies(z3.And(z3.Select(h.dom(ab(h, L)), iq), z3.Select(h.dom(ab(h, L)), i2), iq != i2),
                                          z3.Select(h.val(ab(h, L)), iq) != z3.Select(h.val(ab(h, L)), i2)),
                     patterns=[z3.MultiPattern(z3.Select(h.val(ab(h, L)), iq), z3.Select(h.val(ab(h, L)), i2))]),
            # bundle cache: a cached bundle is the table of its file
            S.forall([iq], z3.Implies(has(h, bc(h, L), iq), z3.And(S.is_int(iq), S.ival(iq) >= 0, S.ival(iq) < S.ival(h.attr(L, 'bundle_count')),
                                                                   S.has_type(get(h, bc(h, L), iq), DM, h.next),
                                                                   tbl(h, get(h, bc(h, L), iq)) == z3.Select(disk(h, L), path_of(summ(h, L), S.ival(iq))))),
                     patterns=[z3.Select(h.dom(h.attr(bc(h, L), 'cache')), iq)]),
            # item cache: a cached item is the latest content saved for its id
            S.forall([iq], z3.Implies(has(h, ic(h, L), iq), z3.And(z3.Select(h.dom(idx(h, L)), iq), S.has_type(get(h, ic(h, L), iq), DM, h.next),
                                                                   tbl(h, get(h, ic(h, L), iq)) == table_of(z3.Select(G(h, L), iq)))),
                     patterns=[z3.Select(h.dom(h.attr(ic(h, L), 'cache')), iq)]))

    reg.add(Contract(LD, 'GeneralLoader.new_bundle_id', dict(self=GL), returns=Int,
                     ensures=[('returns-the-old-count-and-increments-it', lambda c: z3.And(c.res == c.old.attr(c.p.self, 'bundle_count'),
                                                                                           S.ival(c.new.attr(c.p.self, 'bundle_count')) == S.ival(c.old.attr(c.p.self, 'bundle_count')) + 1))],
                     modifies=lambda c: {'attr:bundle_count': [c.p.self]}, fresh_fields=[]))
    reg.add(Contract(LD, 'GeneralLoader.get_bundle_path', dict(self=GL, bundle_id=Int), returns=Str, ghost_init=reveal_path_in_get_bundle_path,
                     requires=[('bundle-ids-are-non-negative', lambda c: S.ival(c.p.bundle_id) >= 0)],
                     ensures=[('summary.bundle<id>', lambda c: S.sval(c.res) == path_of(summ(c.old, c.p.self), S.ival(c.p.bundle_id)))]))
    reg.add(Contract(LD, 'GeneralLoader.contain', dict(self=GL, _id=Any), returns=Bool,
                     ensures=[('id-was-saved', lambda c: S.bval(c.res) == z3.Select(c.old.dom(idx(c.old, c.p.self)), c.p._id))]))
    # subclass hooks: opaque
    reg.add(Contract(LD, 'GeneralLoader.flatten_item_when_saving', dict(self=GL, _id=Any, item_content=Any), returns=List(Any), opaque=True,
                     ensures=[('a-function-of-id-and-content', lambda c: c.res == flat(c.p._id, c.p.item_content))], modifies=lambda c: {}, fresh_fields=['list'],
                     note='subclass hook (rows tagged with the item id); the base-class body returns None and is never used'))
    reg.add(Contract(LD, 'GeneralLoader.query_flattened_item_when_loading', dict(self=GL, item_id=Any, bundle_data=DM), returns=DM, opaque=True,
                     ensures=[('the-rows-of-that-id-in-the-bundle', lambda c: tbl(c.new, c.res) == rows_of(tbl(c.old, c.p.bundle_data), c.p.item_id))],
                     modifies=lambda c: {}, fresh_fields=['ghost:tbl'], note='subclass hook: bundle_data.query_index_column_value(<id column>, id) (C16)'))
    reg.add(Contract(LD, 'GeneralLoader.convert_active_bundle_to_dataframe', dict(self=GL), returns=DM, opaque=True,
                     ensures=[('every-active-item-is-in-the-bundle-table', lambda c: S.forall([iq], z3.Implies(
                         z3.Select(c.old.dom(ab(c.old, c.p.self)), iq),
                         rows_of(tbl(c.new, c.res), iq) == table_of(c.old.attr(z3.Select(c.old.val(ab(c.old, c.p.self)), iq), 'flattened_item'))),
                         patterns=[rows_of(tbl(c.new, c.res), iq)])),
                              ('fresh-table-object', lambda c: S.addr(c.res) >= c.old.next)],
                     modifies=lambda c: {}, fresh_fields=['ghost:tbl', 'list'],
                     note='concatenates the flattened rows in ascending key order into one DataModel; that the rows of item i can be queried back from it '
                          'relies on the flatten hooks tagging rows with the id and on pandas: assumed, covered by the bounded replay on real loader classes'))

    gl_mod = lambda c: {'*': (lambda a: z3.Or(a >= c.old.next, owned(c, a))), 'ghost:latest': [c.p.self], 'ghost:disk': [c.p.self],
                        'attr:active_bundle': [c.p.self], 'attr:active_bundle_length': [c.p.self], 'attr:bundle_count': [c.p.self],
                        'attr:flattened_item': (lambda a: a >= c.old.next), 'attr:data_model': (lambda a: a >= c.old.next)}

    def cut_bundle_path(ex, st, node):
        """cut: the path written by export is the path get_bundle_path computes for the new bundle id (proved here, then used)"""
        cx = ex.ctx(st)
        st.assume(path_def(summ(cx.pre, st.env['self'].t), S.ival(st.env['new_bundle_id'].t)))        # definitional instance
        eq = S.sval(st.env['bundle_path'].t) == path_of(summ(cx.pre, st.env['self'].t), S.ival(st.env['new_bundle_id'].t))
        ex.oblige(st, 'lemma:export-writes-to-the-path-of-the-new-bundle-id', eq, kind='lemma')
        st.assume(eq)

    def owned(c, a):
        """objects owned by this loader: its four dicts, its two caches' nodes, its active items"""
        L = c.p.self
        return z3.Or(a == S.addr(idx(c.old, L)), a == S.addr(ab(c.old, L)), a == S.addr(c.old.attr(ic(c.old, L), 'cache')), a == S.addr(c.old.attr(bc(c.old, L), 'cache')),
                     S.tyof(a) == S.type_id('CacheNode'), S.tyof(a) == S.type_id('ActiveItem'))

    reg.add(Contract(LD, 'GeneralLoader.get_raw_item_by_id', dict(self=GL, _id=Any), returns=Opt(DM), ghost_init=set_loader,
                     requires=[('loader-invariant', lambda c: loader_inv(c.old, c.p.self))],
                     ensures=[('the-content-most-recently-saved-for-that-id,-None-for-an-unknown-id', lambda c: z3.If(
                         z3.Select(c.old.dom(idx(c.old, c.p.self)), c.p._id),
                         z3.And(z3.Not(S.is_none(c.res)), tbl(c.new, c.res) == table_of(z3.Select(G(c.old, c.p.self), c.p._id))),
                         S.is_none(c.res))),
                              ('loader-invariant', lambda c: loader_inv(c.new, c.p.self)),
                              ('saved-content-and-files-untouched', lambda c: z3.And(G(c.new, c.p.self) == G(c.old, c.p.self), disk(c.new, c.p.self) == disk(c.old, c.p.self),
                                                                                     c.new.dom(idx(c.old, c.p.self)) == c.old.dom(idx(c.old, c.p.self)),
                                                                                     c.new.val(idx(c.old, c.p.self)) == c.old.val(idx(c.old, c.p.self))))],
                     modifies=lambda c: {'*': (lambda a: z3.Or(a >= c.old.next, owned(c, a)))}))

    reg.add(Contract(LD, 'ActiveItem.__init__', dict(self=Obj('ActiveItem'), flattened_item=Any, data_model=Opt(DM)), returns=NoneT, opaque=True,
                     ensures=[('stores-its-fields', lambda c: z3.And(c.new.attr(c.p.self, 'flattened_item') == c.p.flattened_item, c.new.attr(c.p.self, 'data_model') == c.p.data_model))],
                     modifies=lambda c: {'attr:flattened_item': [c.p.self], 'attr:data_model': [c.p.self]}, fresh_fields=[], note='dataclass-generated constructor'))

    def cut_no_active_left(ex, st, node):
        """cut after the re-indexing loop: no id points to the active bundle any more"""
        cx = ex.ctx(st)
        L = st.env['self'].t
        f = S.forall([iq], z3.Implies(z3.Select(cx.cur.dom(idx(cx.pre, L)), iq), S.ival(z3.Select(cx.cur.val(idx(cx.pre, L)), iq)) != -1),
                     patterns=[z3.Select(cx.cur.val(idx(cx.pre, L)), iq)])
        ex.oblige(st, 'lemma:after-the-loop-no-id-points-to-the-active-bundle', f, kind='lemma')
        st.assume(f)

    def no_active_left(c):
        return S.forall([iq], z3.Implies(z3.Select(c.new.dom(idx(c.old, c.p.self)), iq), S.ival(z3.Select(c.new.val(idx(c.old, c.p.self)), iq)) != -1),
                        patterns=[z3.Select(c.new.val(idx(c.old, c.p.self)), iq)])

    def exp_loop_inv(c):
        enum = c.seq
        L = c.p.self
        newid = c.l.new_bundle_id
        hv, cv = c.pre.val(idx(c.pre, L)), c.cur.val(idx(c.pre, L))
        done = z3.And(S.member(enum, iq), S.idx_of(enum, iq) < c.i, S.ival(z3.Select(hv, iq)) == -1)
        return z3.And(c.cur.dom(idx(c.pre, L)) == c.pre.dom(idx(c.pre, L)),
                      S.forall([iq], z3.Select(c.pre.dom(idx(c.pre, L)), iq) == S.member(enum, iq), patterns=[S.member(enum, iq), z3.Select(c.pre.dom(idx(c.pre, L)), iq)]),
                      S.forall([iq], z3.Select(cv, iq) == z3.If(done, newid, z3.Select(hv, iq)), patterns=[z3.Select(cv, iq)]),
                      # what the loop relies on from the statements before it, restated over the entry state
                      S.sval(c.l.bundle_path) == path_of(summ(c.pre, L), S.ival(newid)), newid == c.pre.attr(L, 'bundle_count'),
                      disk(c.cur, L) == z3.Store(disk(c.pre, L), S.sval(c.l.bundle_path), tbl(c.cur, c.l.bundle_df)),
                      S.forall([iq], z3.Implies(z3.Select(c.pre.dom(ab(c.pre, L)), iq),
                                                rows_of(tbl(c.cur, c.l.bundle_df), iq) == table_of(c.pre.attr(z3.Select(c.pre.val(ab(c.pre, L)), iq), 'flattened_item'))),
                               patterns=[rows_of(tbl(c.cur, c.l.bundle_df), iq)]),
                      G(c.cur, L) == G(c.pre, L), c.cur.attr(L, 'bundle_path_summary') == c.pre.attr(L, 'bundle_path_summary'),
                      S.ival(c.cur.attr(L, 'bundle_count')) == S.ival(newid) + 1)

    reg.add(Contract(LD, 'GeneralLoader.export', dict(self=GL), returns=NoneT, ghost_init=set_loader, ghost_hooks={'after_stmt:bundle_path = ': cut_bundle_path, 'after_stmt:self.active_bundle = {}': cut_no_active_left},
                     requires=[('loader-invariant', lambda c: loader_inv(c.old, c.p.self)),
                               ('length-counts-at-least-one-row-when-an-item-with-rows-is-active', lambda c: S.ival(c.old.attr(c.p.self, 'active_bundle_length')) >= 0)],
                     loops={1: LoopSpec(invariants=[('active-entries-enumerated-so-far-point-to-the-new-bundle', exp_loop_inv)],
                                        modifies=lambda c: {'val': [idx(c.pre, c.p.self)]})},
                     
                     ensures=[('loader-invariant', lambda c: loader_inv(c.new, c.p.self)),
                              ('saved-content-unchanged', lambda c: G(c.new, c.p.self) == G(c.old, c.p.self)),
                              ('same-ids', lambda c: z3.And(idx(c.new, c.p.self) == idx(c.old, c.p.self), c.new.dom(idx(c.old, c.p.self)) == c.old.dom(idx(c.old, c.p.self)))),
                              ('after-an-export-with-rows-no-item-is-left-in-the-active-bundle', lambda c: z3.Implies(
                                  S.ival(c.old.attr(c.p.self, 'active_bundle_length')) > 0, no_active_left(c))),
                              ('caches-are-the-same-objects', lambda c: z3.And(ic(c.new, c.p.self) == ic(c.old, c.p.self), bc(c.new, c.p.self) == bc(c.old, c.p.self)))],
                     modifies=gl_mod))

    def ghost_record_latest(ex, st, node):
        """ghost: the flattened item just computed is the latest content of _id"""
        a = S.addr(st.env['self'].t)
        cur = z3.Select(st.field('ghost:latest'), a)
        st.set_field('ghost:latest', z3.Store(st.field('ghost:latest'), a, z3.Store(cur, st.env['_id'].t, st.env['flattened_item'].t)))

    def save_effect(c):
        L = c.p.self
        return G(c.new, L) == z3.Store(G(c.old, L), c.p._id, flat(c.p._id, c.p.item_content))

    reg.add(Contract(LD, 'GeneralLoader.save', dict(self=GL, _id=Any, item_content=Any), returns=Any, ghost_init=set_loader,
                     ghost_hooks={'after_stmt:flattened_item = ': ghost_record_latest},
                     requires=[('loader-invariant', lambda c: loader_inv(c.old, c.p.self)),
                               ('length-is-non-negative', lambda c: S.ival(c.old.attr(c.p.self, 'active_bundle_length')) >= 0)],
                     ensures=[('this-content-is-now-the-latest-for-the-id;-every-other-id-keeps-its-content', save_effect),
                              ('loader-invariant', lambda c: loader_inv(c.new, c.p.self)),
                              ('id-is-known', lambda c: z3.Select(c.new.dom(idx(c.new, c.p.self)), c.p._id)),
                              ('returns-the-content', lambda c: c.res == c.p.item_content)],
                     modifies=gl_mod))

    reg.add(Contract(LD, 'GeneralLoader.get_item_by_id', dict(self=GL, _id=Any), returns=Any, ghost_init=set_loader,
                     requires=[('loader-invariant', lambda c: loader_inv(c.old, c.p.self))],
                     ensures=[('loader-invariant', lambda c: loader_inv(c.new, c.p.self)),
                              ('None-for-an-unknown-id', lambda c: z3.Implies(z3.Not(z3.Select(c.old.dom(idx(c.old, c.p.self)), c.p._id)), S.is_none(c.res))),
                              ('the-unflattened-latest-content', lambda c: z3.Implies(z3.Select(c.old.dom(idx(c.old, c.p.self)), c.p._id),
                                                                                      c.res == unflat(c.p._id, table_of(z3.Select(G(c.old, c.p.self), c.p._id)))))],
                     modifies=lambda c: {'*': (lambda a: z3.Or(a >= c.old.next, owned(c, a)))}))
    reg.add(Contract(LD, 'GeneralLoader.unflatten_item_dataframe_when_loading', dict(self=GL, _id=Any, item_df=DM), returns=Any, opaque=True,
                     ensures=[('a-function-of-id-and-table', lambda c: c.res == unflat(c.p._id, tbl(c.old, c.p.item_df)))], modifies=lambda c: {}, fresh_fields=[],
                     note='subclass hook (inverse of flatten for the subclass: assumed, bounded replay on real loader classes)'))

    # ---- OneToManyMapLoader -----------------------------------------------------------------------------------------------------------
    reg.add_class(ClassInfo('OneToManyMapLoader', LD, dict(path=Any, schema=Any, one_to_many=Dict(Any, Any), many_to_one=Dict(Any, Any))))
    OM = Obj('OneToManyMapLoader')
    xq = z3.Const('x', S.PyObj())

    def is_list(v): return z3.And(S.is_ref(v), S.tyof(S.addr(v)) == S.type_id('list'))
    def is_set(v): return z3.And(S.is_ref(v), S.tyof(S.addr(v)) == S.type_id('set'))

    def fwd(h, m): return h.attr(m, 'one_to_many')
    def bwd(h, m): return h.attr(m, 'many_to_one')

    def om_nonempty(c):
        m, one, many = c.p.self, c.p.one, c.p.many
        stored = z3.Select(c.new.val(fwd(c.old, m)), one)
        nonempty = z3.If(is_list(many), z3.Length(c.old.list(many)) > 0, z3.Exists([xq], z3.Select(c.old.dom(many), xq)))
        return z3.Implies(nonempty, z3.And(
            z3.Select(c.new.dom(fwd(c.old, m)), one), is_list(stored),
            S.forall([xq], S.member(c.new.list(stored), xq) == z3.If(is_list(many), S.member(c.old.list(many), xq), z3.Select(c.old.dom(many), xq)),
                     patterns=[S.member(c.new.list(stored), xq)]),
            z3.Implies(is_list(many), z3.And(stored == many, c.new.list(many) == c.old.list(many))),
            # reverse map: every member now maps to `one`
            S.forall([xq], z3.Implies(z3.If(is_list(many), S.member(c.old.list(many), xq), z3.Select(c.old.dom(many), xq)),
                                      z3.And(z3.Select(c.new.dom(bwd(c.old, m)), xq), z3.Select(c.new.val(bwd(c.old, m)), xq) == one)),
                     patterns=[z3.Select(c.new.val(bwd(c.old, m)), xq)]),
            # other forward keys untouched
            S.forall([xq], z3.Implies(xq != one, z3.And(z3.Select(c.new.dom(fwd(c.old, m)), xq) == z3.Select(c.old.dom(fwd(c.old, m)), xq),
                                                        z3.Select(c.new.val(fwd(c.old, m)), xq) == z3.Select(c.old.val(fwd(c.old, m)), xq))),
                     patterns=[z3.Select(c.new.val(fwd(c.old, m)), xq)])))

    def om_empty(c):
        """saving an EMPTY collection: a later read must return it (the empty content), i.e. no older content may remain readable"""
        m, one, many = c.p.self, c.p.one, c.p.many
        empty = z3.If(is_list(many), z3.Length(c.old.list(many)) == 0, z3.Not(z3.Exists([xq], z3.Select(c.old.dom(many), xq))))
        stored = z3.Select(c.new.val(fwd(c.old, m)), one)
        return z3.Implies(empty, z3.Or(z3.Not(z3.Select(c.new.dom(fwd(c.old, m)), one)), z3.And(is_list(stored), z3.Length(c.new.list(stored)) == 0)))

    def om_no_stale(c):
        m, one, many = c.p.self, c.p.one, c.p.many
        is_set = z3.And(S.is_ref(many), S.tyof(S.addr(many)) == S.type_id('set'))
        in_many = lambda x: z3.If(is_set, z3.Select(c.old.dom(many), x), S.member(c.old.list(many), x))
        nonempty = z3.If(is_set, z3.Exists([xq], z3.Select(c.old.dom(many), xq)), z3.Length(c.old.list(many)) > 0)
        B1 = bwd(c.old, m)
        return z3.Implies(nonempty, S.forall([xq], z3.Implies(z3.And(z3.Select(c.new.dom(B1), xq), z3.Select(c.new.val(B1), xq) == one), in_many(xq))))

    reg.add(Contract(LD, 'OneToManyMapLoader.save', dict(self=OM, one=Any, many=Any), returns=NoneT,
                     requires=[('many-is-a-list-or-a-set', lambda c: z3.Or(S.has_type(c.p.many, List(Any), c.old.next), S.has_type(c.p.many, Set(Any), c.old.next))),
                               ('maps-are-two-dicts-distinct-from-the-argument', lambda c: z3.And(fwd(c.old, c.p.self) != bwd(c.old, c.p.self)))],
                     loops={1: LoopSpec(invariants=[
                         ('members-seen-so-far-map-back-to-one', lambda c: S.forall([xq], z3.Implies(
                             z3.And(S.member(c.seq, xq), S.idx_of(c.seq, xq) < c.i), z3.And(z3.Select(c.cur.dom(bwd(c.pre, c.p.self)), xq),
                                                                                           z3.Select(c.cur.val(bwd(c.pre, c.p.self)), xq) == c.p.one)),
                             patterns=[z3.Select(c.cur.val(bwd(c.pre, c.p.self)), xq)]))],
                         modifies=lambda c: {'dom': [bwd(c.pre, c.p.self)], 'val': [bwd(c.pre, c.p.self)]})},
                     ensures=[('a-read-returns-the-non-empty-content-just-saved', om_nonempty),
                              ('a-read-returns-the-empty-content-just-saved', om_empty),
                              ('no-stale-owner:-after-a-non-empty-save-every-member-that-maps-back-to-`one`-is-in-the-collection-just-saved', om_no_stale)],
                     modifies=lambda c: {'dom': [fwd(c.old, c.p.self), bwd(c.old, c.p.self)], 'val': [fwd(c.old, c.p.self), bwd(c.old, c.p.self)]},
                     fresh_fields=['list']))
    reg.add(Contract(LD, 'OneToManyMapLoader.convert_one_to_many', dict(self=OM, one=Any), returns=Any,
                     ensures=[('the-stored-content-or-a-new-empty-list', lambda c: z3.If(z3.Select(c.old.dom(fwd(c.old, c.p.self)), c.p.one),
                                                                                         c.res == z3.Select(c.old.val(fwd(c.old, c.p.self)), c.p.one),
                                                                                         z3.And(is_list(c.res), z3.Length(c.new.list(c.res)) == 0)))],
                     modifies=lambda c: {}, fresh_fields=['list']))
    reg.add(Contract(LD, 'OneToManyMapLoader.convert_many_to_one', dict(self=OM, item_in_many=Any), returns=Any,
                     ensures=[('the-owner-or--1', lambda c: c.res == z3.If(z3.Select(c.old.dom(bwd(c.old, c.p.self)), c.p.item_in_many),
                                                                          z3.Select(c.old.val(bwd(c.old, c.p.self)), c.p.item_in_many), S.mk_int(-1)))]))
    # ---- restore_indexing: a restored loader never hands out a bundle id that the index still mentions ----------------------------------------------------------------------
    reg.add_class(ClassInfo('IndexRow', LD, {}, kind='opaque'))
    index_rows = z3.Function('rows_of_the_index_table', I_, S.SeqP())

    @reg.opaque('opaque_iter', 'DataModel', 'iteration over a loaded index table: its rows, in order')
    def _dm_iter(ex, st, recv):
        from lianvc.loops import Iter
        seq = index_rows(gsel(st, 'tbl', S.addr(recv.t)))
        return Iter(z3.Length(seq), lambda i, st2: V(S.at(seq, i), Opaque('IndexRow')), seq, None, 'tuple')
    raw = z3.Function('index_row_data', S.PyObj(), S.PyObj())

    @reg.extern_method('IndexRow', 'raw_data', 'Row.raw_data() of an index row: the pair (item id, bundle id) that export_indexing wrote (bundle id an int >= -1; assumed about the index file)')
    def _raw(ex, st, node, recv, args, kwargs):
        t = raw(recv.t)
        st.assume(z3.And(S.is_tup(t), z3.Length(S.items(t)) == 2, S.is_int(S.at(S.items(t), 1)), S.ival(S.at(S.items(t), 1)) >= -1, S.items(t)[1] == S.at(S.items(t), 1),
                         S.items(t)[0] == S.at(S.items(t), 0)))
        return V(t, Tuple(Any, Int))

    @reg.extern('os.path.exists', 'os.path.exists(path): some bool')
    def _exists(ex, st, node, args, kwargs):
        return V(S.mk_bool(S.fresh('exists', z3.BoolSort())), Bool)

    def index_below_count(h, L):
        """every index entry is -1 (pending) or a bundle id below bundle_count: a bundle id handed out later (new_bundle_id) is not one the index mentions"""
        return z3.And(S.ival(h.attr(L, 'bundle_count')) >= 0,
                      S.forall([iq], z3.Implies(z3.Select(h.dom(idx(h, L)), iq), z3.And(S.is_int(z3.Select(h.val(idx(h, L)), iq)),
                                                                                    S.ival(z3.Select(h.val(idx(h, L)), iq)) < S.ival(h.attr(L, 'bundle_count')))),
                               patterns=[z3.Select(h.val(idx(h, L)), iq)]))
    reg.add(Contract(LD, 'GeneralLoader.restore_indexing', dict(self=GL), returns=NoneT,
                     ghost_init=lambda ex, st: st.ghost.__setitem__('cur_loader', S.addr(st.env['self'].t)),
                     requires=[('index-entries-point-below-the-bundle-count', lambda c: index_below_count(c.old, c.p.self))],
                     loops={1: LoopSpec(invariants=[('index-entries-point-below-the-bundle-count', lambda c: z3.And(
                         index_below_count(c.cur, c.p.self), c.cur.attr(c.p.self, 'item_id_to_bundle_id') == c.pre.attr(c.p.self, 'item_id_to_bundle_id'),
                         S.ival(c.cur.attr(c.p.self, 'bundle_count')) >= S.ival(c.pre.attr(c.p.self, 'bundle_count'))))],
                                        modifies=lambda c: {'attr:bundle_count': [c.p.self], 'dom': [c.pre.attr(c.p.self, 'item_id_to_bundle_id')], 'val': [c.pre.attr(c.p.self, 'item_id_to_bundle_id')]})},
                     ensures=[('after-restoring,-every-index-entry-points-below-the-bundle-count-(a-new-bundle-id-never-reuses-a-bundle-the-index-still-mentions)', lambda c: index_below_count(c.new, c.p.self)),
                              ('the-bundle-count-never-shrinks', lambda c: S.ival(c.new.attr(c.p.self, 'bundle_count')) >= S.ival(c.old.attr(c.p.self, 'bundle_count')))],
                     modifies=lambda c: {'attr:bundle_count': [c.p.self], 'dom': [c.old.attr(c.p.self, 'item_id_to_bundle_id')], 'val': [c.old.attr(c.p.self, 'item_id_to_bundle_id')],
                                         'ghost:tbl': (lambda a: a >= c.old.next)}))
    return reg, dict(has=has, get=get, node=node, lru_inv=lru_inv, node_fields=node_fields, kq=kq, GL=GL, LRU=LRU)


_orig_build = build


def build():
    reg, _ = _orig_build()
    return reg


def path_lemmas(reg, tier):
    from lianvc.engine import VC
    from lianvc import solve
    s_ = z3.String('s')
    a, b = z3.Ints('a b')
    d = lambda x: z3.Concat(s_, z3.StringVal('.bundle'), z3.IntToStr(x))
    return [solve.discharge_fresh(VC(f'{PROPERTY}:lemma:bundle-path-injective', [a >= 0, b >= 0, d(a) == d(b)], a == b, kind='lemma'), 30000)]


def static_distinct_prefixes(reg, tier):
    """the Loader facade: every sub-loader constructed in Loader.__init__ is given its own file prefix (os.path.join(<phase directory>, config.<CONSTANT>)): no two
    sub-loaders share a path expression, every constant resolves to a string literal of config.py, and the resulting paths are pairwise distinct — else two loaders
    overwrite each other's .bundleN / .indexing files and a read returns what another loader saved. Structural (AST of loader.py + config.py)."""
    import ast
    import os
    from lianvc import source
    tree = ast.parse(open(os.path.join(source.REPO, 'src/lian/util/loader.py'), encoding='utf-8').read())
    cfg = ast.parse(open(os.path.join(source.REPO, 'src/lian/config/config.py'), encoding='utf-8').read())
    consts = {}
    for n in cfg.body:
        if isinstance(n, ast.Assign) and len(n.targets) == 1 and isinstance(n.targets[0], ast.Name) and isinstance(n.value, ast.Constant) and isinstance(n.value.value, str):
            consts[n.targets[0].id] = n.value.value
    init = [f for c_ in tree.body if isinstance(c_, ast.ClassDef) and c_.name == 'Loader' for f in c_.body if isinstance(f, ast.FunctionDef) and f.name == '__init__']
    dirs, paths = {}, []
    for st_ in (init[0].body if init else []):
        if isinstance(st_, ast.Assign) and len(st_.targets) == 1 and isinstance(st_.targets[0], ast.Attribute) and isinstance(st_.value, ast.Call):
            tgt, call = st_.targets[0].attr, st_.value
            if ast.unparse(call.func) == 'os.path.join':
                dirs[tgt] = [ast.unparse(a) for a in call.args]
            else:
                for j in [a for a in list(call.args) + [k.value for k in call.keywords] if isinstance(a, ast.Call) and ast.unparse(a.func) == 'os.path.join']:
                    paths.append((tgt, [ast.unparse(a) for a in j.args]))

    def val(a):
        if a.startswith('config.'):
            return consts.get(a[7:], '?' + a)
        if a.startswith('self.') and a[5:] in dirs:
            return '/'.join(val(x) for x in dirs[a[5:]])
        return '<' + a + '>'
    by_expr, by_val = {}, {}
    for tgt, args in paths:
        by_expr.setdefault(tuple(args), []).append(tgt)
        by_val.setdefault('/'.join(val(a) for a in args), []).append(tgt)
    dup = sorted(v for v in by_expr.values() if len(v) > 1) + sorted(v for v in by_val.values() if len(v) > 1)
    unresolved = sorted(k for k in by_val if '?' in k)
    ok = len(paths) >= 40 and not dup and not unresolved
    detail = f'sub-loaders sharing a file prefix: {dup[:3]}; unresolved constants: {unresolved[:3]}; {len(paths)} sub-loader paths found'
    return [dict(name=f'{PROPERTY}:static:every-sub-loader-of-the-Loader-facade-has-its-own-file-prefix', kind='static', verdict='unsat' if ok else 'sat', backend='ast-evaluation',
                 time_s=0.0, model=None if ok else {'detail': detail}, reason='' if ok else detail)]


EXTRA_OBLIGATIONS = [path_lemmas, static_distinct_prefixes]


def bounded_hooks(tier, seed):
    """BOUNDED stand-in (never counted as proved) for what the proofs assume about the subclass hooks / pandas / the LRU recency list"""
    from lianvc import runner
    depth = '4' if tier == 'quick' else '5'
    out, err = runner.run_replay(REPLAY, ['--bounded', depth], timeout=3000)
    if out is None:
        return dict(name='loader hooks through real bundle files + LRU list', failed=True, is_violation=False, detail=err, bound=f'depth {depth}')
    return dict(name='GeneralLoader subclass through real bundle files; LRUCache list well-formedness (exhaustive small histories)', kind='bounded',
                bound=out.get('bound'), cases=out.get('cases'), failed=bool(out.get('witnesses')), is_violation=True,
                detail=out.get('witnesses', [])[:2], failing_input=(out.get('witnesses') or [None])[0])


bounded_hooks.quick = True
BOUNDED_CHECKS = [bounded_hooks]

ASSUMPTIONS = [
    'DataModel / pandas / feather are trusted and uninterpreted: DataModel(rows) is a table token that is a function of the rows value; load(path) returns '
    'the table last saved to that path (round trip is the identity); writes are assumed to succeed',
    'the clause "a failed write is reported, never silently dropped" is NOT decided: DataModel.save swallows the exception (print + return None) and '
    'GeneralLoader.export does not look at the result',
    'subclass hooks are opaque: flatten_item_when_saving is a function of (id, content); query_flattened_item_when_loading returns the rows of that id; '
    'convert_active_bundle_to_dataframe yields a table from which the rows of every active item can be queried back; unflatten is a function of (id, table). '
    'That these compose to the identity for the 17 real loader subclasses is assumed (bounded replay on a concrete subclass through real files)',
    'flattened items are not mutated after save(); one loader writes only paths under its own bundle_path_summary',
    'LRUCache: proved as a faithful map (get returns the value last put; put/remove change no other key except by eviction). The recency list itself '
    '(no None link dereferenced, the evicted node is an entry, at most `capacity` entries) is NOT proved: AttributeError/KeyError are declared possible '
    'in get/put/remove and the list is exercised by the bounded replay',
    'export_indexing / restore_indexing (fresh loader restoring from files) and the other dictionary-backed loaders are not under contract in this tree',
    'GeneralLoader.export: when active_bundle_length == 0 nothing is written (items with zero rows stay in the active bundle)',
]
EXPLANATION = ('Deductive proof on the real loader.py/util.py that, for every history of save/get/export on a GeneralLoader, get returns the content most '
               'recently saved for the id (representation invariant over index, active bundle, bundle files, bundle cache and item cache is inductive), '
               'that LRUCache is a faithful map, and of the OneToManyMapLoader maps. Library and subclass hooks are trusted tokens; a bounded stand-in '
               'exercises them on real files.')
QUICK_CANARIES = {
    'GeneralLoader.save': ['delete-stmt[self.item_cache.remove(_id)]', 'delete-stmt[self.item_id_to_bundle_id[_id] = -1]', 'delete-stmt[self.active_bundle[_id] = ActiveItem'],
    'GeneralLoader.export': ['delete-stmt[self.active_bundle = {}]', 'delete-stmt[self.item_id_to_bundle_id[item_id] = new_bundle_id]', 'flip-comparison',
                             'delete-stmt[self.bundle_cache.put(new_bundle_id, bundle_df)]'],
    'GeneralLoader.get_raw_item_by_id': ['flip-comparison', 'delete-stmt[self.item_cache.put(_id, dm)]', 'negate-condition'],
    'GeneralLoader.new_bundle_id': ['delete-stmt[self.bundle_count += 1]'],
    'LRUCache.put': ['delete-stmt[self.cache[_id] = node]', 'negate-condition'],
    'LRUCache.get': ['negate-condition', 'drop-return-value'],
    'LRUCache.remove': ['delete-stmt[del self.cache[_id]]'],
    'OneToManyMapLoader.save': ['delete-stmt[self.one_to_many[one] = many]', 'delete-stmt[self.many_to_one[each_id] = one]'],
}
MIN_CANARY_KILL_RATIO = 0.85
# not property-relevant or explicitly outside the proof: `not None` is True as well; the LRU recency list (only its frame is proved);
# keeping the old active-bundle dict / exporting an empty bundle does not change what reads return
EQUIVALENT_MUTANTS = ('delete-stmt[return True] @L18', 'delete-stmt[return True] @L29', 'LRUCache._remove_node', 'LRUCache._add_node',
                      'delete-stmt[self.capacity = capacity]', 'delete-stmt[self.active_bundle = {}]', 'flip-comparison @L342', 'negate-condition @L414')
