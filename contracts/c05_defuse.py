"""C05, global/nonlocal part: in StmtDefUseAnalysis.add_status_with_symbol_id_sync the name of a `global` statement is resolved in the unit's root scope only, the name of a
`nonlocal` statement (and every ordinary name) through the lexical scope chain.

Runs in its own process (it uses the C06 registry, which has the def-use analysis under contract with other class declarations than C05's): generates the VCs of the real
function with one more obligation before every call of Resolver.resolve_symbol_source_decl and prints the verdicts of those obligations as JSON."""
import ast
import json
import sys
import z3

sys.path.insert(0, '/verif')


def main():
    from contracts import c06
    from lianvc.engine import Exec
    from lianvc import runner, sorts as S
    reg = c06.build()
    c = reg.contracts[(c06.DU, 'StmtDefUseAnalysis.add_status_with_symbol_id_sync')]

    def before_resolve(ex, st, node):
        call = [n for n in ast.walk(node) if isinstance(n, ast.Call) and ast.unparse(n.func) == 'self.resolver.resolve_symbol_source_decl'][0]
        kw = {k.arg: k.value for k in call.keywords}
        flag = ex.truth(ex.ev(kw['source_symbol_must_be_global'], st), st) if 'source_symbol_must_be_global' in kw else (
            ex.truth(ex.ev(call.args[3], st), st) if len(call.args) > 3 else z3.BoolVal(False))
        cx = ex.ctx(st)
        is_global_stmt = cx.cur.attr(cx.p.stmt, 'operation') == S.mk_str(z3.StringVal('global_stmt'))
        if 'used_symbol' in st.env:
            ex.oblige(st, 'scoping:a-used-name-is-resolved-through-the-lexical-scope-chain-(never-restricted-to-the-root-scope)', z3.Not(flag), kind='lemma')
        else:
            ex.oblige(st, 'scoping:only-the-name-of-a-global-statement-is-looked-up-in-the-root-scope-alone;-nonlocal-and-ordinary-definitions-go-through-the-lexical-scope-chain',
                      flag == is_global_stmt, kind='lemma')
    c.ghost_hooks = dict(c.ghost_hooks)
    c.ghost_hooks['before_stmt:source_info = self.resolver.resolve_symbol_source_decl('] = before_resolve
    timeout_ms = int(sys.argv[1]) if len(sys.argv) > 1 else 10000
    ex = Exec(reg, c)
    vcs = [v for v in ex.run() if ':scoping:' in v.name]
    res = runner.solve_parallel(vcs, timeout_ms, runner.NPROC)
    out = [dict(name=r['name'], kind='lemma', verdict=r['verdict'], backend=r['backend'], time_s=r['time_s'], model=None, reason=r.get('reason', '')) for r in res]
    sys.stdout.write('\n' + json.dumps(dict(results=out, n_vcs=len(vcs))) + '\n')


if __name__ == '__main__':
    main()
