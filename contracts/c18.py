"""C18 — Running lian never alters inputs and writes only inside its workspace (textual path containment).

Effects on the file system are not observable to a contract.  What is decided here is the frame over PATH STRINGS: every call of a
file-system-mutating API inside the functions under contract receives a path that is textually under the workspace, forced cleanup deletes
only children of the workspace (never the workspace directory itself), and an inventory obligation lists every mutating call site of src/lian
so that a new one cannot appear unnoticed.  Symlinks, chdir, '..' components in names returned by the OS and the behaviour of os/shutil are
assumptions.  Byte-identity of inputs is NOT decided.
"""
import ast
import os
import z3
from lianvc import sorts as S
from lianvc.sorts import Any, Int, Bool, Str, NoneT, Opt, List, Dict, Set, Tuple, TupleOf, Obj, Val, Fn, Opaque
from lianvc.contracts import Contract, ClassInfo, LoopSpec, Registry
from lianvc.engine import V, Outcome, Unsupported
from contracts import shared

PROPERTY = 'C18'
REPLAY = 'c18_replay.py'
PREP = 'src/lian/preparation.py'
MAIN = 'src/lian/main.py'

SS = z3.StringSort()
_f = {}


def fn(name, *sorts):
    if name not in _f:
        _f[name] = z3.Function(name, *sorts)
    return _f[name]


def abspath(s): return fn('os_path_abspath', SS, SS)(s)
def slash(): return z3.StringVal('/')


def under(p, w):
    """textual containment (opaque in the function proofs; under_def is its definition, the closure properties used are lemmas U1-U6)"""
    return fn('path_under', SS, SS, z3.BoolSort())(p, w)


def strictly_under(p, w):
    return fn('path_strictly_under', SS, SS, z3.BoolSort())(p, w)


def under_def(p, w):
    """p is w itself, or w + '/' + something (w may already end with the separator)"""
    return z3.Or(p == w, z3.PrefixOf(z3.Concat(w, slash()), p), z3.And(z3.SuffixOf(slash(), w), z3.PrefixOf(w, p)))


def strict_def(p, w):
    """a proper descendant: w + '/' + non-empty (or w + non-empty when w ends with the separator)"""
    return z3.Or(z3.And(z3.PrefixOf(z3.Concat(w, slash()), p), z3.Length(p) > z3.Length(w) + 1),
                 z3.And(z3.SuffixOf(slash(), w), z3.PrefixOf(w, p), z3.Length(p) > z3.Length(w)))


def rel(n):
    return z3.Not(z3.PrefixOf(slash(), n))


def closure_axioms():
    p, w, n = z3.Strings('cp cw cn')
    j = shared.sp_join(p, n)
    return [
        ('U1-a-path-is-under-itself', z3.ForAll([w], under(w, w), patterns=[under(w, w)])),
        ('U2-joining-a-relative-name-stays-under', z3.ForAll([p, w, n], z3.Implies(z3.And(under(p, w), rel(n), z3.Length(w) > 0), under(j, w)), patterns=[under(j, w)])),
        ('U3-joining-an-entry-name-is-strictly-under', z3.ForAll([p, w, n], z3.Implies(z3.And(under(p, w), simple_name(n), z3.Length(w) > 0), strictly_under(j, w)),
                                                                 patterns=[strictly_under(j, w)])),
        ('U4-strictly-under-is-under', z3.ForAll([p, w], z3.Implies(strictly_under(p, w), under(p, w)), patterns=[strictly_under(p, w)])),
        ('U5-joining-a-relative-name-stays-strictly-under', z3.ForAll([p, w, n], z3.Implies(z3.And(strictly_under(p, w), rel(n), z3.Length(w) > 0), strictly_under(j, w)),
                                                                      patterns=[strictly_under(j, w)])),
        ('U6-a-joined-path-contains-the-joined-name', z3.ForAll([p, n], z3.Contains(j, n), patterns=[j])),
        ('U7-under-is-transitive', z3.ForAll([p, w, n], z3.Implies(z3.And(under(p, n), under(n, w)), under(p, w)), patterns=[z3.MultiPattern(under(p, n), under(n, w))])),
    ]


def simple_name(n):
    """a directory entry name as the OS returns it: non-empty, no separator, not '.'"""
    return z3.And(z3.Length(n) > 0, z3.Not(z3.Contains(n, slash())), n != z3.StringVal('.'))


def build():
    reg = Registry()
    shared.register_util(reg)
    shared.register_quit(reg)
    reg.add_class(ClassInfo('Options', PREP, dict(workspace=Str, force=Any, incremental=Any, quiet=Any, in_path=List(Str), nomock=Any, strict_parse_mode=Any,
                                                  lang_extensions=List(Str), default_workspace_dir=Any, lang=Any, enable_header_preprocess=Any, included_headers=Any)))
    reg.add_class(ClassInfo('WorkspaceBuilder', PREP, dict(dst_file_to_src_file=Dict(Any, Any), options=Obj('Options'), clang_installed=Any, c_like_extensions=Any,
                                                           required_subdirs=List(Str), header_keywords=Any)))
    reg.add_class(ClassInfo('Lian', MAIN, dict(options=Obj('Options'), set_workspace_dir_flag=Any)))
    WB = Obj('WorkspaceBuilder')

    # ghost: the workspace roots against which every write is checked (set at function entry)
    def roots(st):
        return st.ghost['ws_rel'], st.ghost['ws_abs']

    def set_roots_from_options(ex, st):
        opt = z3.Select(st.field('attr:options'), S.addr(st.env['self'].t))
        ws = S.sval(z3.Select(st.field('attr:workspace'), S.addr(opt)))
        st.ghost['ws_rel'] = ws
        st.ghost['ws_abs'] = abspath(ws)
        st.ghost['writes'] = z3.IntVal(0)

    def ok_path(st, p):
        r, a = roots(st)
        return z3.Or(under(p, r), under(p, a))

    def mutating(name, path_arg=0, strict=False):
        def ext(ex, st, node, args, kwargs):
            p = args[path_arg]
            if p.ty.kind != 'str':
                ex.safety(st, 'TypeError', name + ' path', S.is_str(p.t))
            r, a = roots(st)
            ps = S.sval(p.t)
            goal = z3.Or(strictly_under(ps, r), strictly_under(ps, a)) if strict else ok_path(st, ps)
            ex.oblige(st, ex.uniq(f'fs-write:{name}({ast.unparse(node.args[path_arg])[:40]}):{"strictly-" if strict else ""}inside-the-workspace'), goal, kind='call-pre')
            st.assume(goal)
            st.ghost['writes'] = st.ghost['writes'] + 1
            return V(S.NONE(), NoneT)
        return ext

    reg.extern('os.unlink', 'os.unlink(path): deletes that path (string-level)')(mutating('os.unlink', strict=True))
    reg.extern('shutil.rmtree', 'shutil.rmtree(path): deletes the tree at that path (string-level)')(mutating('shutil.rmtree', strict=True))
    reg.extern('os.makedirs', 'os.makedirs(path): creates that path and missing parents (string-level; parents of a path under the workspace that are not '
                              'under it exist already or are created outside: the workspace root itself is created this way)')(mutating('os.makedirs'))
    reg.extern('shutil.copy2', 'shutil.copy2(src, dst): writes dst only')(mutating('shutil.copy2', path_arg=1))
    reg.extern('shutil.copytree', 'shutil.copytree(src, dst): writes under dst only')(mutating('shutil.copytree', path_arg=1))

    def fs_query(name):
        def ext(ex, st, node, args, kwargs):
            return V(S.mk_bool(z3.Bool(f'fs_{name}!{next(_cnt)}')), Bool)
        return ext
    import itertools
    _cnt = itertools.count()
    for q in ('exists', 'isfile', 'islink', 'isdir'):
        reg.extern('os.path.' + q, f'os.path.{q}: an arbitrary boolean (file-system state is not modelled)')(fs_query(q))

    @reg.extern('os.path.abspath', 'os.path.abspath (string-level, uninterpreted): absolute, idempotent; abspath(join(a, b)) == join(abspath(a), b) for relative b')
    def _abspath(ex, st, node, args, kwargs):
        return V(S.mk_str(abspath(S.sval(args[0].t))), Str)

    REALPATH_IS_ABSPATH_IN = ('WorkspaceBuilder.copytree_with_extension', 'WorkspaceBuilder.run')

    @reg.extern('os.path.realpath', 'os.path.realpath: uninterpreted (symlinks may exist); equal to abspath ONLY inside copytree_with_extension / run, i.e. for the '
                                    'input paths and the source tree the run itself has just created (ASSUMPTION: those contain no symlinked components)')
    def _realpath(ex, st, node, args, kwargs):
        a = S.sval(args[0].t)
        src_txt = ast.unparse(node) if node is not None else ''
        # the two calls that decide which directories the walk skips are about the WORKSPACE and the walked entries, which may well lie behind symlinks: uninterpreted there
        pruning_side = 'self.options.workspace' in src_txt or 'os.path.join(root, d)' in src_txt
        if ex.c.qualname in REALPATH_IS_ABSPATH_IN and not pruning_side:
            return V(S.mk_str(abspath(a)), Str)
        return V(S.mk_str(fn('os_path_realpath', SS, SS)(a)), Str)

    @reg.extern('os.listdir', 'os.listdir(path): a list of entry names (non-empty, no separator, not ".")')
    def _listdir(ex, st, node, args, kwargs):
        r = ex.alloc(st, 'list')
        seq = S.fresh('listdir', S.SeqP())
        st.set_field('list', z3.Store(st.field('list'), S.addr(r), seq))
        j = z3.Int('lj')
        st.assume(z3.ForAll([j], z3.Implies(z3.And(j >= 0, j < z3.Length(seq)), z3.And(S.is_str(S.at(seq, j)), simple_name(S.sval(S.at(seq, j))))), patterns=[S.at(seq, j)]))
        return V(r, List(Str))

    a_, b_ = z3.Strings('pa pb')
    reg.axioms += [
        z3.ForAll([a_], z3.PrefixOf(slash(), abspath(a_)), patterns=[abspath(a_)]),
        z3.ForAll([a_], z3.Implies(z3.PrefixOf(slash(), a_), abspath(a_) == a_), patterns=[abspath(a_)]),        # no normalisation of an absolute path (ASSUMPTION)
        z3.ForAll([a_, b_], z3.Implies(under(a_, b_), under(abspath(a_), abspath(b_))), patterns=[under(abspath(a_), abspath(b_))]),
        z3.ForAll([a_, b_], z3.Implies(z3.Not(z3.PrefixOf(slash(), b_)), abspath(shared.sp_join(a_, b_)) == shared.sp_join(abspath(a_), b_)),
                  patterns=[abspath(shared.sp_join(a_, b_))]),
    ]
    shared.register_ospath(reg)
    reg.axioms += [ax for _, ax in closure_axioms()]

    # ---- cleanup_directory / manage_directory: forced cleanup deletes only children of the workspace ---------------------------------------
    def wsabs(c):
        return abspath(S.sval(c.pre.attr(c.pre.attr(c.p.self, 'options'), 'workspace')))

    reg.add(Contract(PREP, 'WorkspaceBuilder.prepare_directory', dict(self=WB, path=Str), returns=NoneT, ghost_init=set_roots_from_options,
                     requires=[('path-is-the-workspace', lambda c: z3.Or(S.sval(c.p.path) == wsabs(c), S.sval(c.p.path) == S.sval(c.pre.attr(c.pre.attr(c.p.self, 'options'), 'workspace'))))],
                     ensures=[('creates-at-most-the-workspace-directory', lambda c: z3.BoolVal(True))], modifies=lambda c: {}, fresh_fields=[]))
    reg.add(Contract(PREP, 'WorkspaceBuilder.manage_directory', dict(self=WB), returns=NoneT, ghost_init=set_roots_from_options,
                     ensures=[('every-deleted-path-is-a-child-of-the-workspace', lambda c: z3.BoolVal(True))],
                     raises={'SystemExit': [('only-after-a-failed-delete-or-without-force', lambda c: z3.BoolVal(True))]},
                     modifies=lambda c: {}, fresh_fields=['list']))
    reg.add(Contract(PREP, 'WorkspaceBuilder.cleanup_directory', dict(self=WB, path=Str), returns=NoneT, ghost_init=set_roots_from_options,
                     requires=[('workspace-path-is-not-empty', lambda c: z3.Length(S.sval(c.pre.attr(c.pre.attr(c.p.self, 'options'), 'workspace'))) > 0),
                               ('path-is-under-the-workspace', lambda c: z3.Or(under(S.sval(c.p.path), wsabs(c)),
                                                                              under(S.sval(c.p.path), S.sval(c.pre.attr(c.pre.attr(c.p.self, 'options'), 'workspace')))))],
                     ensures=[('every-deleted-path-is-strictly-under-the-workspace', lambda c: z3.BoolVal(True))],
                     raises={'SystemExit': [('only-after-a-failed-delete', lambda c: z3.BoolVal(True))]},
                     modifies=lambda c: {}, fresh_fields=['list']))

    def wsrel(c):
        return S.sval(c.pre.attr(c.pre.attr(c.p.self, 'options'), 'workspace'))

    ws_nonempty = ('workspace-path-is-not-empty', lambda c: z3.Length(wsrel(c)) > 0)
    jq = z3.Int('j')

    def subdirs_relative(c):
        """the sub-directory names are relative paths (they come from config constants: checked statically below)"""
        seq = c.pre.list(c.pre.attr(c.p.self, 'required_subdirs'))
        return z3.ForAll([jq], z3.Implies(z3.And(jq >= 0, jq < z3.Length(seq)), z3.And(S.is_str(S.at(seq, jq)), rel(S.sval(S.at(seq, jq))))), patterns=[S.at(seq, jq)])

    reg.add(Contract(PREP, 'WorkspaceBuilder.backup_workspace', dict(self=WB), returns=NoneT, ghost_init=set_roots_from_options,
                     requires=[ws_nonempty, ('sub-directory-names-are-relative', subdirs_relative)],
                     ensures=[('every-write-is-under-workspace/bak', lambda c: z3.BoolVal(True))],
                     raises={'SystemExit': [('only-after-a-failed-delete', lambda c: z3.BoolVal(True))]},
                     modifies=lambda c: {}, fresh_fields=['list']))

    # ---- copytree_with_extension: writes only under its destination ---------------------------------------------------------------------------
    WALK = List(Tuple(Str, List(Str), TupleOf(Str)))
    _walk = fn('os_walk', SS, S.SeqP())
    is_names = lambda x: fn('is_tuple_of_entry_names', S.PyObj(), z3.BoolSort())(x)

    @reg.extern('os.walk', 'os.walk(top): a finite sequence of (root, dirs, files); every root is top or a path below it; dirs/files are entry names; pruning dirs in place is honoured by the OS walk (not modelled)')
    def _os_walk(ex, st, node, args, kwargs):
        seq = _walk(S.sval(args[0].t))
        j, f = z3.Ints('wj wf')
        triple = S.at(seq, j)
        lo = st.next_ref
        nn = S.fresh('next_ref', z3.IntSort())
        st.assume(nn >= lo)
        st.next_ref = nn
        dirs, files = S.items(triple)[1], S.items(triple)[2]
        # `dirs` is a heap list (the walk honours in-place pruning); `files` is modelled as an immutable sequence of names (code that mutated it would not type-check here)
        st.assume(z3.ForAll([j], z3.Implies(z3.And(j >= 0, j < z3.Length(seq)), z3.And(
            S.is_tup(triple), z3.Length(S.items(triple)) == 3, S.is_str(S.items(triple)[0]), under(S.sval(S.items(triple)[0]), S.sval(args[0].t)),
            under(S.sval(S.at(S.items(triple), 0)), S.sval(args[0].t)),
            S.has_type(dirs, List(Str), nn), S.has_type(files, TupleOf(Str), nn), S.addr(dirs) >= lo, is_names(files))), patterns=[S.at(seq, j)]))
        lst = st.field('list')
        st.assume(z3.ForAll([j, f], z3.Implies(z3.And(j >= 0, j < z3.Length(seq), f >= 0, f < z3.Length(z3.Select(lst, S.addr(dirs)))),
                                               z3.And(S.is_str(S.at(z3.Select(lst, S.addr(dirs)), f)), simple_name(S.sval(S.at(z3.Select(lst, S.addr(dirs)), f))))),
                            patterns=[S.at(z3.Select(lst, S.addr(dirs)), f)]))
        # (the pattern must not contain the native seq.nth of the triple: z3 rewrites it; hence the predicate on the tuple object itself)
        xo = z3.Const('wx', S.PyObj())
        st.assume(z3.ForAll([xo, f], z3.Implies(z3.And(is_names(xo), f >= 0, f < z3.Length(S.items(xo))),
                                                z3.And(S.is_str(S.at(S.items(xo), f)), simple_name(S.sval(S.at(S.items(xo), f))))),
                            patterns=[S.at(S.items(xo), f)]))
        return V(S.mk_tup(seq), TupleOf(Tuple(Str, List(Str), TupleOf(Str))))     # the generator is consumed once: an immutable sequence of triples

    @reg.extern('os.path.relpath', 'os.path.relpath(root, src) for a root produced by os.walk(src): a relative path (ASSUMPTION: no ".." component)')
    def _relpath(ex, st, node, args, kwargs):
        r = fn('os_path_relpath', SS, SS, SS)(S.sval(args[0].t), S.sval(args[1].t))
        st.assume(rel(r))
        return V(S.mk_str(r), Str)

    @reg.extern('os.path.splitext', 'os.path.splitext: (root, ext) strings (uninterpreted)')
    def _splitext(ex, st, node, args, kwargs):
        a = S.sval(args[0].t)
        return V(S.mk_tup(S.seq_of(S.mk_str(fn('splitext_root', SS, SS)(a)), S.mk_str(fn('splitext_ext', SS, SS)(a)))), Tuple(Str, Str))

    @reg.extern_method('str', 'lower', 'str.lower (uninterpreted)')
    def _lower(ex, st, node, recv, args, kwargs):
        return V(S.mk_str(fn('str_lower', SS, SS)(S.sval(recv.t))), Str)

    def dst_ok(c):
        d = S.sval(c.p.dst_path)
        return z3.Or(under(d, wsrel(c)), under(d, wsabs(c)))

    def hook_pruned(ex, st, node):
        """after `dirs[:] = [...]`: no directory left for the walk resolves (symlinks included: realpath is uninterpreted here) to the workspace being filled"""
        c = ex.ctx(st)
        rp = fn('os_path_realpath', SS, SS)
        D = c.cur.list(st.env['dirs'].t)
        k_ = z3.Int('k')
        root = S.sval(st.env['root'].t)
        ws_ = S.sval(c.pre.attr(c.pre.attr(c.p.self, 'options'), 'workspace'))
        ex.oblige(st, 'bounded-copy:the-walk-never-descends-into-a-directory-that-resolves-(through-symlinks-too)-to-the-workspace-being-filled',
                  S.forall([k_], z3.Implies(z3.And(k_ >= 0, k_ < z3.Length(D)), rp(shared.sp_join(root, S.sval(S.at(D, k_)))) != rp(ws_)), patterns=[S.at(D, k_)]), kind='lemma')

    reg.add(Contract(PREP, 'WorkspaceBuilder.copytree_with_extension', dict(self=WB, src=Str, dst_path=Str), returns=NoneT, ghost_init=set_roots_from_options,
                     ghost_hooks={'after_stmt:dirs[:] = ': hook_pruned},
                     requires=[ws_nonempty, ('destination-is-under-the-workspace', dst_ok)],
                     ensures=[('every-directory-created-and-every-file-copied-is-under-the-workspace', lambda c: z3.BoolVal(True)),
                              ('options-untouched', lambda c: z3.And(c.new.attr(c.p.self, 'options') == c.old.attr(c.p.self, 'options'),
                                                                     c.new.attr(c.old.attr(c.p.self, 'options'), 'workspace') == c.old.attr(c.old.attr(c.p.self, 'options'), 'workspace')))],
                     loops={1: LoopSpec(invariants=[('options-untouched', lambda c: z3.And(c.cur.attr(c.p.self, 'options') == c.pre.attr(c.p.self, 'options'),
                                                                                          c.cur.attr(c.pre.attr(c.p.self, 'options'), 'workspace') == c.pre.attr(c.pre.attr(c.p.self, 'options'), 'workspace')))],
                                        modifies=lambda c: {'dom': [c.pre.attr(c.p.self, 'dst_file_to_src_file')], 'val': [c.pre.attr(c.p.self, 'dst_file_to_src_file')], 'list': (lambda a: a >= c.pre.next)}),
                            2: LoopSpec(invariants=[('options-untouched', lambda c: z3.And(c.cur.attr(c.p.self, 'options') == c.pre.attr(c.p.self, 'options'),
                                                                                          c.cur.attr(c.pre.attr(c.p.self, 'options'), 'workspace') == c.pre.attr(c.pre.attr(c.p.self, 'options'), 'workspace')))],
                                        modifies=lambda c: {'dom': [c.pre.attr(c.p.self, 'dst_file_to_src_file')], 'val': [c.pre.attr(c.p.self, 'dst_file_to_src_file')], 'list': (lambda a: a >= c.pre.next)})},
                     modifies=lambda c: {'dom': [c.old.attr(c.p.self, 'dst_file_to_src_file')], 'val': [c.old.attr(c.p.self, 'dst_file_to_src_file')], 'list': (lambda a: a >= c.old.next)},
                     fresh_fields=[]))

    # ---- WorkspaceBuilder.run ---------------------------------------------------------------------------------------------------------------
    reg.const_values['os.sep'] = lambda ex, st: V(S.mk_str(z3.StringVal('/')), Str)        # POSIX
    reg.const_values['config.EXTERNS_MOCK_CODE_DIR'] = lambda ex, st: V(S.mk_str(z3.String('EXTERNS_MOCK_CODE_DIR')), Str)
    reg.add(Contract(PREP, 'WorkspaceBuilder.change_c_like_files', dict(self=WB, src_dir_path=Str), returns=NoneT, opaque=True,
                     requires=[('the-tree-handed-to-the-C-preprocessing-lies-inside-the-workspace', lambda c: ok_path(c.st, S.sval(c.p.src_dir_path)))],
                     ensures=[('options-untouched', lambda c: z3.And(c.new.attr(c.p.self, 'options') == c.old.attr(c.p.self, 'options'),
                                                                     c.new.attr(c.old.attr(c.p.self, 'options'), 'workspace') == c.old.attr(c.old.attr(c.p.self, 'options'), 'workspace')))],
                     modifies=lambda c: {'attr:clang_installed': [c.p.self]}, fresh_fields=[],
                     note='C/C++ header preprocessing: writes <file>_processed.<ext> and clang output next to files of the workspace source tree (only when c/cpp is '
                          'selected and --enable-header-preprocess): not under contract'))

    def in_paths_are_strings(c):
        seq = c.pre.list(c.pre.attr(c.pre.attr(c.p.self, 'options'), 'in_path'))
        return z3.ForAll([jq], z3.Implies(z3.And(jq >= 0, jq < z3.Length(seq)), S.is_str(S.at(seq, jq))), patterns=[S.at(seq, jq)])

    keep_opts = lambda c: z3.And(c.cur.attr(c.p.self, 'options') == c.pre.attr(c.p.self, 'options'),
                                 c.cur.attr(c.pre.attr(c.p.self, 'options'), 'workspace') == c.pre.attr(c.pre.attr(c.p.self, 'options'), 'workspace'),
                                 c.cur.attr(c.pre.attr(c.p.self, 'options'), 'in_path') == c.pre.attr(c.pre.attr(c.p.self, 'options'), 'in_path'),
                                 c.cur.attr(c.p.self, 'required_subdirs') == c.pre.attr(c.p.self, 'required_subdirs'),
                                 c.cur.list(c.pre.attr(c.p.self, 'required_subdirs')) == c.pre.list(c.pre.attr(c.p.self, 'required_subdirs')),
                                 c.cur.list(c.pre.attr(c.pre.attr(c.p.self, 'options'), 'in_path')) == c.pre.list(c.pre.attr(c.pre.attr(c.p.self, 'options'), 'in_path')))
    run_lm = lambda c: {'dom': [c.pre.attr(c.p.self, 'dst_file_to_src_file')], 'val': [c.pre.attr(c.p.self, 'dst_file_to_src_file')], 'list': (lambda a: a >= c.pre.next),
                        'attr:clang_installed': [c.p.self]}
    reg.add(Contract(PREP, 'WorkspaceBuilder.run', dict(self=WB), returns=Dict(Any, Any), ghost_init=set_roots_from_options,
                     requires=[ws_nonempty, ('sub-directory-names-are-relative', subdirs_relative), ('input-paths-are-strings', in_paths_are_strings)],
                     loops={1: LoopSpec(invariants=[('options-and-inputs-untouched', keep_opts)], modifies=run_lm),
                            2: LoopSpec(invariants=[('options-and-inputs-untouched', keep_opts)], modifies=run_lm)},
                     ensures=[('every-directory-created,-every-file-copied-and-every-path-deleted-is-under-the-workspace', lambda c: z3.BoolVal(True))],
                     raises={'SystemExit': [('only-from-manage_directory/backup', lambda c: z3.BoolVal(True))]},
                     modifies=run_lm, fresh_fields=[]))

    # ---- Lian.set_workspace_dir: the analysis workspace is <given>/lian_workspace unless the given path already names it ------------------------
    def swd(c):
        old = S.sval(c.old.attr(c.old.attr(c.p.self, 'options'), 'workspace'))
        new = S.sval(c.new.attr(c.old.attr(c.p.self, 'options'), 'workspace'))
        d = S.sval(c.p.default_workspace_dir)
        return z3.And(z3.Contains(new, d), z3.Or(new == old, new == shared.sp_join(old, d)))
    reg.add(Contract(MAIN, 'Lian.set_workspace_dir', dict(self=Obj('Lian'), default_workspace_dir=Str), returns=Obj('Lian'),
                     requires=[('default-name-is-a-relative-non-empty-name', lambda c: z3.And(rel(S.sval(c.p.default_workspace_dir)), z3.Length(S.sval(c.p.default_workspace_dir)) > 0))],
                     ensures=[('workspace-contains-the-default-name-and-is-the-given-path-or-given/default', swd)],
                     modifies=lambda c: {'attr:workspace': [c.old.attr(c.p.self, 'options')], 'attr:default_workspace_dir': [c.old.attr(c.p.self, 'options')],
                                         'attr:set_workspace_dir_flag': [c.p.self]}, fresh_fields=[]))
    # ---- C/C++ header preprocessing: it rewrites files NEXT TO the file it is given, so it may only ever be given files of the workspace ------------------------------
    inside = lambda c, x: ok_path(c.st, S.sval(x))
    reg.add(Contract(PREP, 'WorkspaceBuilder.preprocess_c_like_file', dict(self=WB, file_path=Str), returns=NoneT, opaque=True,
                     requires=[('the-file-it-writes-next-to-lies-inside-the-workspace', lambda c: inside(c, c.p.file_path))],
                     modifies=lambda c: {}, fresh_fields=[],
                     note='writes <file>_processed<ext> and lets clang write <file>.i/.ii beside <file> (body not verified: regex, subprocess); the obligation is on every caller'))
    reg.add(Contract(PREP, 'WorkspaceBuilder.rescan_c_like_files', dict(self=WB, target_path=Str), returns=NoneT, ghost_init=set_roots_from_options,
                     requires=[ws_nonempty, ('the-scanned-path-lies-inside-the-workspace', lambda c: inside(c, c.p.target_path))],
                     loops={1: LoopSpec(modifies=lambda c: {'list': (lambda a: z3.BoolVal(False))}), 2: LoopSpec(modifies=lambda c: {'list': (lambda a: z3.BoolVal(False))})},   # no list that exists at loop entry is written
                     modifies=lambda c: {}, fresh_fields=['list']))
    return reg


def closure_lemmas(reg, tier):
    """U1-U5 hold for the string definitions of under / strictly_under / os.path.join (each proved once, skolemised, by the string solvers)"""
    from lianvc.engine import VC
    from lianvc import solve
    p, w, n = z3.Strings('p w n')
    j = shared.join_def(p, n)
    out = []
    for name, hyps, goal in (
            ('U1-a-path-is-under-itself', [], under_def(w, w)),
            ('U2-joining-a-relative-name-stays-under', [under_def(p, w), rel(n), z3.Length(w) > 0], under_def(j, w)),
            ('U3-joining-an-entry-name-is-strictly-under', [under_def(p, w), simple_name(n), z3.Length(w) > 0], strict_def(j, w)),
            ('U4-strictly-under-is-under', [strict_def(p, w)], under_def(p, w)),
            ('U5-joining-a-relative-name-stays-strictly-under', [strict_def(p, w), rel(n), z3.Length(w) > 0], strict_def(j, w)),
            ('U6-a-joined-path-contains-the-joined-name', [], z3.Contains(j, n)),
            ('U7-under-is-transitive', [under_def(p, n), under_def(n, w)], under_def(p, w))):
        out.append(solve.discharge_fresh(VC(f'{PROPERTY}:lemma:{name}', hyps, goal, kind='lemma'), 60000))
    return out


EXTRA_OBLIGATIONS = [closure_lemmas]


# ---- inventory: every file-system-mutating call site of src/lian is known -------------------------------------------------------------------
MUTATING = {'os.unlink', 'os.remove', 'os.rmdir', 'shutil.rmtree', 'os.makedirs', 'os.mkdir', 'shutil.copy', 'shutil.copy2', 'shutil.copytree', 'shutil.move',
            'os.rename', 'os.replace', 'subprocess.run', 'subprocess.call', 'subprocess.Popen', 'os.system', 'json.dump', 'pickle.dump', 'os.symlink', 'os.chdir',
            'tempfile.mkdtemp', 'os.truncate', 'os.chmod', 'os.link'}
# (file, enclosing function, api) -> why the path is inside the workspace
KNOWN_SITES = {
    ('src/lian/preparation.py', 'WorkspaceBuilder.backup_workspace'): 'under contract',
    ('src/lian/preparation.py', 'WorkspaceBuilder.cleanup_directory'): 'under contract',
    ('src/lian/preparation.py', 'WorkspaceBuilder.copytree_with_extension'): 'under contract',
    ('src/lian/preparation.py', 'WorkspaceBuilder.manage_directory'): 'under contract',
    ('src/lian/preparation.py', 'WorkspaceBuilder.prepare_directory'): 'under contract',
    ('src/lian/preparation.py', 'WorkspaceBuilder.run'): 'under contract',
    ('src/lian/preparation.py', 'WorkspaceBuilder.preprocess_c_like_file'): 'NOT under contract: writes <file>_processed<ext> and clang -o next to a file of the workspace source tree '
                                                                            '(called only through rescan_c_like_files(<workspace>/src))',
    ('src/lian/taint/taint_analysis.py', 'TaintAnalysis.print_and_write_flows'): 'static: output_dir = os.path.join(self.options.workspace, config.TAINT_OUTPUT_DIR); file joined to it',
    ('src/lian/core/sfg_dumper.py', 'SFGDumper.dump_to_file'): 'static: self.file_name = self._compute_output_path(phase_id, entry_point, options.workspace)',
    ('src/lian/util/data_model.py', 'DataModel.save'): 'NOT under contract here: the path is a loader path; every loader path is os.path.join(options.workspace, <config dir>, <config file>) in Loader.__init__ '
                                                       '(static obligation loader-paths-are-joined-to-the-workspace)',
    ('src/lian/util/util.py', 'replace_weight_to_label_in_dot'): 'no caller in src/lian (dead code)',
}


def scan_sites():
    from lianvc import source
    out = []
    root = os.path.join(source.REPO, 'src', 'lian')
    for dp, dn, fnames in os.walk(root):
        for f in sorted(fnames):
            if not f.endswith('.py'):
                continue
            pth = os.path.join(dp, f)
            try:
                tree = ast.parse(open(pth, encoding='utf-8').read())
            except SyntaxError:
                continue

            def visit(node, qual):
                for ch in ast.iter_child_nodes(node):
                    q = qual
                    if isinstance(ch, (ast.FunctionDef, ast.AsyncFunctionDef, ast.ClassDef)):
                        q = (qual + '.' if qual else '') + ch.name
                    if isinstance(ch, ast.Call):
                        name = ast.unparse(ch.func)
                        hit = None
                        if name in MUTATING:
                            hit = name
                        elif name == 'open':
                            mode = ch.args[1] if len(ch.args) >= 2 else next((k.value for k in ch.keywords if k.arg == 'mode'), None)
                            if mode is not None and not (isinstance(mode, ast.Constant) and not any(m in str(mode.value) for m in 'wax+')):
                                hit = 'open(write mode)'
                        elif name.split('.')[-1] in ('to_feather', 'to_csv', 'to_json', 'to_pickle', 'to_parquet', 'write_text', 'write_bytes', 'write_dot', 'touch', 'mkdir', 'unlink', 'rmdir'):
                            hit = name.split('.')[-1]
                        if hit:
                            out.append((os.path.relpath(pth, source.REPO), qual or '<module>', hit, ast.unparse(ch)[:80]))
                    visit(ch, q)
            visit(tree, '')
    return sorted(out)


def inventory_obligations(reg, tier):
    from lianvc import source
    out = []

    def res(name, okv, detail=''):
        out.append(dict(name=f'{PROPERTY}:static:{name}', kind='static', verdict='unsat' if okv else 'sat', backend='ast-scan', time_s=0.0,
                        model=None if okv else {'detail': detail}, reason='' if okv else detail))
    sites = scan_sites()
    unknown = [s_ for s_ in sites if (s_[0], s_[1]) not in KNOWN_SITES]
    res('every-file-system-mutating-call-site-of-src/lian-is-in-a-known-function', not unknown, str(unknown[:5]))
    inventory_obligations.sites = sites
    prep = source.load(PREP)
    ccf = prep.function('WorkspaceBuilder.change_c_like_files')
    calls = [ast.unparse(n) for n in ast.walk(ccf) if isinstance(n, ast.Call) and 'rescan_c_like_files' in ast.unparse(n.func)]
    rebinds = [ast.unparse(n)[:50] for n in ast.walk(ccf) if isinstance(n, ast.Name) and n.id == 'src_dir_path' and isinstance(n.ctx, ast.Store)]
    others = []
    for q in sorted(prep.functions):
        for n in ast.walk(prep.function(q)):
            if isinstance(n, ast.Call) and isinstance(n.func, ast.Attribute) and n.func.attr in ('rescan_c_like_files', 'preprocess_c_like_file') and \
                    q not in ('WorkspaceBuilder.change_c_like_files', 'WorkspaceBuilder.rescan_c_like_files'):
                others.append(f'{q}: {ast.unparse(n)[:60]}')
    res('the-C-preprocessing-is-only-ever-started-on-the-tree-change_c_like_files-was-given', calls == ['self.rescan_c_like_files(src_dir_path)'] and not rebinds and not others,
        str((calls, rebinds, others))[:300])
    # loader paths: in Loader.__init__ every string handed to a sub-loader as its path is os.path.join(...) whose first argument is rooted at options.workspace
    ld = source.load('src/lian/util/loader.py')
    init = ld.function('Loader.__init__')
    rooted = set()
    bad = []
    for st_ in ast.walk(init):
        if isinstance(st_, ast.Assign) and len(st_.targets) == 1 and isinstance(st_.value, ast.Call) and ast.unparse(st_.value.func) == 'os.path.join':
            first = ast.unparse(st_.value.args[0])
            tgt = ast.unparse(st_.targets[0])
            if first in ('self.options.workspace', 'options.workspace') or first in rooted:
                rooted.add(tgt)
    cfgm = source.load('src/lian/config/config.py')
    njoin = 0
    for call in ast.walk(init):
        if isinstance(call, ast.Call) and ast.unparse(call.func) == 'os.path.join':
            njoin += 1
            first = ast.unparse(call.args[0])
            if first not in rooted and first not in ('self.options.workspace', 'options.workspace'):
                bad.append('not rooted at the workspace: ' + ast.unparse(call)[:80])
            for a in call.args[1:]:
                try:
                    v = source.const_eval(ld, a)
                except Exception:          # noqa
                    v = None
                if not isinstance(v, str) or not v or v.startswith('/') or '..' in v.split('/'):
                    bad.append('joined name is not a relative constant: ' + ast.unparse(call)[:80])
    res('loader-paths-are-joined-to-the-workspace', not bad and len(rooted) >= 4 and njoin >= 20, str(bad[:4]) + f' rooted={sorted(rooted)} joins={njoin}')
    # config directory/file constants used under the workspace are relative and free of '..'
    cfg = source.load('src/lian/config/config.py')
    badc = []
    for name in ('SOURCE_CODE_DIR', 'EXTERNS_DIR', 'FRONTEND_DIR', 'SEMANTIC_P1_DIR', 'SEMANTIC_P2_DIR', 'SEMANTIC_P3_DIR', 'STATE_FLOW_GRAPH_P2_DIR',
                 'STATE_FLOW_GRAPH_P3_DIR', 'TAINT_OUTPUT_DIR', 'BACKUP_DIR', 'MODULE_SYMBOLS_PATH', 'DEFAULT_WORKSPACE'):
        try:
            v = source.const_eval(cfg, cfg.assigns[name])
        except Exception as e:     # noqa
            badc.append((name, repr(e)))
            continue
        if not isinstance(v, str) or not v or v.startswith('/') or '..' in v.split('/'):
            badc.append((name, v))
    res('workspace-sub-directory-constants-are-relative-names-without-dot-dot', not badc, str(badc))
    # WorkspaceBuilder.required_subdirs is exactly a list of those constants
    wb_init = source.load(PREP).function('WorkspaceBuilder.__init__')
    lst = [n for n in ast.walk(wb_init) if isinstance(n, ast.Assign) and ast.unparse(n.targets[0]) == 'self.required_subdirs']
    okl = len(lst) == 1 and isinstance(lst[0].value, ast.List) and all(ast.unparse(e).startswith('config.') for e in lst[0].value.elts)
    res('required_subdirs-is-a-literal-list-of-config-constants', okl, ast.unparse(lst[0].value)[:200] if lst else 'missing')
    return out


EXTRA_OBLIGATIONS = [closure_lemmas, inventory_obligations]


def bounded_pipeline(tier, seed):
    """BOUNDED stand-in (never counted as proved): whole runs of lian on a tiny project for several placements of workspace / inputs / symlinks"""
    from lianvc import runner
    out, err = runner.run_replay(REPLAY, ['--bounded', tier], timeout=3000)
    if out is None:
        return dict(name='pipeline placements', failed=True, is_violation=False, detail=err)
    return dict(name='real runs of `lian run` for placements of workspace and inputs (byte-identity outside the workspace, bounded copy, forced cleanup)', kind='bounded',
                bound=out.get('bound'), cases=out.get('cases'), failed=bool(out.get('witnesses')), is_violation=True, detail=out.get('witnesses', [])[:2],
                failing_input=(out.get('witnesses') or [None])[0])


bounded_pipeline.quick = True
BOUNDED_CHECKS = [bounded_pipeline]

ASSUMPTIONS = [
    'effects are decided only as a frame over PATH STRINGS: every os/shutil call that mutates the file system inside the functions under contract gets a path '
    'textually under options.workspace (relative form) or abspath(options.workspace); byte-identity of inputs is not decided by the proof (bounded stand-in only)',
    'os.path.abspath is uninterpreted (absolute result; abspath of an absolute path is itself; abspath(join(a, rel)) == join(abspath(a), rel); monotone for containment): no ".." '
    'normalisation is modelled; names returned by os.listdir/os.walk are non-empty, contain no separator and are not "."',
    'os.path.realpath is uninterpreted (symlinks may exist) EXCEPT inside copytree_with_extension/run, where it is taken equal to abspath: the input paths and the '
    'source tree the run has just created are assumed to contain no symlinked component',
    'os.walk honours in-place pruning of dirs; os.path.relpath(root, src) of a walk root is a relative path without ".."; no chdir during a run',
    'WorkspaceBuilder.change_c_like_files / preprocess_c_like_file (clang preprocessing) are not under contract',
    'writes through DataModel.save, SFGDumper, print_and_write_flows are covered only by static path-provenance obligations (joined to options.workspace), not by VCs',
    '"copies a bounded amount of data" is covered by the repair of the walk (fix: commit) and the bounded stand-in, not by a VC',
]
EXPLANATION = ('Deductive proof of textual path containment for every file-system-mutating call in WorkspaceBuilder (cleanup, forced rewrite, backup, copy) and of '
               'Lian.set_workspace_dir, over opaque containment predicates whose closure properties are proved as string lemmas; an inventory obligation pins the set of '
               'mutating call sites of src/lian; whole-run placements (incl. symlinks) are a bounded stand-in.')
QUICK_CANARIES = {
    'WorkspaceBuilder.manage_directory': ['delete-stmt[file_path = os.path.join(path, filename)]', 'negate-condition'],
    'WorkspaceBuilder.cleanup_directory': ['delete-stmt[file_path = os.path.join(path, filename)]'],
    'WorkspaceBuilder.backup_workspace': ['delete-stmt[bak_subdir = os.path.join(workspace_path, config.BACKUP_DIR)]'],
    'WorkspaceBuilder.run': ['delete-stmt[src_dir_path = os.path.join(workspace_path, config.SOURCE_CODE_DIR)]', 'negate-condition'],
    'WorkspaceBuilder.copytree_with_extension': ['delete-stmt[new_dst_path = os.path.join(dst_path, rel_path)]'],
    'Lian.set_workspace_dir': ['flip-comparison', 'delete-stmt[self.options.workspace = os.path.join'],
}
MIN_CANARY_KILL_RATIO = 0.5     # containment obligations are indifferent to which branch runs: branch-condition mutants legitimately survive
EQUIVALENT_MUTANTS = ('delete-stmt[return True] @L18', 'delete-stmt[return True] @L29')
