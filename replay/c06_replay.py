"""C06 replay / witness search on the real reaching-definition code (replay aid; never the verdict).

  transfer    real update_current_symbol_bit / BitVectorManager on small definition tables: OUT == GEN U (IN - KILL)
  meet+fold   real analyze_reachable_symbols on a hand-built frame: IN == union of OUT over the selected predecessors, OUT == classical transfer of IN
  uses        real check_reachable_symbol_defs
  temporaries real add_status_with_symbol_id_sync: all definitions of one %vv temporary get one symbol id
  edge kinds  BOUNDED stand-in for util.get_graph_edge_weight (DiGraph / MultiDiGraph, with and without the edge / the weight)
  schedule    real analyze_stmts + SimpleWorkList on small CFGs with the real analyze_reachable_symbols: the statement removed at the end of a visit is
              the one analysed (known finding F8 while it reproduces), definitions of a loop body reach the use after the loop
"""
import itertools
import sys
import types
import common

import networkx as nx
from lian.config import config
from lian.config.constants import CONTROL_FLOW_KIND as K, ANALYSIS_PHASE_ID
from lian.common_structs import (SimpleWorkList, SimpleSet, BitVectorManager, StmtStatus, Symbol, State, SymbolDefNode, P2ResultFlag, MethodDefUseSummary)
from lian.util import util


class Graphs:
    def __init__(self):
        self.edges = []

    def add_edge(self, *a, **k):
        self.edges.append(a)

    def has_edge(self, *a):
        return False


def make_frame(cfg, nodes, defs, counters=None, first=None):
    """defs: stmt -> variable name it defines (or None).  Symbol ids: one per name."""
    names = sorted({v for v in defs.values() if v})
    sid = {n: 1000 + i for i, n in enumerate(names)}
    space = [None]
    fr = types.SimpleNamespace()
    fr.cfg = cfg
    fr.stmt_id_to_status = {}
    fr.symbol_state_space = space
    for s in nodes:
        st = StmtStatus(stmt_id=s)
        if defs.get(s):
            space.append(Symbol(stmt_id=s, name=defs[s], symbol_id=sid[defs[s]]))
            st.defined_symbol = len(space) - 1
        else:
            st.defined_symbol = 0
        fr.stmt_id_to_status[s] = st
    fr.stmt_counters = dict(counters or {s: 0 for s in nodes})
    fr.is_first_round = dict(first or {s: True for s in nodes})
    fr.all_symbol_defs = set()
    fr.defined_symbols = {}
    fr.symbol_bit_vector_manager = BitVectorManager()
    fr.symbol_graph = Graphs()
    fr.state_flow_graph = Graphs()
    fr.stmts_with_symbol_update = SimpleSet()
    fr.all_local_symbol_ids = set(sid.values())
    fr.method_def_use_summary = MethodDefUseSummary(1)
    fr.loop_total_rounds = {}
    fr.interruption_flag = False
    fr.method_id = 1
    fr.get_context = lambda: None
    fr.sid = sid
    return fr


def make_p2(phase=ANALYSIS_PHASE_ID.GLOBAL_SEMANTICS, max_round=3):
    from lian.core.prelim_semantics import P2PrelimSemanticAnalysis
    p = object.__new__(P2PrelimSemanticAnalysis)
    p.analysis_phase_id = phase
    p.max_analysis_round = max_round
    p.options = types.SimpleNamespace(debug=False, quiet=True)
    p.update_symbols_if_changed = lambda *a, **k: None
    p.update_used_symbols_to_symbol_graph = lambda *a, **k: None
    return p


class Row:
    """one GIR statement; unknown columns read as None (NaN in the real data frame)"""
    def __init__(self, s, op):
        self.stmt_id, self.operation, self.start_row = s, op, s

    def __getattr__(self, item):
        if item.startswith('__'):
            raise AttributeError(item)
        return None


def row(s, op='assign_stmt'):
    return Row(s, op)


def key_of(fr, s):
    st = fr.stmt_id_to_status[s]
    sym = fr.symbol_state_space[st.defined_symbol]
    return SymbolDefNode(index=st.defined_symbol, symbol_id=sym.symbol_id, stmt_id=s) if isinstance(sym, Symbol) else None


# ---- meet + fold at one statement --------------------------------------------------------------------------------------------------------------------
def run_ars_case(kind, multi):
    """statement 3 (defines x) with predecessors 1 (x), 2 (x, via LOOP_BACK) ; IN sets preloaded"""
    g = nx.MultiDiGraph() if multi else nx.DiGraph()
    g.add_edge(1, 3, weight=K.EMPTY)
    g.add_edge(2, 3, weight=K.LOOP_BACK)
    g.add_edge(3, 2, weight=K.EMPTY)
    op, rnd, own_in = kind
    fr = make_frame(g, [1, 2, 3], {1: 'x', 2: 'x', 3: 'x'}, counters={1: 0, 2: 0, 3: rnd})
    p = make_p2()
    d1, d2, d3 = key_of(fr, 1), key_of(fr, 2), key_of(fr, 3)
    for d in (d1, d2, d3):
        p.update_current_symbol_bit(d, fr, set())
    fr.stmt_id_to_status[1].out_symbol_bits = {d1}
    fr.stmt_id_to_status[2].out_symbol_bits = {d2, d3} if own_in else {d2}
    p.analyze_reachable_symbols(3, row(3, op), fr)
    st = fr.stmt_id_to_status[3]
    loop = op in ('while_stmt', 'for_stmt')
    sel = [1, 2] if not loop else ([1] if rnd == 0 else [2])
    want_in = set().union(*[fr.stmt_id_to_status[q].out_symbol_bits for q in sel])
    if st.in_symbol_bits != want_in:
        return 'IN-contains', f'IN(3) = {sorted(d.stmt_id for d in st.in_symbol_bits)}, union over the selected predecessors {sel} = {sorted(d.stmt_id for d in want_in)}'
    want_out = {d for d in want_in if d.symbol_id != d3.symbol_id} | {d3}
    if st.out_symbol_bits != want_out:
        return 'OUT-', f'IN(3) = {sorted(d.stmt_id for d in want_in)} (definitions of x), statement 3 defines x: OUT(3) = {sorted(d.stmt_id for d in st.out_symbol_bits)}, classical GEN U (IN - KILL) = {sorted(d.stmt_id for d in want_out)}'
    return None


def search_ars():
    wit, cases = [], 0
    for op, rnd, own_in, multi in itertools.product(('assign_stmt', 'while_stmt'), (0, 1, 2), (False, True), (False, True)):
        cases += 1
        try:
            r = run_ars_case((op, rnd, own_in), multi)
        except Exception as e:
            r = ('safety', f'exception {e!r}')
        if r:
            wit.append(dict(function='P2PrelimSemanticAnalysis.analyze_reachable_symbols', input=dict(operation=op, round=rnd, own_definition_in_IN=own_in, multigraph=multi),
                            observed=r[1], clauses=[r[0], 'IN-contains', 'OUT-', 'cut:']))
    return wit[:3], cases


# ---- transfer function ------------------------------------------------------------------------------------------------------------------------------------
def search_transfer():
    wit, cases = [], 0
    from lian.core.prelim_semantics import P2PrelimSemanticAnalysis
    p = make_p2()
    # symbol 1 is a parameter: its declaration is the definition whose stmt_id equals the symbol id
    nodes = [SymbolDefNode(index=i, symbol_id=s, stmt_id=10 + i) for i, s in enumerate((1, 1, 2, 2, 3))] + [SymbolDefNode(index=5, symbol_id=1, stmt_id=1)]
    for known, in_mask, k in itertools.product(list(range(0, 64, 5)) + [63], range(0, 64, 3), range(6)):
        cases += 1
        fr = make_frame(nx.DiGraph(), [], {})
        fr.method_def_use_summary.parameter_symbol_ids = {(1, 0)}
        for i, d in enumerate(nodes):
            if known >> i & 1:
                p.update_current_symbol_bit(d, fr, set())
        IN = {d for i, d in enumerate(nodes) if in_mask >> i & 1 and known >> i & 1}
        bit = nodes[k]
        cur = set(IN)
        out = p.update_current_symbol_bit(bit, fr, cur)
        want = {d for d in IN if d.symbol_id != bit.symbol_id} | {bit}
        ok_tables = all(d in fr.defined_symbols.get(d.symbol_id, ()) for d in fr.all_symbol_defs) and \
            all(d.symbol_id == s and d in fr.all_symbol_defs for s, ds in fr.defined_symbols.items() for d in ds) and bit in fr.all_symbol_defs
        if out is not cur or out != want or not ok_tables:
            wit.append(dict(function='P2PrelimSemanticAnalysis.update_current_symbol_bit', input=dict(known=known, IN=in_mask, bit=k),
                            observed=f'OUT = {sorted(d.index for d in out)}, GEN U (IN - KILL) = {sorted(d.index for d in want)}, tables consistent: {ok_tables}',
                            clauses=['OUT-==-GEN', 'definitions-table-invariant', 'the-definition-is-recorded', 'set-difference', 'set-union']))
            if len(wit) >= 2:
                break
    return wit, cases


# ---- temporaries ----------------------------------------------------------------------------------------------------------------------------------------------
def search_temporaries():
    from lian.basics.stmt_def_use_analysis import StmtDefUseAnalysis
    wit, cases = [], 0
    for names in itertools.product(('%vv1', '%vv2', 'x'), repeat=3):
        cases += 1
        a = object.__new__(StmtDefUseAnalysis)
        space = [Symbol(stmt_id=100 + i, name=n) for i, n in enumerate(names)] + [Symbol(stmt_id=110 + i, name=n) for i, n in enumerate(names)]
        a.symbol_state_space = space
        a.stmt_id_to_status = {}
        a.each_stmt_defined_states = set()
        a.tmp_variable_to_define = {}
        a.external_symbol_id_collection = {}
        a.unit_id = 7
        a.frame = types.SimpleNamespace(defined_symbols={}, used_symbols={}, method_def_use_summary=MethodDefUseSummary(1))
        a.loader = types.SimpleNamespace(assign_new_unique_negative_id=lambda: -5)
        a.resolver = types.SimpleNamespace(resolve_symbol_source_decl=lambda *x, **k: None)
        try:
            for i in range(3):
                st = StmtStatus(stmt_id=100 + i, defined_symbol=i, used_symbols=[3 + j for j in range(3) if j < i])
                a.add_status_with_symbol_id_sync(100 + i, types.SimpleNamespace(stmt_id=100 + i, operation='assign_stmt'), st)
        except Exception as e:
            wit.append(dict(function='StmtDefUseAnalysis.add_status_with_symbol_id_sync', input=list(names), observed=repr(e), clauses=['safety']))
            continue
        ids = {}
        for i, n in enumerate(names):
            if n.startswith('%vv'):
                ids.setdefault(n, set()).add(space[i].symbol_id)
        bad = {n: sorted(v) for n, v in ids.items() if len(v) > 1}
        if bad:
            wit.append(dict(function='StmtDefUseAnalysis.add_status_with_symbol_id_sync', input=list(names),
                            observed=f'definitions of one temporary carry different symbol ids: {bad}', clauses=['one-symbol-id-per-temporary', 'a-defined-temporary-gets']))
        if len(wit) >= 2:
            break
    return wit, cases


# ---- edge kinds (bounded stand-in) ---------------------------------------------------------------------------------------------------------------------------
def bounded_edge_weight():
    wit, cases = [], 0
    for cls in (nx.DiGraph, nx.MultiDiGraph):
        for w in (None, 0, 4, 6):
            for present in (True, False):
                cases += 1
                g = cls()
                g.add_nodes_from([1, 2])
                if present:
                    if w is None:
                        g.add_edge(1, 2)
                    else:
                        g.add_edge(1, 2, weight=w)
                got = util.get_graph_edge_weight(g, 1, 2)
                want = w if present else None
                if got != want:
                    wit.append(dict(function='util.get_graph_edge_weight', input=dict(graph=cls.__name__, weight=w, edge_present=present), observed=f'returned {got!r}, stored kind {want!r}',
                                    clauses=['edge-kind']))
    return wit, cases


# ---- schedule ----------------------------------------------------------------------------------------------------------------------------------------------------------
def run_schedule(edges, nodes, defs, loop_headers, check):
    """real analyze_stmts + real analyze_reachable_symbols + real SimpleWorkList; compute_stmt_states is the identity step"""
    g = nx.MultiDiGraph()
    for u, v, w in edges:
        g.add_edge(u, v, weight=w)
    fr = make_frame(g, nodes, defs)
    p = make_p2()
    fr.unit_gir = types.SimpleNamespace(get_stmt_by_id=lambda i: row(i, 'while_stmt' if i in loop_headers else 'assign_stmt'))
    fr.stmt_worklist = SimpleWorkList(graph=g)
    fr.stmt_worklist.add(nodes[0])
    log = []

    def compute(stmt_id, stmt, frame):
        log.append(stmt_id)
        return P2ResultFlag()
    p.compute_stmt_states = compute
    p.rerun_analyze_reachable_symbols = lambda *a: None
    p.update_method_def_use_summary = lambda *a: None
    removed = []
    real_pop = fr.stmt_worklist.pop

    def pop():
        x = real_pop()
        removed.append((x, log[-1] if log else None))
        return x
    fr.stmt_worklist.pop = pop
    p.analyze_stmts(fr)
    return check(fr, log, removed)


LOOP = dict(edges=[(1, 2, K.EMPTY), (2, 3, K.LOOP_TRUE), (3, 2, K.LOOP_BACK), (2, 4, K.LOOP_FALSE), (4, -1, K.RETURN)], nodes=[1, 2, 3, 4],
            defs={1: 'x', 3: 'x'}, loop_headers={2})


def f8_check(fr, log, removed):
    # removals that happen at the END of a visit: the statement analysed last must be the one removed
    bad = [(x, a) for x, a in removed if a is not None and x != a and x is not None and log.count(x) < 3]
    d3 = key_of(fr, 3)
    reach_return = d3 in fr.stmt_id_to_status[4].in_symbol_bits
    return bad, reach_return, log


def known_f8():
    bad, reach, log = run_schedule(check=f8_check, **LOOP)
    return bool(bad), f'x=1; while c: x=2; return x  (CFG 1->2->3->2, 2->4): visits {log}; removed-vs-analysed mismatches {bad[:3]}; loop-body definition reaches the return: {reach}'


def search_schedule():
    ok, detail = known_f8()
    return ([dict(function='P2PrelimSemanticAnalysis.analyze_stmts', kind='F8', input='x=1; while c: x=2; return x', observed=detail,
                  clauses=['schedule-coherence', 'the-statement-removed-at-the-end-of-a-visit-is-the-one-analysed'])] if ok else []), 1


SEARCHES = {'analyze_reachable_symbols': search_ars, 'update_current_symbol_bit': search_transfer, 'BitVectorManager': search_transfer,
            'add_status_with_symbol_id_sync': search_temporaries, 'analyze_stmts': search_schedule}


def search(target, models):
    fn = target.split('.')[-1]
    cls = target.split('.')[0]
    order = [k for k in SEARCHES if k == fn or k == cls] or [k for k in SEARCHES if k != 'analyze_stmts']
    wit, cases, ran = [], 0, []
    for k in order:
        if SEARCHES[k] in [SEARCHES[r] for r in ran]:
            continue
        w, c = SEARCHES[k]()
        wit += w
        cases += c
        ran.append(k)
    return dict(witnesses=wit[:4], searched=f'{cases} cases ({", ".join(ran)})',
                how='real prelim_semantics / common_structs / stmt_def_use_analysis functions on hand-built frames, compared with the classical GEN/KILL/meet definitions')


def replay(w):
    if isinstance(w, dict) and w.get('kind') == 'F8':
        ok, detail = known_f8()
        return dict(reproduced=ok, detail=detail)
    if isinstance(w, dict) and w.get('function', '').endswith('analyze_reachable_symbols') and isinstance(w.get('input'), dict):
        i = w['input']
        r = run_ars_case((i['operation'], i['round'], i['own_definition_in_IN']), i['multigraph'])
        return dict(reproduced=bool(r), detail=r)
    out = search(w.get('function', '*') if isinstance(w, dict) else '*', [])
    return dict(reproduced=bool(out['witnesses']), detail=out['witnesses'][:1])


if __name__ == '__main__':
    if '--bounded' in sys.argv:
        wit, cases = bounded_edge_weight()
        common.emit(dict(witnesses=wit, cases=cases, bound='DiGraph and MultiDiGraph x edge present/absent x weight absent/0/4/6 (all 16 shapes of one edge)'))
        sys.exit(1 if wit else 0)
    common.main(search, replay)
