"""C08 (second sentence) replay / witness search: the real compute_two_states -> util.strict_eval path on hostile string constants (replay aid; never the verdict)."""
import itertools
import sys
import time
import types
import common

from lian.core.stmt_states import StmtStates
from lian.common_structs import State, Symbol
from lian.config.constants import LIAN_INTERNAL, STATE_TYPE_KIND
from lian.util import util

S = LIAN_INTERNAL.STRING


def fold(v1, t1, v2, t2, op):
    s = object.__new__(StmtStates)
    s.frame = types.SimpleNamespace(stmt_id_to_status={7: None})
    made, seen = [], []
    s.create_state_and_add_space = lambda status, **k: (made.append(k), 99)[1]
    s.update_access_path_state_id = lambda i: None
    real = util.strict_eval

    def spy(text):
        seen.append(text)
        return real(text)
    util.strict_eval = spy
    try:
        st1 = State(stmt_id=1, value=v1, data_type=t1, state_type=STATE_TYPE_KIND.REGULAR)
        st2 = State(stmt_id=2, value=v2, data_type=t2, state_type=STATE_TYPE_KIND.REGULAR)
        t0 = time.time()
        s.compute_two_states(types.SimpleNamespace(stmt_id=7, operator=op), st1, st2, Symbol(stmt_id=7, name='x', symbol_id=5))
        dt = time.time() - t0
    finally:
        util.strict_eval = real
    return (made[0]['value'] if made else None), seen, dt


HOSTILE = ['"x" * 3 + "y"', "'' or 7*6 or ''", '"quoted"', 'a" * 3 + "', "a' * 3 + '", 'x" if 0 else "PWN', '7*6', '2*3', '9**2', '-1+5', '4 if 0 else 5', 'ab\\', 'a\nb', '" + "', "plain", '1e3', '0x10', '12', '" or "x']


def check(v1, v2, op):
    val, seen, dt = fold(v1, S, v2, S, op)
    bad = []
    both_digits = v1.isdigit() and v2.isdigit()
    for text in seen:
        # a string operand that is not all digits must appear in the evaluated text only inside a complete string literal
        if not both_digits and text != f'{v1!r} {op} {v2!r}':
            bad.append(f'evaluated text {text!r} is not repr(operand) {op} repr(operand)')
    if not both_digits and op == '+' and val is not None and val != v1 + v2 and val != str(v1) + str(op) + str(v2):
        bad.append(f'folded value {val!r}, concatenation of the two constants is {v1 + v2!r}')
    if dt > 2:
        bad.append(f'folding took {dt:.1f}s')
    return bad


def search(target, models):
    wit, cases = [], 0
    for v1, v2, op in itertools.product(HOSTILE, ['z', '1', '" + "'], ['+', 'and', 'or', '*', '==']):
        cases += 1
        try:
            bad = check(v1, v2, op)
        except SystemExit:
            bad = []          # strict_eval refused the text: reported by the analyser, not evaluated
        except Exception as e:
            bad = [f'exception {e!r}']
        if bad:
            wit.append(dict(function='StmtStates.compute_two_states', input=dict(value1=v1, value2=v2, operator=op), observed='; '.join(bad), clauses=['data-only', 'safety']))
            if len(wit) >= 3:
                break
    return dict(witnesses=wit, searched=f'{cases} (string constant, string constant, operator) triples incl. quotes, backslashes, operator characters, digit-led text',
                how='real compute_two_states with util.strict_eval wrapped to record the evaluated text')


def replay(w):
    if isinstance(w, dict) and isinstance(w.get('input'), dict) and 'value1' in w['input']:
        i = w['input']
        bad = check(i['value1'], i['value2'], i['operator'])
        return dict(reproduced=bool(bad), detail=bad)
    out = search('*', [])
    return dict(reproduced=bool(out['witnesses']), detail=out['witnesses'][:1])


if __name__ == '__main__':
    common.main(search, replay)
