"""C05 replay / witness search on the real resolver and scope corrections (replay aid; never the verdict)."""
import itertools
import sys
import types
import common

from lian.common_structs import UnitSymbolDeclSummary, SourceSymbolScopeInfo
from lian.core.resolver import Resolver


def make_resolver(summary, scope_of, roots):
    r = object.__new__(Resolver)
    r.loader = types.SimpleNamespace(get_unit_symbol_decl_summary=lambda u: summary, convert_stmt_id_to_scope_id=lambda s: scope_of.get(s, -1), is_import_stmt=lambda s: False)
    r.resolve_implicit_root_scopes = lambda u: set(roots)
    return r


# scope tree: 0 (unit) > 10 (top-level block A) ; 0 > 20 (top-level block B) ; 0 > 30 (function f) > 31 (body block of f) > 35 (inner function g)
PARENT = {10: 0, 20: 0, 30: 0, 31: 30, 35: 31}


def ancestors(s):
    out = {s}
    while s in PARENT:
        s = PARENT[s]
        out.add(s)
    return out


def run_case(decl_scopes, use_scope, roots):
    avail = {s: ancestors(s) for s in list(PARENT) + [0]}
    summ = UnitSymbolDeclSummary(1, {'x': set(decl_scopes)}, {s: {'x': 1000 + s} for s in decl_scopes}, avail)
    r = make_resolver(summ, {500: use_scope}, roots)
    got = r.resolve_symbol_source_decl(1, 500, 'x')
    visible = ancestors(use_scope) & set(decl_scopes)
    want_scope = max(visible, key=lambda s: len(ancestors(s))) if visible else None
    if want_scope is None:
        if got.source_symbol_id != -1:
            return 'enclosing', f'use in scope {use_scope}, x declared in {sorted(decl_scopes)} (none encloses the use): bound to the declaration in scope {got.decl_scope_id}'
        return None
    if got.decl_scope_id != want_scope:
        return ('enclosing' if got.decl_scope_id not in ancestors(use_scope) else 'choice'), \
            f'use in scope {use_scope}, x declared in {sorted(decl_scopes)}: bound to scope {got.decl_scope_id}, innermost enclosing declaring scope is {want_scope}'
    return None


def search_resolver(with_roots):
    wit, cases = [], 0
    scopes = [0, 10, 20, 30, 31, 35]
    for n in (1, 2):
        for decl in itertools.combinations(scopes, n):
            for use in scopes:
                cases += 1
                r = run_case(decl, use, {10, 20} if with_roots else set())
                if r:
                    wit.append(dict(function='Resolver.resolve_symbol_source_decl', input=dict(declared_in=list(decl), use_scope=use, implicit_roots=[10, 20] if with_roots else []),
                                    observed=r[1], clauses=[r[0], 'choice', 'enclosing']))
    return wit, cases


def known_f5():
    r = run_case((10,), 31, {10, 20})
    return bool(r), (r[1] if r else 'not reproduced') + '  [scope 10 is a top-level block (sibling of function 30); JS: `{ let x }  function f(){ x }`]'


def search_defuse():
    """real add_status_with_symbol_id_sync on a `nonlocal x` / `global x` statement: which flag reaches the resolver"""
    from lian.basics.stmt_def_use_analysis import StmtDefUseAnalysis
    from lian.common_structs import Symbol, StmtStatus, MethodDefUseSummary
    wit, cases = [], 0
    for op, want in (('nonlocal_stmt', False), ('global_stmt', True)):
        cases += 1
        seen = []
        a = object.__new__(StmtDefUseAnalysis)
        a.symbol_state_space = [Symbol(stmt_id=50, name='x')]
        a.stmt_id_to_status = {}
        a.each_stmt_defined_states = set()
        a.tmp_variable_to_define = {}
        a.external_symbol_id_collection = {}
        a.unit_id = 7
        a.frame = types.SimpleNamespace(defined_symbols={}, used_symbols={}, method_def_use_summary=MethodDefUseSummary(1))
        a.loader = types.SimpleNamespace(assign_new_unique_negative_id=lambda: -5)
        a.resolver = types.SimpleNamespace(resolve_symbol_source_decl=lambda *p, **k: seen.append(k.get('source_symbol_must_be_global', p[3] if len(p) > 3 else False)))
        a.add_status_with_symbol_id_sync(50, types.SimpleNamespace(stmt_id=50, operation=op), StmtStatus(stmt_id=50, defined_symbol=0))
        if not seen or bool(seen[0]) != want:
            wit.append(dict(function='StmtDefUseAnalysis.add_status_with_symbol_id_sync', input=op, observed=f'{op}: the resolver is asked with source_symbol_must_be_global={seen[:1]}, expected {want}',
                            clauses=['scoping']))
    return wit, cases


def search_imports():
    """relative imports on the real ImportHierarchy.analyze_import_stmt: the path search must start `dots - 1` packages above the importing file (or at the last package
    that has a parent); the search itself is intercepted"""
    from lian.basics.import_hierarchy import ImportHierarchy

    class Stop(Exception):
        pass

    class Node:
        def __init__(self, scope_id):
            self.scope_id = scope_id

    class Row:
        def __init__(self, **kw):
            self.__dict__.update(kw)
    wit, cases = [], 0
    # module ids: 10 -> parent 20 -> parent 30 -> parent 40 (root: scope_id -1); 55 is not in the table
    table = {10: Node(20), 20: Node(30), 30: Node(40), 40: Node(-1)}

    def up(k, x):
        while k > 0 and x in table and table[x] and table[x].scope_id != -1:
            x, k = table[x].scope_id, k - 1
        return x
    for start in (10, 20, 30, 40, 55):
        for dots in range(0, 6):
            cases += 1
            ih = object.__new__(ImportHierarchy)
            ih.symbol_id_to_symbol_node = dict(table)
            ih.is_strict_parse_mode = False
            seen = []

            def capture(path, parent, seen=seen):
                seen.append(parent)
                raise Stop()
            ih.parse_import_path_from_current_dir = capture
            ih.validate_import_stmt = lambda unit_info, stmt: True
            stmt = Row(source='.' * dots + 'pkg.mod', name='helper', alias=None, stmt_id=7, operation='from_import_stmt')
            try:
                ih.analyze_import_stmt(1, Row(parent_module_id=start, original_path='x.py'), stmt, [])
            except Stop:
                pass
            except Exception as e:       # noqa
                seen.append(f'exception {e!r}')
            want = up(max(dots - 1, 0), start)
            if seen[:1] != [want]:
                wit.append(dict(function='ImportHierarchy.analyze_import_stmt', input=dict(importing_module_parent=start, leading_dots=dots, parents='10->20->30->40(root)'),
                                observed=f'search started at {seen[:1]}, expected at {want}', clauses=['relative-import', 'climbed-so-far']))
                if len(wit) >= 2:
                    return wit, cases
    return wit, cases


def search(target, models):
    if 'analyze_import_stmt' in target or 'ImportHierarchy' in target:
        wit, cases = search_imports()
        return dict(witnesses=wit, searched=f'{cases} (start module, number of leading dots) pairs on a 4-level package chain', how='real ImportHierarchy.analyze_import_stmt, path search intercepted')
    if 'add_status' in target or target == 'extra':
        wit, cases = search_defuse()
        return dict(witnesses=wit, searched=f'{cases} statements (nonlocal, global)', how='real add_status_with_symbol_id_sync with a recording resolver stub')
    # the implicit-root union is the recorded finding; anything that fails WITHOUT implicit roots is new
    wit, cases = search_resolver(False)
    return dict(witnesses=wit[:3], searched=f'{cases} (declaring scopes, use scope) placements on a 6-scope tree, no implicit roots',
                how='real Resolver.resolve_symbol_source_decl with a hand-built UnitSymbolDeclSummary; expected = innermost enclosing declaring scope')


def replay(w):
    if isinstance(w, dict) and w.get('kind') == 'F5':
        ok, detail = known_f5()
        return dict(reproduced=ok, detail=detail)
    out = search('*', [])
    return dict(reproduced=bool(out['witnesses']), detail=out['witnesses'][:1])


def bounded_hoisting():
    """BOUNDED stand-in for what no contract covers here (the frontend's declaration-hoisting pass feeding the scope tables): one Python program with functions defined
    in blocks, lambdas, shadowing; real parser + adjust_variable_decls + flatten + UnitScopeHierarchyAnalysis + Resolver; every identifier occurrence against Python scoping"""
    import contextlib
    import io
    import c05_hoist
    buf = io.StringIO()
    try:
        with contextlib.redirect_stdout(buf):
            code = c05_hoist.main()
    except SystemExit as e:
        code = e.code
    except Exception as e:      # noqa
        return [dict(function='adjust_variable_decls', input='c05_hoist.py', observed=[f'exception {e!r}'], clauses=['names bind to the declaration lexical scoping selects'])], 1
    lines = [l for l in buf.getvalue().splitlines() if l.strip()]
    if code:
        return [dict(function='adjust_variable_decls', input='the program of c05_hoist.py (functions defined inside if/for/with/try bodies, lambdas, shadowing)',
                     observed=lines[:4], clauses=['names bind to the declaration lexical scoping selects'])], 14
    return [], 14


if __name__ == '__main__':
    if '--bounded' in sys.argv:
        wit, cases = bounded_hoisting()
        common.emit(dict(witnesses=wit, cases=cases, bound='one Python program, 14 identifier occurrences (functions defined inside blocks, lambdas, shadowing) through the real parser, '
                                                           'declaration hoisting, flattening, scope hierarchy and resolver'))
        sys.exit(1 if wit else 0)
    common.main(search, replay)
