"""C16 replay / witness search on the real DataModel: operation sequences, every query compared with a scan of the CURRENT frame
(the oracle is computed from dm._data itself, row by row).  Small scope; a replay aid, never the deciding step."""
import itertools
import math
import common

import numpy as np
import pandas as pd
from lian.util.data_model import DataModel
from lian.util import util

ROWS = [dict(stmt_id=1, op='block_start', name='a'), dict(stmt_id=2, op='x', name='b'), dict(stmt_id=3, op='y', name=None),
        dict(stmt_id=1, op='block_end', name='a'), dict(stmt_id=5, op='z', name='')]
EXTRA = [dict(stmt_id=7, op='w', name='a')]


def fresh():
    return DataModel([dict(r) for r in ROWS])


def is_missing(v):
    try:
        return util.isna(v)
    except Exception:
        return v is None


def scan(dm, col, val):
    if is_missing(val):
        return []
    out = []
    for pos, v in enumerate(list(dm._data[col])):
        if not is_missing(v) and v == val:
            out.append(pos)
    return out


OPS = {
    'q_name_a': lambda d: d.query_index_column_value_indices('name', 'a'),
    'q_stmt_1': lambda d: d.query_index_column_value_indices('stmt_id', 1),
    'rows': lambda d: d.get_rows(),
    'set(2,name,a)': lambda d: d.modify_element(2, 'name', 'a'),
    'set(0,stmt_id,9)': lambda d: d.modify_element(0, 'stmt_id', 9),
    'remove(stmt_id==2)': lambda d: d.remove_rows('stmt_id', 2),
    'remove(name==a)': lambda d: d.remove_rows('name', 'a'),
    'append': lambda d: d.append_data_model(DataModel([dict(r) for r in EXTRA])),
    'modify_column(name,a)': lambda d: d.modify_column('name', 'a'),
    'modify_row(1)': lambda d: d.modify_row(1, [1, 'q', 'a']),
    'rename(name->name)': lambda d: d.rename_column({'op': 'op'}),
    'reset_index': lambda d: d.reset_index(),
}


def check_all(dm):
    """every query equals the scan of the current rows; positions valid"""
    bad = []
    n = len(dm._data)
    for col, vals in (('name', ['a', 'b', '', None]), ('stmt_id', [1, 2, 9, 7])):
        if col not in dm._data.columns:
            continue
        for v in vals:
            got = list(dm.query_index_column_value_indices(col, v))
            want = scan(dm, col, v)
            if got != want or any(not (0 <= p < n) for p in got):
                bad.append(('equals-the-scan-of-the-current-rows;-positions-valid', f'query_index_column_value_indices({col!r}, {v!r}) = {got}, scan = {want}, rows = {n}'))
    # the row-returning query: the rows at the POSITIONS of the scan (labels differ from positions after remove_rows / slices)
    for col, v in (('name', 'a'), ('stmt_id', 1), ('stmt_id', 2)):
        if col not in dm._data.columns:
            continue
        want_pos = scan(dm, col, v)
        try:
            got = dm.query_index_column_value(col, v)
            got_rows = [[str(x) for x in r_] for r_ in got._data.values] if isinstance(got, DataModel) else []
        except Exception as e:      # noqa
            got_rows = f'exception {e!r}'
        want_rows = [[str(x) for x in dm._data.iloc[p_].values] for p_ in want_pos]
        if got_rows != want_rows:
            bad.append(('the-rows-at-the-POSITIONS-the-indexed-query-returns-(an-empty-list-when-none)', f'query_index_column_value({col!r}, {v!r}) = {got_rows}, rows at the scanned positions {want_pos} = {want_rows}'))
    for i in (-1, 0, n - 1, n):
        r = dm.access(i)
        if 0 <= i < n:
            want = list(dm._data.iloc[i].values)
            got = None if r is None else list(r.raw_data())
            same = got is not None and all((a == b) or (is_missing(a) and is_missing(b)) for a, b in zip(got, want)) and len(got) == len(want)
            if not same:
                bad.append(('row-i-of-the-current-frame-iff-0<=i<nrows,-else-None', f'access({i}) = {got}, current row = {want}'))
        elif r is not None:
            bad.append(('row-i-of-the-current-frame-iff-0<=i<nrows,-else-None', f'access({i}) returned a row for a table of {n} rows'))
    if len(dm) != n:
        bad.append(('number-of-rows-of-the-current-frame', f'len = {len(dm)}'))
    if list(dm._schema) != list(dm._data.columns) or any(dm._schema[c] != k for k, c in enumerate(dm._data.columns)):
        bad.append(('schema-describes-the-current-columns', f'_schema = {dm._schema}, columns = {list(dm._data.columns)}'))
    # block query: stmt_id 1 marks rows s<e exactly twice?
    pos = scan(dm, 'stmt_id', 1) if 'stmt_id' in dm._data.columns else []
    if len(pos) == 2:
        blk = dm.read_block(1)
        want = [list(x) for x in dm._data.iloc[pos[0] + 1: pos[1]].values]
        got = [list(x) for x in blk._data.values] if isinstance(blk, DataModel) else None
        if got is None or len(got) != len(want) or any(str(a) != str(b) for a, b in zip(got, want)):
            bad.append(('the-rows-strictly-between-the-two-markers', f'read_block(1) = {got}, current rows between markers = {want}'))
    return bad


def run(seq, check_every_step):
    dm = fresh()
    for k, name in enumerate(seq, 1):
        try:
            OPS[name](dm)
        except SystemExit:
            return None
        except Exception as e:          # pandas refusing an operation is not a property violation
            return None
        if check_every_step or k == len(seq):
            bad = check_all(dm)
            if bad:
                return bad[0][0], f'after {" -> ".join(seq[:k])}: {bad[0][1]}'
    return None


def search(target, models):
    wit, cases = [], 0
    names = list(OPS)
    for n in (1, 2, 3, 4):
        for seq in itertools.product(names, repeat=n):
            if n == 4 and not (seq[0].startswith('q_') or seq[1].startswith('q_')):
                continue
            cases += 1
            # checking only at the end matters: intermediate checks refresh the caches and can hide a stale one
            r = run(seq, check_every_step=False)
            if r:
                fnm = 'DataModel.query_index_column_value' if 'POSITIONS' in r[0] else 'DataModel.set_refresh_flag'
                wit.append(dict(function=fnm, input=list(seq), observed=r[1], clauses=[r[0], 'all-caches-invalidated', 'invariant']))
                if len(wit) >= 3:
                    return dict(witnesses=wit, searched=f'{cases} operation sequences', how='real DataModel vs scan of its current frame')
    return dict(witnesses=wit, searched=f'{cases} operation sequences of length <= 4 over 12 operations on a 5-row table with duplicate and missing values',
                how='real DataModel; after the sequence every indexed query / row access / block read is compared with a scan of dm._data')


def replay(w):
    r = run(w.get('input', []), check_every_step=False)
    return dict(reproduced=bool(r), detail=r)


if __name__ == '__main__':
    common.main(search, replay)
