# copied from the demonstration of seeded change C05-4 (see seeded/C05-4; written by a sub-agent from the property text alone); used by c05_replay.py as a BOUNDED stand-in
"""C05 demo: lexical binding of locals of a Python function that is defined inside a block.

Drives the real lian code: python parser -> adjust_variable_decls (UNFLATTENED_GIR_LIST_GENERATED handler)
-> GIR flattening -> UnitScopeHierarchyAnalysis -> Resolver.resolve_symbol_source_decl, and checks that every
identifier occurrence is bound to the declaration Python's scoping rules select.
"""
import builtins
builtins.profile = lambda f: f
import sys, types

from lian.config import lang_config
from lian.lang.lang_analysis import GIRParser, GIRProcessing
from lian.events.default_event_handlers import add_var_decl
from lian.events.handler_template import EventData
from lian.util.data_model import DataModel
from lian.basics.scope_hierarchy import UnitScopeHierarchyAnalysis
from lian.core.resolver import Resolver

SOURCE = '''\
limit = 10
count = 100

def outer(flag, v):
    count = 0
    def plain(v):
        count = v
        return count
    if flag:
        def cond(v):
            count = v + 1
            limit = count
            return limit
    for i in range(3):
        def looped(w):
            total = w
            return total
    return count

def total():
    return limit
'''

UNIT_ID = 1


class Options:
    strict_parse_mode = False
    quiet = True
    debug = False
    print_stmts = False
    lang = "python"


class StubLoader:
    """Keeps what the scope analysis saves, serves what the resolver asks for."""
    def __init__(self):
        self.summary = None
        self.scope_hierarchy = None
        self.stmt_id_to_scope_id = {}

    def save_unit_symbol_decl_summary(self, unit_id, summary):
        self.summary = summary

    def get_unit_symbol_decl_summary(self, unit_id):
        return self.summary

    def save_stmt_id_to_scope_id(self, cache):
        self.stmt_id_to_scope_id.update(cache)

    def convert_stmt_id_to_scope_id(self, stmt_id):
        return self.stmt_id_to_scope_id.get(stmt_id, -1)

    def save_unit_scope_hierarchy(self, unit_id, scope_space):
        self.scope_hierarchy = DataModel(scope_space.to_dict())

    def get_unit_scope_hierarchy(self, unit_id):
        return self.scope_hierarchy

    def is_import_stmt(self, stmt_id):
        return False

    def __getattr__(self, name):
        if name.startswith("save_"):
            return lambda *a, **k: None
        raise AttributeError(name)


def build():
    opts = Options()
    lang = [l for l in lang_config.LANG_TABLE if l.name == "python"][0]
    ts_parser = GIRParser(opts, None, None, "/tmp").obtain_ast_parser(lang)
    tree = ts_parser.parse(bytes(SOURCE, "utf8"))
    unit_info = types.SimpleNamespace(original_path="demo.py", unit_path="demo.py", module_id=UNIT_ID)
    gir = []
    lang.parser(opts, unit_info).parse_gir(tree.root_node, gir)

    event = EventData("python", None, gir)
    add_var_decl.adjust_variable_decls(event)

    _, flat = GIRProcessing(UNIT_ID + 1).flatten(event.out_data)
    for node in flat:
        node["unit_id"] = UNIT_ID
    unit_gir = DataModel(flat)

    loader = StubLoader()
    lian = types.SimpleNamespace(options=opts)
    UnitScopeHierarchyAnalysis(lian, loader, UNIT_ID, unit_info, unit_gir).analyze()
    resolver = Resolver(opts, None, loader)
    return list(unit_gir), loader, resolver


def main():
    stmts, loader, resolver = build()
    by_id = {s.stmt_id: s for s in stmts if s.operation != "block_end"}

    def method_of(stmt):
        cur = stmt
        while cur is not None and cur.operation != "method_decl":
            cur = by_id.get(cur.parent_stmt_id)
        return cur.name if cur is not None else "<module>"

    def enclosing_method_id(stmt):
        cur = by_id.get(stmt.parent_stmt_id)
        while cur is not None and cur.operation != "method_decl":
            cur = by_id.get(cur.parent_stmt_id)
        return cur.stmt_id if cur is not None else 0

    methods = {s.name: s.stmt_id for s in stmts if s.operation == "method_decl"}
    # owner scope of every variable/parameter declaration: (function name, identifier) -> decl stmt id
    decls = {}
    for s in stmts:
        if s.operation in ("variable_decl", "parameter_decl"):
            owner = enclosing_method_id(s)
            owner_name = by_id[owner].name if owner else "<module>"
            decls[(owner_name, s.name)] = s.stmt_id

    # (function containing the occurrence, identifier) -> function whose declaration Python binds it to
    expected = {
        ("outer", "count"): "outer",
        ("plain", "count"): "plain",
        ("plain", "v"): "plain",
        ("cond", "count"): "cond",      # local of cond: shadows outer.count and module count
        ("cond", "limit"): "cond",      # local of cond: shadows module-level limit
        ("cond", "v"): "cond",          # parameter of cond, not outer's parameter v
        ("looped", "total"): "looped",  # local of looped, not the module-level function total
        ("looped", "w"): "looped",
        ("total", "limit"): "<module>",
    }

    problems = []
    checked = 0
    for s in stmts:
        if s.operation not in ("assign_stmt", "return_stmt"):
            continue
        where = method_of(s)
        names = set()
        for field in ("target", "operand", "operand2", "name"):
            val = getattr(s, field, None)
            if isinstance(val, str) and val.isidentifier():
                names.add(val)
        for name in sorted(names):
            key = (where, name)
            if key not in expected:
                continue
            owner = expected[key]
            want = decls.get((owner, name))
            info = resolver.resolve_symbol_source_decl(UNIT_ID, s.stmt_id, name)
            got = info.source_symbol_id
            checked += 1
            if want is None or got != want:
                got_stmt = by_id.get(got)
                got_desc = "unresolved" if got_stmt is None else \
                    f"{got_stmt.operation} {got_stmt.name!r} owned by {by_id[enclosing_method_id(got_stmt)].name if enclosing_method_id(got_stmt) else '<module>'}"
                problems.append(
                    f"'{name}' in {where}() (stmt {s.stmt_id}, {s.operation}) should bind to the declaration "
                    f"in {owner} (stmt {want}) but is bound to {got} [{got_desc}]"
                )

    if checked < 12:
        problems.append(f"only {checked} occurrences were checked; the harness did not see the expected program")

    if problems:
        print("FAIL")
        for p in problems:
            print("  -", p)
        return 1
    print(f"PASS ({checked} identifier occurrences bound to the declaration selected by Python scoping)")
    return 0


if __name__ == "__main__":
    sys.exit(main())
