"""C03 replay / witness search on the real GIRProcessing / adjust_node_id / add_main_func: small GIR trees, well-formedness of the flattened rows."""
import itertools
import common

from lian.lang.lang_analysis import GIRProcessing, LangAnalysis
from lian.events.default_event_handlers import basic
from lian.events.handler_template import EventData


def trees(depth):
    leaf = [{'assign_stmt': {'target': 'a', 'operand': 'b'}}, {'call_stmt': {'target': 't', 'name': 'f', 'positional_args': []}}, {'variable_decl': {'name': 'v'}},
            {'unreach_stmt': 'unreachable'}, {'pass_stmt': {}}]
    if depth == 0:
        for x in leaf:
            yield x
        return
    for x in leaf:
        yield x
    for body in itertools.product(list(trees(depth - 1))[:4], repeat=2):
        yield {'if_stmt': {'condition': 'c', 'then_body': list(body), 'else_body': [body[0]]}}
        yield {'method_decl': {'name': 'm', 'body': list(body)}}
    yield {'method_decl': {'name': 'empty', 'body': []}}


def check_rows(rows, lo, hi):
    bad = []
    seen = {}
    stack = []
    for k, r in enumerate(rows):
        if not all(x in r for x in ('operation', 'stmt_id', 'parent_stmt_id')) or not isinstance(r['stmt_id'], int):
            bad.append(f'row {k} lacks operation/stmt_id/parent_stmt_id: {r}')
            continue
        if not (lo <= r['stmt_id'] < hi):
            bad.append(f'row {k} id {r["stmt_id"]} outside [{lo},{hi})')
        if r['operation'] == 'block_start':
            stack.append((r['stmt_id'], r['parent_stmt_id']))
        elif r['operation'] == 'block_end':
            if not stack or stack[-1] != (r['stmt_id'], r['parent_stmt_id']):
                bad.append(f'row {k}: block_end {r["stmt_id"]} does not close the innermost open block {stack[-1] if stack else None}')
            else:
                stack.pop()
        if r['stmt_id'] in seen and not (rows[seen[r['stmt_id']]]['operation'] == 'block_start' and r['operation'] == 'block_end'):
            bad.append(f'row {k}: id {r["stmt_id"]} already used by row {seen[r["stmt_id"]]}')
        seen.setdefault(r['stmt_id'], k)
    if stack:
        bad.append(f'unclosed blocks {stack}')
    return bad


def search(target, models):
    wit, cases = [], 0
    pool = list(trees(2))[:60]
    for n in (1, 2):
        for stmts in itertools.product(pool[:14] if n == 2 else pool, repeat=n):
            cases += 1
            g = GIRProcessing(100)
            try:
                nxt, rows = g.flatten([dict(s) for s in stmts])
            except SystemExit:
                continue
            except Exception as e:
                wit.append(dict(function='GIRProcessing.flatten_stmt', input=repr(stmts)[:300], observed=repr(e), clauses=['safety']))
                continue
            bad = check_rows(rows, 100, nxt)
            if bad:
                wit.append(dict(function='GIRProcessing.flatten_block', input=repr(stmts)[:300], observed=bad[:3], clauses=['start-marker', 'appends-one-row', 'fresh-id']))
            if len(wit) >= 3:
                break
    # id gap between files + add_main_func
    la = LangAnalysis.__new__(LangAnalysis)
    for n1 in range(0, 45):
        s2 = la.adjust_node_id(n1)
        cases += 1
        if not (s2 > n1 + 1 and s2 % 10 == 0):
            wit.append(dict(function='LangAnalysis.adjust_node_id', input=n1, observed=s2, clauses=['gap-leaves-room-for-the-two-ids-of-%unit_init', 'next-multiple-of-ten']))
            break
    for top in (0, 1, 2):
        g = GIRProcessing(10)
        stmts = [{'method_decl': {'name': 'm', 'body': [{'pass_stmt': {}}]}}] + [{'assign_stmt': {'target': f'x{k}', 'operand': '1'}} for k in range(top)]
        nxt, rows = g.flatten(stmts)
        d = EventData('python', 0, rows)
        d.in_data = rows
        r = basic.add_main_func(d)
        cases += 1
        out = d.out_data if r is not None else rows
        ids = [x['stmt_id'] for x in rows]
        if r is not None:
            new = [x for x in out if not any(x is y for y in rows)]
            if sorted({x['stmt_id'] for x in new}) != [max(ids) + 1, max(ids) + 2] or out[-1]['operation'] != 'block_end':
                wit.append(dict(function='add_main_func', input=f'{top} top-level statements', observed=[dict(x) for x in new], clauses=['%unit_init-and-its-block-get-ids-max+1-and-max+2']))
        elif top:
            wit.append(dict(function='add_main_func', input=f'{top} top-level statements', observed='no %unit_init created', clauses=['%unit_init']))
    t = target.split('.')[-1]
    mine = [w for w in wit if w['function'].split('.')[-1] == t]
    return dict(witnesses=(mine or wit)[:4], searched=f'{cases} cases: GIR statement lists up to nesting depth 2, adjust_node_id on 0..44, add_main_func on 3 units',
                how='real GIRProcessing.flatten / adjust_node_id / add_main_func; rows checked for id range, uniqueness up to marker pairs, proper nesting')


def replay(w):
    out = search(w.get('function', '*') if isinstance(w, dict) else '*', [])
    return dict(reproduced=bool(out['witnesses']), detail=out['witnesses'][:1])


if __name__ == '__main__':
    common.main(search, replay)
