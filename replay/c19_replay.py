"""C19 replay / witness search / BOUNDED stand-in on the real PathTrie / PathManager (src/lian/common_structs.py).

--bounded <depth>: exhaustive enumeration of add/remove sequences up to <depth> operations over a fixed universe of paths; after every
operation the real PathManager is compared with the abstract contract (result, stored set) and the concrete trie representation invariant
is evaluated.  A stand-in with a stated bound: never counted as proved.
"""
import itertools
import sys
import common

from lian.common_structs import CallSite, CallPath, PathManager, PathTrie

A, B, C = CallSite(1, 2, 3), CallSite(3, 4, 5), CallSite(5, 6, 7)
BAD = CallSite(7, -1, 9)
UNIVERSE = [CallPath(()), CallPath((A,)), CallPath((A, B)), CallPath((A, B, C)), CallPath((A, C)), CallPath((B,)), CallPath((B, A)), CallPath((A, BAD)), ]
N_BASE = len(UNIVERSE)
# call paths of recursive programs: the same call site at several positions (a path's last call site also occurring earlier)
UNIVERSE += [CallPath((A, A)), CallPath((A, B, A)), CallPath((A, A, A)), CallPath((A, B, C, B))]
RECURSIVE_FAMILY = [1, 2, 3, N_BASE, N_BASE + 1, N_BASE + 2, N_BASE + 3]          # [A] [A,B] [A,B,C] [A,A] [A,B,A] [A,A,A] [A,B,C,B]
NAMES = {id(A): 'A', id(B): 'B', id(C): 'C', id(BAD): 'X'}


def nm(p):
    return '[' + ','.join(NAMES[id(s)] for s in p.path) + ']'


def is_prefix(p, q):
    return len(p.path) <= len(q.path) and q.path[:len(p.path)] == p.path


def model_add(S, p):
    if not isinstance(p, CallPath) or p.has_any_negative():
        return False, S
    if any(is_prefix(p, t) for t in S):
        return False, S
    return True, frozenset(t for t in S if not is_prefix(t, p)) | {p}


def trie_invariant(trie: PathTrie):
    """terminal <=> stored (with node.path == the key), non-terminal nodes carry no path, no dead branch, keys are the stored set"""
    bad = []
    found = set()

    def walk(node, key):
        has_term = node.is_terminal
        if node.is_terminal:
            if node.path is None or node.path.path != key:
                bad.append(f'terminal node at {key!r} has path {node.path!r}')
            found.add(CallPath(key))
        elif node.path is not None:
            bad.append(f'non-terminal node at {key!r} keeps path {node.path!r}')
        for e, ch in node.children.items():
            if walk(ch, key + (e,)):
                has_term = True
        if key and not has_term:
            bad.append(f'dead branch at {key!r}')
        return has_term
    walk(trie.root, ())
    if found != set(trie.paths):
        bad.append(f'terminal keys {sorted(map(nm, found))} != trie.paths {sorted(map(nm, trie.paths))}')
    return bad


def run_sequence(ops):
    """ops: list of ('add'|'remove', index into UNIVERSE). returns (violated clause, detail) or None"""
    pm = PathManager()
    S = frozenset()
    for step, (op, k) in enumerate(ops, 1):
        p = UNIVERSE[k]
        if op == 'add':
            want, S2 = model_add(S, p)
            got = pm.add_path(p)
            clause = 'invalid-never-stored;-accepted-iff-no-stored-extension;-stored-proper-prefixes-evicted'
        else:
            want, S2 = (p in S), frozenset(t for t in S if t != p)
            got = pm.remove_path(p)
            clause = 'exactly-that-path-removed'
        S = S2
        if bool(got) != want:
            return clause, f'step {step}: {op}({nm(p)}) returned {got}, contract says {want}'
        if set(pm.paths) != set(S) or set(pm.trie.paths) != set(S):
            return clause, f'step {step}: after {op}({nm(p)}) stored {sorted(map(nm, pm.paths))} / trie {sorted(map(nm, pm.trie.paths))}, contract says {sorted(map(nm, S))}'
        inv = trie_invariant(pm.trie)
        if inv:
            return 'trie-representation-invariant', f'step {step}: after {op}({nm(p)}): {inv[0]}'
        for q in UNIVERSE:
            if pm.path_exists(q) != (q in S):
                return 'membership-in-the-stored-set', f'step {step}: path_exists({nm(q)}) = {pm.path_exists(q)}'
    return None


def enumerate_sequences(depth, limit_witnesses=3):
    wit = []
    cases = 0
    alphabet = [('add', k) for k in range(N_BASE)] + [('remove', k) for k in range(N_BASE - 1)]
    rec_alphabet = [('add', k) for k in RECURSIVE_FAMILY] + [('remove', k) for k in RECURSIVE_FAMILY]
    for n in range(1, depth + 1):
        seqs = itertools.chain(itertools.product(alphabet, repeat=n), itertools.product(rec_alphabet, repeat=n) if n <= 4 else [])
        for ops in seqs:
            # prune: a removal of a path never added before is covered at smaller depth only once per position; keep everything up to depth 4
            if n > 4 and not useful(ops):
                continue
            cases += 1
            r = run_sequence(ops)
            if r:
                wit.append(dict(function='PathManager.add_path' if ops[-1][0] == 'add' else 'PathManager.remove_path',
                                input=[f'{op}({nm(UNIVERSE[k])})' for op, k in ops], ops=[[op, k] for op, k in ops], observed=r[1], clauses=[r[0]]))
                if len(wit) >= limit_witnesses:
                    return wit, cases
        if wit:
            break
    return wit, cases


def useful(ops):
    """beyond depth 4 only sequences that stay within one prefix family (paths through A) and remove only what was added"""
    added = set()
    for op, k in ops:
        if k in (4, 5) or k >= N_BASE:
            return False
        if op == 'remove' and k not in added:
            return False
        if op == 'add':
            added.add(k)
    return True


def search(target, models):
    wit, cases = enumerate_sequences(4)
    return dict(witnesses=wit, searched=f'{cases} add/remove sequences of length <= 4 over {N_BASE} paths (incl. one with an invalid call site) and over the {len(RECURSIVE_FAMILY)} paths of a recursive family (repeated call sites)',
                how='real PathManager vs the abstract contract + concrete trie representation invariant after every operation')


def replay(w):
    ops = [(op, k) for op, k in w.get('ops', [])]
    r = run_sequence(ops) if ops else None
    return dict(reproduced=bool(r), detail=r)


if __name__ == '__main__':
    if '--bounded' in sys.argv:
        depth = int(sys.argv[sys.argv.index('--bounded') + 1])
        wit, cases = enumerate_sequences(depth)
        common.emit(dict(witnesses=wit, cases=cases,
                         bound=f'all add/remove sequences of length <= 4, and all prefix-family sequences of length <= {depth}, over a universe of '
                               f'{N_BASE} paths of length <= 3 built from 3 valid call sites + 1 invalid; all sequences of length <= 4 over {len(RECURSIVE_FAMILY)} paths with repeated call sites'))
        sys.exit(1 if wit else 0)
    common.main(search, replay)
