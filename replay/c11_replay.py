"""C11 replay / witness search on the real rule appliers (replay aid; never the verdict)."""
import itertools
import sys
import types
import common

import networkx as nx
from lian.taint.taint_analysis import TaintRuleApplier, TaintAnalysis
from lian.taint.rule_manager import Rule, SourceCodeRule
from lian.common_structs import SFGNode, SFGEdge
from lian.config.constants import SFG_NODE_KIND, SFG_EDGE_KIND, TAG_KEYWORD

POS = {TAG_KEYWORD.ARG0: 1, TAG_KEYWORD.ARG1: 2, TAG_KEYWORD.ARG2: 3, TAG_KEYWORD.ARG3: 4, TAG_KEYWORD.ARG4: 5, TAG_KEYWORD.RECEIVER: 0, TAG_KEYWORD.TARGET: 0}


def make(op, rules, from_code=(), nargs=4, unit='/p/a.py', lang='python'):
    g = nx.DiGraph()
    stmt = types.SimpleNamespace(name='sink', field='f', receiver_object='o', start_row=3, key='k')
    node = SFGNode(node_type=SFG_NODE_KIND.STMT, def_stmt_id=10, name=op, stmt=stmt)
    args = [SFGNode(node_type=SFG_NODE_KIND.SYMBOL, def_stmt_id=10, node_id=100 + i, name=f'a{i}', index=i) for i in range(nargs)]
    for i, a in enumerate(args):
        g.add_edge(a, node, weight=SFGEdge(edge_type=SFG_EDGE_KIND.SYMBOL_IS_USED, stmt_id=10, pos=i))
    other = SFGNode(node_type=SFG_NODE_KIND.STATE, def_stmt_id=9, node_id=500, name='st', index=9)
    g.add_edge(other, node, weight=SFGEdge(edge_type=SFG_EDGE_KIND.STATE_IS_USED, stmt_id=10, pos=1))
    ap = object.__new__(TaintRuleApplier)
    ap.sfg = g
    ap.rule_manager = types.SimpleNamespace(all_sinks=list(rules), all_sinks_from_code=list(from_code), all_sources=[], all_sources_from_code=[])
    tags = {100 + i: 1 << i for i in range(nargs)}
    tags[500] = 1 << 8
    ap.taint_analysis = types.SimpleNamespace(get_stmt_used_symbol_and_state_by_pos=lambda n, pos=-1: (None, None), get_symbol_with_states_tag=lambda p: tags[p.node_id])
    ap.loader = types.SimpleNamespace(convert_stmt_id_to_unit_id=lambda s: 1, convert_module_id_to_module_info=lambda u: types.SimpleNamespace(original_path=unit, lang=lang),
                                      convert_unit_id_to_lang_name=lambda u: lang)
    return ap, node, g, tags


def snapshot(g):
    return sorted((u.node_id, v.node_id, d['weight'].edge_type, d['weight'].pos) for u, v, d in g.edges(data=True))


def search_sink_tag():
    wit, cases = [], 0
    for op, targets, twice in itertools.product(('call_stmt', 'object_call_stmt'), ([TAG_KEYWORD.ARG0], [TAG_KEYWORD.ARG1], [TAG_KEYWORD.ARG0, TAG_KEYWORD.ARG2], ['bogus'], [TAG_KEYWORD.RECEIVER],
                                                                                  [TAG_KEYWORD.ARG1, 'bogus'], []), (False, True)):
        cases += 1
        name = 'sink' if op == 'call_stmt' else 'o.f'
        ap, node, g, tags = make(op, [Rule(operation=op, name=name, target=targets, vuln_type='x')])
        before = snapshot(g)
        try:
            got = ap.get_sink_tag_by_rules(node)[0]
            if twice:
                got = ap.get_sink_tag_by_rules(node)[0]
        except Exception as e:
            wit.append(dict(function='TaintRuleApplier.get_sink_tag_by_rules', input=dict(operation=op, targets=targets, evaluations=2 if twice else 1), observed=f'exception {e!r}',
                            clauses=['safety', 'justified']))
            continue
        want = 0
        for t in targets:
            p = POS.get(t, -1)
            for i in range(4):
                wp = i - (1 if op == 'object_call_stmt' and p != 0 else 0)
                if (p != -1 and wp == p) or t == TAG_KEYWORD.TARGET or not t:
                    want |= tags[100 + i]
        bad = []
        if got != want:
            bad.append(f'sink tag {got:#x}, tags of the argument positions the rule names {want:#x}')
        if snapshot(g) != before:
            bad.append('the SFG edge positions were modified by evaluating the sink')
        if bad:
            wit.append(dict(function='TaintRuleApplier.get_sink_tag_by_rules', input=dict(operation=op, targets=targets, evaluations=2 if twice else 1), observed='; '.join(bad),
                            clauses=['justified:the-edge-position', 'frame:attr:pos', 'justified', 'frame']))
        if len(wit) >= 3:
            break
    # no rule => no tag
    ap, node, g, tags = make('call_stmt', [])
    cases += 1
    if ap.get_sink_tag_by_rules(node)[0] != 0:
        wit.append(dict(function='TaintRuleApplier.get_sink_tag_by_rules', input='no rule', observed='non-zero tag without any rule', clauses=['no-configured-sink-rule']))
    return wit, cases


def search_appliers():
    wit, cases = [], 0
    for unit_name, line, opr in itertools.product((None, 'a.py', 'b.py', '.py', 'py', 'p/a.py'), (None, 4, 9), ('record_write', 'field_write', 'call_stmt')):     # a rule names a FILE: a name that is only a suffix of the unit's base name (or carries a directory) is another file
        cases += 1
        rule = Rule(operation=opr, name='record_write' if opr != 'call_stmt' else 'sink', key='k', unit_name=unit_name, line_num=line, unit_path=None)
        for fn, op in (('apply_record_write_sink_rules', 'record_write'), ('apply_field_write_sink_rules', 'field_write')):
            ap, node, g, tags = make(op, [rule])
            node.operation = op
            got = getattr(ap, fn)(node)
            want = opr == op and unit_name in (None, 'a.py') and line in (None, 4)
            if bool(got) and not want:
                wit.append(dict(function='TaintRuleApplier.' + fn, input=dict(rule_operation=opr, unit_name=unit_name, line_num=line), observed='matched although a stated restriction does not hold',
                                clauses=['justified:True-only-through']))
    return wit[:3], cases


def known_f6():
    rule = Rule(operation='record_write', name='x', key='k', lang='java')
    ap, node, g, tags = make('record_write', [rule], lang='python')
    got = ap.apply_record_write_sink_rules(node)
    return bool(got), f"sink rule with lang='java' (record_write, key 'k') applied to a statement of a python unit: apply_record_write_sink_rules -> {got}"


def known_f12():
    g = nx.DiGraph()
    stmt = types.SimpleNamespace(start_row=3)
    node = SFGNode(node_type=SFG_NODE_KIND.STMT, def_stmt_id=10, name='parameter_decl', stmt=stmt)
    psym = SFGNode(node_type=SFG_NODE_KIND.SYMBOL, def_stmt_id=10, node_id=100, name='req', index=1)
    g.add_edge(node, psym, weight=SFGEdge(edge_type=SFG_EDGE_KIND.SYMBOL_IS_DEFINED, stmt_id=10))
    ap = object.__new__(TaintRuleApplier)
    ap.sfg = g
    ap.rule_manager = types.SimpleNamespace(all_sources=[Rule(operation='call_stmt', name='req')])
    ap.loader = types.SimpleNamespace(convert_stmt_id_to_method_id=lambda s: 1, convert_stmt_id_to_unit_id=lambda s: 1,
                                      convert_module_id_to_module_info=lambda u: types.SimpleNamespace(original_path='/p/a.py'))
    got = ap.apply_parameter_source_rules(node)
    return bool(got), f"source rule Rule(operation='call_stmt', name='req') and a parameter named req: apply_parameter_source_rules -> {got}"


def search_flows():
    wit, cases = [], 0
    for stag, tag in itertools.product((0, 1, 2, 3), (1, 2)):
        cases += 1
        ta = object.__new__(TaintAnalysis)
        ta.taint_manager = orig = object()
        ta.current_entry_point = 1
        ta.sfg = nx.DiGraph()
        seen_envs = []
        ta.path_finder = types.SimpleNamespace(propagate_taint=lambda s: (seen_envs.append(ta.taint_manager), tag)[1],
                                               reconstruct_define_use_path=lambda s, k: types.SimpleNamespace(vuln_type=None))
        ta.rule_applier = types.SimpleNamespace(get_sink_tag_by_rules=lambda k: (stag, 'v'))
        ta.save_graph_to_dot = lambda **k: None
        ta.dump_tainted_sfg_by_method = lambda **k: None
        src = [SFGNode(node_type=SFG_NODE_KIND.SYMBOL, def_stmt_id=i, node_id=i) for i in (1, 2)]
        snk = [SFGNode(node_type=SFG_NODE_KIND.STMT, def_stmt_id=9, node_id=9)]
        flows = ta.find_flows(src, snk)
        bad = []
        if (len(flows) > 0) != ((stag & tag) != 0):
            bad.append(f'{len(flows)} flows for sink tag {stag}, source tag {tag}')
        if ta.taint_manager is not orig:
            bad.append('analysis-wide taint environment not restored')
        if len(set(map(id, seen_envs))) != len(seen_envs) or any(e is orig for e in seen_envs):
            bad.append('pairs share a taint environment')
        if bad:
            wit.append(dict(function='TaintAnalysis.find_flows', input=dict(sink_tag=stag, source_tag=tag), observed='; '.join(bad), clauses=['justified:a-flow-is-reported', 'isolation', 'restored']))
    return wit[:3], cases


def search_isolation():
    """the tag readers must read the CURRENT environment: a state tainted in one environment has tag 0 in a fresh one"""
    from lian.taint.taint_structs import TaintEnv
    wit, cases = [], 0
    g = nx.DiGraph()
    sym = SFGNode(node_type=SFG_NODE_KIND.SYMBOL, def_stmt_id=1, node_id=100, name='a', index=1)
    st1 = SFGNode(node_type=SFG_NODE_KIND.STATE, def_stmt_id=1, node_id=200, name='s', index=2)
    st2 = SFGNode(node_type=SFG_NODE_KIND.STATE, def_stmt_id=1, node_id=201, name='t', index=3)
    g.add_edge(sym, st1, weight=SFGEdge(edge_type=SFG_EDGE_KIND.SYMBOL_STATE, stmt_id=1))
    g.add_edge(st1, st2, weight=SFGEdge(edge_type=SFG_EDGE_KIND.STATE_INCLUSION, stmt_id=1))
    ta = object.__new__(TaintAnalysis)
    ta.sfg = g
    for fn, node in (('get_state_with_inclusion_tag', st1), ('get_symbol_with_states_tag', sym)):
        cases += 1
        ta.taint_manager = TaintEnv()
        ta.taint_manager.states_to_bv = {201: 2}
        first = getattr(ta, fn)(node)
        ta.taint_manager = TaintEnv()
        second = getattr(ta, fn)(node)
        if first != 2 or second != 0:
            wit.append(dict(function='TaintAnalysis.' + fn, input='state 201 tainted (tag 2) in a first environment, then a fresh TaintEnv', observed=f'{fn}: first environment {first}, fresh environment {second} (must be 2 and 0)',
                            clauses=['isolation', 'a-tag-bit-vector']))
    return wit, cases


SEARCHES = {'get_state_with_inclusion_tag': search_isolation, 'get_symbol_with_states_tag': search_isolation, 'get_sink_tag_by_rules': search_sink_tag, 'find_flows': search_flows, 'apply_record_write_sink_rules': search_appliers, 'apply_field_write_sink_rules': search_appliers,
            'should_apply_call_stmt_sink_rules': search_appliers}


def search(target, models):
    fn = target.split('.')[-1]
    order = [SEARCHES[fn]] if fn in SEARCHES else [search_sink_tag, search_appliers, search_flows, search_isolation]
    wit, cases = [], 0
    for f in order:
        w, c = f()
        wit += w
        cases += c
    return dict(witnesses=wit[:4], searched=f'{cases} cases', how='real TaintRuleApplier / TaintAnalysis.find_flows on hand-built state flow graphs and rule lists')


def replay(w):
    if isinstance(w, dict) and w.get('kind') == 'F12':
        ok, detail = known_f12()
        return dict(reproduced=ok, detail=detail)
    if isinstance(w, dict) and w.get('kind') == 'F6':
        ok, detail = known_f6()
        return dict(reproduced=ok, detail=detail)
    out = search(w.get('function', '*') if isinstance(w, dict) else '*', [])
    return dict(reproduced=bool(out['witnesses']), detail=out['witnesses'][:1])


if __name__ == '__main__':
    common.main(search, replay)
