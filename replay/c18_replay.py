"""C18 replay / BOUNDED stand-in: real workspace preparation (Lian option parsing + set_workspace_dir + WorkspaceBuilder.run, nomock) for several
placements of workspace, inputs and symlinks inside a throw-away sandbox.  After each run: everything outside the workspace is byte-identical,
the bytes copied do not exceed the input bytes, a forced rerun removes only previous workspace contents.  A stand-in with a stated bound."""
import hashlib
import os
import shutil
import sys
import tempfile
import common


def snapshot(root, exclude):
    out = {}
    ex = os.path.realpath(exclude) if exclude else None
    for dp, dn, fn in os.walk(root, followlinks=False):
        rp = os.path.realpath(dp)
        if ex and (rp == ex or rp.startswith(ex + os.sep)):
            dn[:] = []
            continue
        for d in list(dn):
            p = os.path.join(dp, d)
            if os.path.islink(p):
                out[p] = ('link', os.readlink(p))
        for f in fn:
            p = os.path.join(dp, f)
            if os.path.islink(p):
                out[p] = ('link', os.readlink(p))
            else:
                with open(p, 'rb') as fh:
                    out[p] = ('file', hashlib.sha256(fh.read()).hexdigest())
    return out


def tree_bytes(root):
    n = 0
    for dp, dn, fn in os.walk(root, followlinks=False):
        for f in fn:
            p = os.path.join(dp, f)
            if not os.path.islink(p):
                n += os.path.getsize(p)
    return n


def prepare(workspace, inputs, force=True, cwd=None):
    """what `lian run -f -q -l python --nomock -w <workspace> <inputs>` does up to and including the workspace preparation"""
    from lian.main import Lian
    from lian import preparation
    old_argv, old_cwd = sys.argv, os.getcwd()
    sys.argv = ['lian', 'run'] + (['-f'] if force else []) + ['-q', '-l', 'python', '--nomock', '-w', workspace] + list(inputs)
    try:
        if cwd:
            os.chdir(cwd)
        l = Lian().parse_cmds()
        l.set_workspace_dir()
        l.update_lang_config()
        preparation.WorkspaceBuilder(l.options).run()
        return os.path.abspath(l.options.workspace)
    finally:
        os.chdir(old_cwd)
        sys.argv = old_argv


def scenario(name, build):
    """build(sandbox) -> (workspace arg, [input args], cwd, pre-existing workspace content maker or None)"""
    sb = tempfile.mkdtemp(prefix='c18replay')
    bad = []
    try:
        os.makedirs(os.path.join(sb, 'inputs', 'proj', 'pkg'))
        for rel, txt in (('inputs/proj/a.py', 'def f(x):\n    return x\n'), ('inputs/proj/pkg/b.py', 'import os\nprint(os.sep)\n'), ('inputs/proj/notes.txt', 'keep me\n'),
                         ('elsewhere/archive/old.py', 'x = 1\n'), ('elsewhere/notes.txt', 'outside\n')):
            os.makedirs(os.path.dirname(os.path.join(sb, rel)), exist_ok=True)
            open(os.path.join(sb, rel), 'w').write(txt)
        ws_arg, inputs, cwd, pre = build(sb)
        full = [i if os.path.isabs(i) else os.path.join(cwd or sb, i) for i in inputs]
        in_bytes = sum(tree_bytes(i) if os.path.isdir(i) else os.path.getsize(i) for i in full)
        for round_ in (1, 2):
            ws_guess = os.path.join(cwd or sb, ws_arg) if not os.path.isabs(ws_arg) else ws_arg
            ws_dir = ws_guess if 'lian_workspace' in ws_guess else os.path.join(ws_guess, 'lian_workspace')
            if round_ == 2 and pre:
                pre(sb, ws_dir)
            before = snapshot(sb, ws_dir)
            try:
                ws = prepare(ws_arg, inputs, force=True, cwd=cwd)
            except SystemExit:
                ws = ws_dir
            except Exception as e:
                bad.append(f'{name} (run {round_}): exception {e!r}')
                break
            after = snapshot(sb, ws)
            for p in sorted(set(before) | set(after)):
                if before.get(p) != after.get(p):
                    bad.append(f'{name} (run {round_}): outside the workspace {os.path.relpath(p, sb)}: {before.get(p)} -> {after.get(p)}')
            copied = tree_bytes(os.path.join(ws, 'src')) if os.path.isdir(os.path.join(ws, 'src')) else 0
            if copied > max(in_bytes, 1) * 2:
                bad.append(f'{name} (run {round_}): {copied} bytes under workspace/src for {in_bytes} input bytes (unbounded copy)')
            if round_ == 2 and pre and os.path.lexists(os.path.join(ws, 'stale.txt')):
                bad.append(f'{name}: forced rerun kept previous workspace content')
    finally:
        shutil.rmtree(sb, ignore_errors=True)
    return bad


def links(sb, ws):
    os.makedirs(ws, exist_ok=True)
    open(os.path.join(ws, 'stale.txt'), 'w').write('old')
    for nm, target in (('to_input', os.path.join(sb, 'inputs', 'proj')), ('to_file', os.path.join(sb, 'elsewhere', 'notes.txt')), ('to_dir', os.path.join(sb, 'elsewhere', 'archive'))):
        if not os.path.lexists(os.path.join(ws, nm)):
            os.symlink(target, os.path.join(ws, nm))


def symlinked_parent(sb):
    """the workspace lies inside the input and the input argument is spelled through a symlinked parent directory"""
    os.makedirs(os.path.join(sb, 'real'), exist_ok=True)
    shutil.copytree(os.path.join(sb, 'inputs', 'proj'), os.path.join(sb, 'real', 'proj'))
    os.symlink(os.path.join(sb, 'real'), os.path.join(sb, 'link'))
    return (os.path.join(sb, 'link', 'proj', 'out'), [os.path.join(sb, 'link', 'proj')], None, None)


SCENARIOS = [
    ('workspace inside the input, input spelled through a symlinked parent directory', symlinked_parent),
    ('disjoint-absolute + forced rerun over a workspace holding symlinks to the input and to outside paths',
     lambda sb: (os.path.join(sb, 'out'), [os.path.join(sb, 'inputs', 'proj')], None, links)),
    ('workspace inside the input directory', lambda sb: (os.path.join(sb, 'inputs', 'proj'), [os.path.join(sb, 'inputs', 'proj')], None, None)),
    ('relative workspace and input', lambda sb: ('out', ['inputs/proj'], sb, links)),
    ('custom workspace name containing the default name', lambda sb: (os.path.join(sb, 'my_lian_workspace_2'), [os.path.join(sb, 'inputs', 'proj')], None, None)),
    ('single file input', lambda sb: (os.path.join(sb, 'out'), [os.path.join(sb, 'inputs', 'proj', 'a.py')], None, None)),
]


def run_all(limit=None):
    wit, cases = [], 0
    for name, b in SCENARIOS[:limit]:
        cases += 1
        bad = scenario(name, b)
        if bad:
            wit.append(dict(function='WorkspaceBuilder.run', input=name, observed=bad[:4], clauses=['fs-write', 'inside-the-workspace']))
    return wit, cases


def search(target, models):
    wit, cases = run_all()
    return dict(witnesses=wit[:3], searched=f'{cases} placements x 2 runs (second run forced over the first workspace, with symlinks planted where stated)',
                how='real option parsing, set_workspace_dir and WorkspaceBuilder.run in a sandbox; byte-level snapshot of everything outside the workspace before/after')


def replay(w):
    name = w.get('input') if isinstance(w, dict) else None
    for n, b in SCENARIOS:
        if n == name:
            bad = scenario(n, b)
            return dict(reproduced=bool(bad), detail=bad[:4])
    out = search('*', [])
    return dict(reproduced=bool(out['witnesses']), detail=out['witnesses'][:1])


if __name__ == '__main__':
    if '--bounded' in sys.argv:
        wit, cases = run_all()
        common.emit(dict(witnesses=wit, cases=cases, bound=f'{cases} placements (disjoint, workspace inside input, relative paths, custom name containing the default name, '
                                                               f'single-file input) x 2 runs each; symlinks to input/outside planted in the old workspace before the forced rerun'))
        sys.exit(1 if wit else 0)
    common.main(search, replay)
