"""C20 replay / witness search on the real entry-point selection code (small scope; a replay aid, never the deciding step)."""
import itertools
import os
import shutil
import tempfile
import types
import common

from lian.util import util
from lian.util.data_model import DataModel
from lian.basics.entry_points import EntryPointGenerator, EntryPointRule
from lian.util.loader import EntryPointsLoader
from lian.config import config
from lian.config.constants import LIAN_SYMBOL_KIND


def spec_flag(f, req):
    if f == req:
        return True, ''
    if f.endswith('-' + req):
        lang = f.split('-')[0]
        return (len(lang) > 0), lang
    return False, ''


def search_flag():
    req = config.ENTRY_POINTS_FILE
    wit = []
    names = ['', req, 'py-' + req, '-' + req, 'x' + req, 'py-x-' + req, req + '-py', 'py-' + req + 'x', '--' + req, 'a-b-' + req, 'py_' + req]
    for f in names:
        got = util.check_file_processing_flag_and_extract_lang(f, req)
        want = spec_flag(f, req)
        if got[0] != want[0] or (want[0] and got[1] != want[1]):
            wit.append(dict(function='check_file_processing_flag_and_extract_lang', input=[f, req], observed=repr(got), expected=repr(want),
                            clauses=['flag-iff-exact-or-nonempty-lang-prefix']))
    return wit, len(names)


def unit_match(r, u):
    base = os.path.basename(u.unit_path)
    return ((not r.lang or r.lang == u.lang) and (r.unit_id < 0 or r.unit_id == u.module_id)
            and (not r.unit_name or r.unit_name in base) and (not r.unit_path or r.unit_path in u.unit_path))


def method_match(r, s):
    name = s['name'] or ''
    attrs = s['attrs'] or ''
    if r.method_id >= 0:
        return r.method_id == s['stmt_id']
    if r.method_list and name not in r.method_list:
        return False
    if r.attrs and (not attrs or not all(a in attrs for a in r.attrs)):
        return False
    return True


class FakeLoader:
    def __init__(self):
        self.epl = EntryPointsLoader('/nonexistent')

    def save_entry_points(self, s):
        return self.epl.save(s)

    def get_entry_points(self):
        return self.epl.get_entry_points()


_EMPTY = None


def mk_gen(rules):
    """a generator built by the real constructor over an empty settings directory, then given the rules under test"""
    global _EMPTY
    if _EMPTY is None:
        _EMPTY = tempfile.mkdtemp(prefix='c20empty')
    g = EntryPointGenerator(types.SimpleNamespace(default_settings=_EMPTY), None, FakeLoader())
    g.entry_point_rules = list(rules)
    g.entry_point_results = set()
    return g


RULES = [
    dict(), dict(lang='python'), dict(lang='java'), dict(unit_name='main'), dict(unit_path='src/'), dict(unit_id=7),
    dict(method_list=['main']), dict(method_list=['main', 'run'], lang='python'), dict(attrs=['public']), dict(attrs=['public', 'static']),
    dict(method_id=12), dict(method_id=12, lang='java'), dict(method_list=['%unit_init']), dict(unit_name='zzz', method_list=['main']),
]
UNITS = [types.SimpleNamespace(lang='python', module_id=7, unit_path='src/app/main.py'),
         types.SimpleNamespace(lang='java', module_id=3, unit_path='lib/Util.java'),
         types.SimpleNamespace(lang='python', module_id=8, unit_path='other/main.py')]
SCOPES = [dict(name='main', attrs='public static', stmt_id=12), dict(name='run', attrs='', stmt_id=13), dict(name='%unit_init', attrs=None, stmt_id=14),
          dict(name=None, attrs='public', stmt_id=15)]


def scope_model():
    rows = [dict(scope_kind=LIAN_SYMBOL_KIND.METHOD_KIND, **s) for s in SCOPES] + [dict(scope_kind=LIAN_SYMBOL_KIND.CLASS_KIND, name='C', attrs='', stmt_id=20)]
    return DataModel(rows)


def search_selection():
    wit = []
    n = 0
    dm = scope_model()
    for k in (1, 2):
        for combo in itertools.combinations(range(len(RULES)), k):
            rules = [EntryPointRule(**RULES[i]) for i in combo]
            for u in UNITS:
                n += 1
                g = mk_gen(rules)
                cands = g.filter_rule_by_unit_info(u)
                want_c = [r for r in rules if unit_match(r, u)]
                if [id(x) for x in cands] != [id(x) for x in want_c]:
                    wit.append(dict(function='EntryPointGenerator.filter_rule_by_unit_info', input=dict(rules=[RULES[i] for i in combo], unit=vars(u)),
                                    observed=[RULES[rules.index(x)] for x in cands], expected=[RULES[rules.index(x)] for x in want_c],
                                    clauses=['only-matching-rules', 'all-matching-rules']))
                g = mk_gen(rules)
                g.collect_entry_points_from_unit_scope(u, dm)
                want = {s['stmt_id'] for s in SCOPES if any(unit_match(r, u) and method_match(r, s) for r in rules)}
                got = set(g.entry_point_results)
                saved = set(g.loader.get_entry_points())
                if got != want or saved != want:
                    wit.append(dict(function='EntryPointGenerator.check_rules', input=dict(rules=[RULES[i] for i in combo], unit=vars(u), scopes=SCOPES),
                                    observed=dict(results=sorted(got), saved=sorted(saved)), expected=sorted(want),
                                    clauses=['no-unselected-method-is-a-start', 'every-selected-method-is-a-start', 'only-selected-added-so-far',
                                             'all-selected-so-far-added', 'saved-to-the-loader-iff-some-rule-matches-the-unit']))
                if len(wit) >= 4:
                    return wit, n
            # one generator over the whole project (what basic analysis does): per unit, the candidates and the additions must be that unit's
            for order in (UNITS, UNITS[::-1]):
                n += 1
                g = mk_gen(rules)
                want = set()
                for u in order:
                    cands = g.filter_rule_by_unit_info(u)
                    want_c = [r for r in rules if unit_match(r, u)]
                    bad = [id(x) for x in cands] != [id(x) for x in want_c]
                    g.collect_entry_points_from_unit_scope(u, dm)
                    want |= {s['stmt_id'] for s in SCOPES if any(unit_match(r, u) and method_match(r, s) for r in rules)}
                    if bad or set(g.loader.get_entry_points()) != want and want_c:
                        wit.append(dict(function='EntryPointGenerator.filter_rule_by_unit_info',
                                        input=dict(rules=[RULES[i] for i in combo], units_in_order=[vars(x) for x in order], failing_unit=vars(u)),
                                        observed=dict(candidates=[RULES[rules.index(x)] for x in cands], saved=sorted(g.loader.get_entry_points())),
                                        expected=dict(candidates=[RULES[rules.index(x)] for x in want_c], saved=sorted(want)),
                                        clauses=['only-matching-rules', 'all-matching-rules', 'candidates-are-matching-rules',
                                                 'every-matching-rule-so-far-is-a-candidate', 'nonempty-iff-some-rule-matched-so-far']))
                        break
                if len(wit) >= 4:
                    return wit, n
    # EntryPointsLoader: union semantics
    l = EntryPointsLoader('/x')
    l.save({1, 2}); l.save({2, 3}); l.save(set())
    if l.get_entry_points() != {1, 2, 3}:
        wit.append(dict(function='EntryPointsLoader.save', input='save({1,2}); save({2,3}); save({})', observed=repr(l.get_entry_points()),
                        clauses=['stored-set-is-old-union-argument']))
    return wit, n


def search_load_settings():
    wit = []
    d = tempfile.mkdtemp(prefix='c20replay')
    try:
        req = config.ENTRY_POINTS_FILE
        layout = {'': [req, 'notes.txt', 'py-' + req, '-' + req], 'sub': ['java-' + req, req + '.bak'], 'sub/deep': [req]}
        for sub, files in layout.items():
            os.makedirs(os.path.join(d, sub), exist_ok=True)
            for f in files:
                open(os.path.join(d, sub, f), 'w').write('[]\n')
        g = EntryPointGenerator.__new__(EntryPointGenerator)
        g.options = types.SimpleNamespace(default_settings=d)
        g.entry_point_rules = []
        log = []
        g._parse_config_file = lambda p: log.append(p)
        g._load_settings()
        want = []
        for root, dirs, files in os.walk(d):
            for f in files:
                if spec_flag(f, req)[0]:
                    want.append(os.path.join(root, f))
        if log != want:
            wit.append(dict(function='EntryPointGenerator._load_settings', input=layout, observed=[p[len(d):] for p in log], expected=[p[len(d):] for p in want],
                            clauses=['every-passing-file-parsed-exactly-once-and-no-other', 'in-walk-order', 'parsed-path-is-join(root,file)']))
    finally:
        shutil.rmtree(d, ignore_errors=True)
    return wit, 1


def cleanup():
    if _EMPTY:
        shutil.rmtree(_EMPTY, ignore_errors=True)


def search_p3():
    """the set of analysis starts == the saved entry points (instrumented P3GlobalSemanticAnalysis.run)"""
    wit = []
    from lian.core.global_semantics import P3GlobalSemanticAnalysis
    for eps in (set(), {5}, {5, 9, 11}):
        p3 = P3GlobalSemanticAnalysis.__new__(P3GlobalSemanticAnalysis)
        started, saved = [], []
        p3.options = types.SimpleNamespace(quiet=True, enable_p2=True)
        p3.analysis_phase_id = 3
        p3.path_manager = types.SimpleNamespace(paths=set())
        real_init = P3GlobalSemanticAnalysis.init_frame_stack

        class L:
            def get_entry_points(self): return eps
            def save_global_sfg_by_entry_point(self, e, sfg): saved.append((e, sfg))
            def save_symbol_state_space_p3(self, e, s): pass
            def save_call_paths_p3(self, p): pass
        p3.loader = L()
        graphs = {}

        def init(e, space, sfg, p3=p3):
            started.append(e); graphs[e] = sfg
            return 'stack'
        p3.init_frame_stack = init
        p3.analyze_frame_stack = lambda *a: None
        p3.save_graph_to_dot = lambda *a: None
        p3.run()
        if sorted(started) != sorted(eps) or sorted(e for e, _ in saved) != sorted(eps) or any(graphs[e] is not g for e, g in saved):
            wit.append(dict(function='P3GlobalSemanticAnalysis.run', input=sorted(eps), observed=dict(started=started, saved=[e for e, _ in saved]),
                            clauses=['starts-are-exactly-the-saved-entry-points']))
    return wit, 3


def search(target, models):
    wit, cases = [], 0
    for fn in (search_flag, search_selection, search_load_settings, search_p3):
        try:
            w, c = fn()
        except Exception as e:      # the real code raised on a small input: that is itself a witness for safety obligations
            w, c = [dict(function=fn.__name__, input='small-scope driver', observed=repr(e), clauses=['safety'])], 1
        wit += w
        cases += c
    cleanup()
    t = target.split('.')[-1]
    mine = [w for w in wit if w['function'].split('.')[-1] == t]
    return dict(witnesses=(mine or wit)[:5], searched=f'{cases} cases: rule pairs x 2 units x 4 method scopes, file-name table, settings tree, 3 entry sets',
                how='real EntryPointGenerator / EntryPointsLoader / P3 run against the UnitMatch/MethodMatch specification evaluated in Python')


def replay(w):
    out = search(w.get('function', '*'), [])
    return dict(reproduced=bool(out['witnesses']), detail=out['witnesses'][:1])


if __name__ == '__main__':
    common.main(search, replay)
